"""C02, reference-evaluator stream (oracle only, outside the Coq model).

An independent interpreter of the documented expression semantics over REAL Python values, so that value kinds the
Coq value universe does not contain are covered: floats, bool/int/float of equal value, a user str subclass that
overrides __str__/__eq__/__hash__, tuple vs list, Mappings that are not dicts, generators, iterators, __iter__-only
and __getitem__-only objects, objects whose attribute / item protocol raises (caught and uncaught classes),
properties that raise, callables taking *args / **kwargs.  Environments: every undefined class x plain / overlay /
sandboxed / immutable sandboxed / optimized=False / async / native / Template(...) constructor; entry points
compile_expression (both values of undefined_to_none), the module variable of {% set r = e %}, the rendered text
of {{ e }} (render, generate, render_async), and one compiled expression called repeatedly with different data
(history: the n-th call equals the first call of a fresh compile).
"""
import collections
import collections.abc
import enum
import http
import numbers
import operator
import random
import re
import types

from . import expr_common as X


# ------------------------------------------------------------------ value kinds
class UStr(str):
    """str subclass overriding __str__ / __eq__ / __hash__ (case-insensitive equality)"""

    def __str__(self):
        return "U<" + "".join(self) + ">"

    def __eq__(self, o):
        return isinstance(o, str) and str.lower(self) == str.lower(o)

    def __ne__(self, o):
        return not self.__eq__(o)

    def __hash__(self):
        return hash(str.lower(self))

    def __repr__(self):
        return "UStr(" + repr("".join(self)) + ")"


class MapOnly(collections.abc.Mapping):
    def __init__(self, d):
        self._d = d

    def __getitem__(self, k):
        return self._d[k]

    def __iter__(self):
        return iter(self._d)

    def __len__(self):
        return len(self._d)

    def __repr__(self):
        return "MapOnly(%r)" % (self._d,)


class GetItemOnly:
    def __init__(self, items):
        self._i = list(items)

    def __getitem__(self, k):
        if not isinstance(k, (int, slice)):
            raise TypeError("indices must be integers")
        return self._i[k]

    def __repr__(self):
        return "GetItemOnly(%r)" % (self._i,)


class IterOnly:
    def __init__(self, items):
        self._i = list(items)

    def __iter__(self):
        return iter(list(self._i))

    def __repr__(self):
        return "IterOnly(%r)" % (self._i,)


class MyAttrError(AttributeError):
    pass


class MyLookup(LookupError):
    pass


class Raises:
    """attribute protocol raises `aexc`, item protocol raises `iexc`"""

    def __init__(self, tag, aexc, iexc):
        self._tag, self._aexc, self._iexc = tag, aexc, iexc

    def __getattr__(self, name):
        if name.startswith(("_", "jinja_", "unsafe_", "alters_")):
            raise AttributeError(name)      # marker attributes the engine itself probes (pass_context, sandbox flags), not template lookups
        raise self._aexc("attr " + name)

    def __getitem__(self, k):
        raise self._iexc("item")

    def __repr__(self):
        return "Raises(%s)" % self._tag


class PropObj:
    @property
    def a(self):
        raise AttributeError("inner failure")       # an AttributeError inside a property: falls through to the item

    @property
    def k(self):
        raise ZeroDivisionError("property")         # not a lookup failure: propagates

    z = 26

    def __getitem__(self, key):
        if key == "zz":
            raise KeyError(key)
        if isinstance(key, int) and not 0 <= key < 3:
            raise IndexError(key)           # iterable through the sequence protocol: three items
        return "item:" + str(key)

    def __repr__(self):
        return "PropObj()"


class Delegating:
    """a common idiom: items are the attributes (so a missing item raises AttributeError)"""
    a = 1
    k = "<dk>"

    def __getitem__(self, key):
        return getattr(self, key)

    def __repr__(self):
        return "Delegating()"


class Everything:
    """answers EVERY attribute name (dunder names and the engine's marker names included), every subscript, every call
    (Mock-like / lazy proxy); not iterable, not awaitable, no length: those protocols live on the type"""
    __iter__ = None
    __contains__ = None

    def __init__(self, path="E"):
        object.__setattr__(self, "_path", path)

    def __getattr__(self, name):
        return Everything(object.__getattribute__(self, "_path") + "." + name)

    def __getitem__(self, k):
        return Everything(object.__getattribute__(self, "_path") + "[%r]" % (k,))

    def __call__(self, *a, **kw):
        return Everything(object.__getattribute__(self, "_path") + "(%d,%s)" % (len(a), ",".join(sorted(kw))))

    def __repr__(self):
        return "<" + object.__getattribute__(self, "_path") + ">"


class DotDict(dict):
    """dict with attribute access; unknown names (ANY name) give an empty DotDict -- a common "dot-dict" record"""

    def __getattr__(self, name):
        try:
            return self[name]
        except KeyError:
            return DotDict()


class Color(enum.IntEnum):
    RED = 1
    BLUE = 2


class MyInt(int):
    """user subclass of int (not bool)"""

    def __repr__(self):
        return "MyInt(%d)" % int(self)


class MyFloat(float):
    def __repr__(self):
        return "MyFloat(%r)" % float(self)


class MyList(list):
    def __repr__(self):
        return "MyList(%s)" % list.__repr__(self)


class MyTuple(tuple):
    def __repr__(self):
        return "MyTuple(%s)" % tuple.__repr__(self)


Point = collections.namedtuple("Point", "x y")


class Falsy:
    def __bool__(self):
        return False

    def __repr__(self):
        return "Falsy()"


class Len0:
    def __len__(self):
        return 0

    def __repr__(self):
        return "Len0()"


class Rec:
    def __init__(self, name, log):
        self._name, self._log = name, log

    def __call__(self, *a, **kw):
        self._log.append((self._name, canon(a), canon(kw)))
        return (self._name, a, tuple(sorted(kw.items(), key=repr)))

    def __repr__(self):
        return "Rec(%s)" % self._name


def gen_over(items):
    for x in items:
        yield x


SEQ_CONTENTS = [[1, 2, 3], [], [0, "a"], ["<", "b", 2.0], [True, 1, 1.0]]
MAP_CONTENTS = [{"a": 1, "k": "<v>", 1: "one", "A": "upper"}, {}, {"k": 0, True: "t", "zz": [1]}, {"a": None, 1.0: "f"}, {"keys": 1, "items": [2], "a": 3, "get": "g"}]


def wild_data(seed, log):
    """fresh data (generators / iterators are single use); the same seed gives equal data"""
    r = random.Random(seed)
    Markup = X._markup()
    sc = r.choice(SEQ_CONTENTS)
    mc = r.choice(MAP_CONTENTS)
    i0 = r.choice([0, 1, 2, -1, 3])
    o2 = X.Obj(2, {"b": [1, 2], "a": Markup("<m>")}, [("c", "<c>"), (1, 5)])
    o1 = X.Obj(1, {"a": r.choice([0, 7]), "k": "attr", "b": o2}, [("a", "item"), ("k", 3), (0, "zero"), ("zz", [3, 4]), ("A", "ITEM")])
    dd = collections.defaultdict(lambda: "dflt")
    dd.update(mc)
    return {
        "i0": i0, "fi": float(i0), "f0": r.choice([0.0, 1.0, 2.0, -1.5, 2.5]), "b1": True, "b0": False, "n0": None,
        "s0": r.choice(["", "a", "k", "<b>", "zz"]), "m0": Markup(r.choice(["<i>", "a", "k"])), "us0": UStr(r.choice(["A", "a", "K", "zz"])), "us1": UStr("k"),
        "l0": list(sc), "t0": tuple(sc), "gi0": GetItemOnly(sc), "it0": IterOnly(sc), "gen0": gen_over(list(sc)), "itr0": iter(list(sc)), "r0": range(r.choice([0, 3])),
        "d0": dict(mc), "mp0": MapOnly(dict(mc)), "mpp0": types.MappingProxyType(dict(mc)), "od0": collections.OrderedDict(mc), "dd0": dd,
        "ns0": types.SimpleNamespace(a=1, k="<ns>"),
        "o1": o1, "o2": o2, "ar0": Raises("rt", RuntimeError, KeyError), "ar1": Raises("sub", MyAttrError, MyLookup), "ar2": Raises("val", AttributeError, ValueError),
        "ar3": Raises("attr-in-item", AttributeError, AttributeError), "ar4": Raises("type", AttributeError, TypeError), "po0": PropObj(), "dl0": Delegating(),
        "ev0": Everything(), "dd1": DotDict(a=DotDict(k="deep", b=DotDict()), k=r.choice([0, "v"]), zz=[1, 2]),
        # instances of subclasses of int / float / list / tuple (str: UStr, Markup; dict: DotDict, OrderedDict, defaultdict)
        "ie0": r.choice([Color.RED, Color.BLUE]), "hs0": http.HTTPStatus.OK, "mi0": MyInt(r.choice([0, 1, 2, 3])), "mf0": MyFloat(r.choice([0.0, 1.0, 2.5])),
        "ml0": MyList(sc), "mt0": MyTuple(sc), "pt0": Point(1, "a"),
        "fz0": Falsy(), "ln0": Len0(), "fa": Rec("fa", log), "fb": Rec("fb", log),
    }


NUM = ["i0", "fi", "f0", "b1", "b0", "ie0", "hs0", "mi0", "mf0"]
STR = ["s0", "m0", "us0", "us1"]
SEQ = ["l0", "t0", "gi0", "it0", "gen0", "itr0", "r0", "ml0", "mt0", "pt0"]
MAP = ["d0", "mp0", "mpp0", "od0", "dd0"]
OBJ = ["o1", "o2", "ns0", "ar0", "ar1", "ar2", "ar3", "ar4", "po0", "dl0", "ev0", "ev0", "dd1", "dd1"]
TRUTH = ["fz0", "ln0", "n0", "u0"]


# ------------------------------------------------------------------ canonical form of a result
ADDR = re.compile(r"0[xX][0-9a-fA-F]+")


def canon(v, d=0):
    import jinja2
    from jinja2.utils import missing
    if d > 6:
        return ("deep",)
    if isinstance(v, jinja2.Undefined):
        ga = object.__getattribute__
        obj = ga(v, "_undefined_obj")
        hint = ga(v, "_undefined_hint")
        if hint is not None and hint.startswith("the inline if-expression"):
            hint = "inline-if"
        return ("U", type(v).__name__, canon(ga(v, "_undefined_name"), d + 1), "missing" if obj is missing else canon(obj, d + 1), hint)
    if v is None or isinstance(v, (bool, int, float)):
        return (type(v).__name__, repr(v))
    if isinstance(v, str):
        return (type(v).__name__, ADDR.sub("0x?", "".join(v)))
    if isinstance(v, (list, tuple)):
        return (type(v).__name__, [canon(x, d + 1) for x in v])
    if isinstance(v, (dict, types.MappingProxyType)):
        return (type(v).__name__, [(canon(k, d + 1), canon(x, d + 1)) for k, x in v.items()])
    if isinstance(v, (types.GeneratorType, collections.abc.Iterator)) and not isinstance(v, (X.Obj,)):
        return ("iter", type(v).__name__, [canon(x, d + 1) for x in v])
    if isinstance(v, slice):
        return ("slice", repr(v))
    return ("obj", type(v).__name__, ADDR.sub("0x?", repr(v)))


def printable(v, d=0):
    """str(v) does not contain an address"""
    if isinstance(v, (list, tuple)):
        return d < 6 and all(printable(x, d + 1) for x in v)
    if isinstance(v, dict):
        return d < 6 and all(printable(k, d + 1) and printable(x, d + 1) for k, x in v.items())
    return not isinstance(v, (types.GeneratorType, collections.abc.Iterator, types.FunctionType)) or isinstance(v, X.Obj)


# ------------------------------------------------------------------ the reference evaluator
BIN = {"add": operator.add, "sub": operator.sub, "mul": operator.mul, "div": operator.truediv, "floordiv": operator.floordiv,
       "mod": operator.mod, "pow": operator.pow}
CMP = {"eq": operator.eq, "ne": operator.ne, "lt": operator.lt, "lteq": operator.le, "gt": operator.gt, "gteq": operator.ge,
       "in": lambda a, b: a in b, "notin": lambda a, b: a not in b}


class Unspecified(Exception):
    """the documented semantics leaves the result open"""


class Ref:
    def __init__(self, undefined, sandboxed=False, autoescape=False, is_async=False):
        self.U = undefined
        self.sandboxed = sandboxed
        self.ae = autoescape
        self.is_async = is_async

    def soft(self, v):
        return v if isinstance(v, str) else str(v)

    def getattr(self, obj, name):
        """a.name : the attribute, else the item, else undefined"""
        try:
            return getattr(obj, name)
        except AttributeError:
            pass
        try:
            return obj[name]
        except (TypeError, LookupError, AttributeError):
            return self.U(obj=obj, name=name)

    def getitem(self, obj, arg):
        """a[arg] : the item, else (for a string argument) the attribute called str(arg), else undefined"""
        try:
            return obj[arg]
        except (TypeError, LookupError, AttributeError):
            pass
        if isinstance(arg, str):
            try:
                return getattr(obj, str(arg))
            except AttributeError:
                pass
        return self.U(obj=obj, name=arg)

    def ev(self, e, data):
        import jinja2
        Markup = X._markup()
        t = e[0]
        ev = lambda x: self.ev(x, data)  # noqa: E731
        if t == "C":
            return e[1]
        if t == "N":
            return data[e[1]] if e[1] in data else self.U(name=e[1])
        if t == "B":
            a = ev(e[2])
            b = ev(e[3])
            return BIN[e[1]](a, b)
        if t == "U":
            a = ev(e[2])
            return -a if e[1] == "neg" else +a
        if t == "!":
            return not ev(e[1])
        if t == "&":
            a = ev(e[1])
            return ev(e[2]) if a else a
        if t == "|":
            a = ev(e[1])
            return a if a else ev(e[2])
        if t == "~":
            vals = [ev(x) for x in e[1]]
            if self.ae:
                soft = [self.soft(v) for v in vals]
                if any(hasattr(v, "__html__") for v in soft):
                    return Markup("").join(soft)
                return "".join(soft)
            return "".join(str(v) for v in vals)
        if t == "cmp":
            left = ev(e[1])
            for op, x in e[2]:
                right = ev(x)
                r = CMP[op](left, right)
                if not r:
                    return r
                left = right
            return r
        if t == "?":
            if ev(e[1]):
                return ev(e[2])
            if e[3] is None:
                return jinja2.Undefined("the inline if-expression")       # always the plain class
            return ev(e[3])
        if t == ".":
            return self.getattr(ev(e[1]), e[2])
        if t == "[]":
            o = ev(e[1])
            return self.getitem(o, ev(e[2]))
        if t == ".i":
            return self.getitem(ev(e[1]), e[2])
        if t == "sl":
            o = ev(e[1])
            parts = [None if x is None else ev(x) for x in e[2:5]]
            return o[slice(*parts)]          # a slice is plain Python subscription (no attribute fallback, no undefined)
        if t == "L":
            return [ev(x) for x in e[1]]
        if t == "T":
            return tuple(ev(x) for x in e[1])
        if t == "D":
            pairs = [(ev(k), ev(v)) for k, v in e[1]]        # all keys and values first, then the dict is built (hashing last)
            return dict(pairs)
        if t in ("call", "callx"):
            f = ev(e[1])
            args = [ev(x) for x in e[2]]
            if t == "callx" and e[4] is not None:        # Python's order: positional, *iterable, keywords, **mapping
                star = ev(e[4])
                args = args + list(star)
            kw = {k: ev(x) for k, x in e[3]}
            if t == "callx":
                if e[5] is not None:
                    dstar = ev(e[5])
                    if not isinstance(dstar, collections.abc.Mapping) and not hasattr(dstar, "keys"):
                        raise TypeError("argument after ** must be a mapping")
                    extra = {}
                    for k in dstar.keys():
                        extra[k] = dstar[k]
                    for k in extra:
                        if not isinstance(k, str):
                            raise TypeError("keywords must be strings")
                        if k in kw:
                            raise TypeError("multiple values for keyword argument")
                    kw.update(extra)
            if self.sandboxed and (getattr(f, "unsafe_callable", False) or getattr(f, "alters_data", False)):
                from jinja2.exceptions import SecurityError
                raise SecurityError("unsafe callable")       # the documented marker attributes of @unsafe / Django-style alters_data
            return f(*args, **kw)
        if t == "F":
            v = ev(e[1])
            return self.filter(e[2], v, [ev(x) for x in e[3]])
        if t == "is":
            v = ev(e[1])
            return self.test(e[2], v, [ev(x) for x in e[3]])
        raise ValueError(t)

    def filter(self, name, v, args):
        import jinja2
        Markup = X._markup()
        if name in ("length", "count"):
            return len(v)
        if name == "first":
            for x in v:
                return x
            return self.U("No first item, sequence was empty.")
        if name == "last":
            for x in reversed(v):
                return x
            return self.U("No last item, sequence was empty.")
        if name == "list":
            return list(v)
        if name == "string":
            return self.soft(v)
        if name == "upper":
            return self.soft(v).upper()
        if name == "lower":
            return self.soft(v).lower()
        if name == "abs":
            return abs(v)
        if name in ("default", "d"):
            d = args[0] if args else ""
            boolean = args[1] if len(args) > 1 else False
            return d if isinstance(v, jinja2.Undefined) or (boolean and not v) else v
        if name == "join":
            sep = args[0] if args else ""
            items = list(v)
            if self.ae:
                if hasattr(sep, "__html__"):
                    return self.soft(sep).join(self.soft(x) for x in items)          # Markup.join escapes the rest
                items = [x if hasattr(x, "__html__") else str(x) for x in items]
                if any(hasattr(x, "__html__") for x in items):
                    return Markup.escape(sep).join(items)
                return str(sep).join(items)
            return str(sep).join(str(x) for x in items)
        if name == "sum":
            # the async implementation collects the items before adding them (bfd2119): only the ORDER of two errors differs
            return sum(list(v), 0) if self.is_async else sum(v, 0)
        if name == "safe":
            return Markup(v)
        if name in ("select", "reject"):
            keep = name == "select"
            return [x for x in v if (bool(x) if not args else bool(self.test(args[0], x, list(args[1:])))) == keep]
        raise ValueError(name)

    def test(self, name, v, args):
        import jinja2
        if name == "defined":
            return not isinstance(v, jinja2.Undefined)
        if name == "undefined":
            return isinstance(v, jinja2.Undefined)
        if name == "none":
            return v is None
        if name == "number":
            return isinstance(v, numbers.Number)
        if name == "integer":
            return isinstance(v, int) and v is not True and v is not False
        if name == "float":
            return isinstance(v, float)
        if name == "boolean":
            return v is True or v is False
        if name == "true":
            return v is True
        if name == "false":
            return v is False
        if name == "string":
            return isinstance(v, str)
        if name == "mapping":
            return isinstance(v, collections.abc.Mapping)
        if name == "iterable":
            try:
                iter(v)
            except TypeError:
                return False
            return True
        if name == "sequence":
            try:
                len(v)
                v.__getitem__
            except Exception:
                return False
            return True
        if name == "callable":
            return callable(v)
        if name == "sameas":
            o = args[0]
            if v is not o or type(v) in (float, str, tuple, bytes, complex, int) and not isinstance(v, bool) and not (type(v) is int and -5 <= v <= 256):
                if type(v) is type(o) and type(v) in (float, str, tuple, bytes, complex, int) and v == o:
                    raise Unspecified()      # identity of two equal immutable values (literal vs data) is the interpreter's business
            return v is o
        if name in ("eq", "equalto", "=="):
            return v == args[0]
        if name in ("ne", "!="):
            return v != args[0]
        if name in ("lt", "lessthan", "<"):
            return v < args[0]
        if name in ("gt", "greaterthan", ">"):
            return v > args[0]
        if name in ("le", "<="):
            return v <= args[0]
        if name in ("ge", ">="):
            return v >= args[0]
        if name == "in":
            return v in args[0]
        if name == "odd":
            return v % 2 == 1
        if name == "even":
            return v % 2 == 0
        if name == "divisibleby":
            return v % args[0] == 0
        if name == "lower":
            return str(v).islower()
        if name == "upper":
            return str(v).isupper()
        if name == "escaped":
            return hasattr(v, "__html__")
        if name == "filter":
            from jinja2.defaults import DEFAULT_FILTERS
            return v in DEFAULT_FILTERS
        if name == "test":
            from jinja2.defaults import DEFAULT_TESTS
            return v in DEFAULT_TESTS
        raise ValueError(name)


FILTERS0 = ["length", "count", "first", "last", "list", "string", "upper", "lower", "abs", "join", "sum", "safe"]
TESTS0 = ["defined", "undefined", "none", "number", "integer", "float", "boolean", "true", "false", "string", "mapping", "iterable", "sequence", "callable", "odd", "even", "lower", "upper", "escaped", "filter", "test"]
TESTS1 = ["sameas", "eq", "equalto", "ne", "lt", "lessthan", "gt", "greaterthan", "le", "ge", "in", "divisibleby"]
KEYS = [("C", "a"), ("C", "k"), ("C", "zz"), ("C", "A"), ("C", "b"), ("C", "keys"), ("C", "items"), ("C", "get"), ("C", "count"), ("C", 0), ("C", 1), ("C", True), ("C", 1.0), ("C", 2),
        ("N", "us0"), ("N", "us1"), ("N", "m0"), ("N", "s0"), ("N", "i0"), ("N", "fi"), ("N", "b1"), ("N", "b0"), ("U", "neg", ("C", 1)), ("N", "n0"), ("N", "u0")]
# names that are attributes / methods of the builtin containers too: a key of that name must lose against the attribute in a.name and win in a["name"]
ATTRS = ["a", "k", "zz", "A", "b", "z", "c", "keys", "items", "values", "get", "count", "index", "real", "upper"]


class RGen:
    def __init__(self, rng, pert=False):
        self.r = rng
        self.pert = pert
        self._nest = False

    def _small(self, make):
        """values stay small (X.size_bound): repeated repetitions / powers are regenerated"""
        if self._nest:
            return make()
        self._nest = True
        try:
            for _ in range(10):
                e = make()
                if X.small_enough(e, self.pert):
                    return e
            return self.name(NUM)
        finally:
            self._nest = False

    def name(self, *pools):
        return ("N", self.r.choice([n for p in pools for n in p]))

    def num(self, d):
        return self._small(lambda: self._num(d))

    def any(self, d):
        return self._small(lambda: self._any(d))

    def _num(self, d):
        r = self.r
        if d <= 0 or r.random() < 0.35:
            return self.name(NUM) if r.random() < 0.7 else ("C", r.choice([0, 1, 2, 0.0, 1.0, 0.5, True, False]))
        k = r.random()
        if k < 0.5:
            op = r.choice(list(BIN))
            if op == "pow":          # leaves only: towers do not terminate, and sequence * huge exhausts memory
                return ("B", op, self.num(0), self.num(0))
            return ("B", op, self.num(d - 1), self.num(d - 1))
        if k < 0.6:
            return ("U", r.choice(["neg", "pos"]), self.num(d - 1))
        if k < 0.75:
            return ("F", self.any(d - 1), r.choice(["length", "abs", "sum"]), [])
        if k < 0.9:
            return self.access(d)
        return ("?", self.truth(d - 1), self.num(d - 1), self.num(d - 1))

    def container(self, d):
        r = self.r
        k = r.random()
        if d <= 0 or k < 0.6:
            return self.name(SEQ, MAP, OBJ, STR)
        if k < 0.7:
            return ("L", [self.any(d - 1) for _ in range(r.randint(0, 3))])
        if k < 0.8:
            return ("T", [self.any(d - 1) for _ in range(r.randint(0, 3))])
        if k < 0.9:
            return ("D", [(r.choice(KEYS), self.any(d - 1)) for _ in range(r.randint(0, 3))])
        return self.access(d)

    def access(self, d):
        r = self.r
        if r.random() < 0.1:
            # a name that is BOTH a key / index of the container and an attribute or method of its type; literal containers
            # (constant or not) and data containers, attribute syntax, subscript syntax, and the call of the result
            nm = r.choice(["keys", "items", "values", "get", "copy", "count", "index", "real", "upper", "a"])
            val = lambda: ("C", r.choice([1, "v", None])) if r.random() < 0.6 else self.any(0)  # noqa: E731
            lit = r.choice([("D", [(("C", nm), val())]), ("D", [(("C", "a"), val()), (("C", nm), val())]), ("L", [val()]), ("T", [val(), val()]), ("C", "ab"), ("C", 3),
                            ("N", "d0"), ("N", "mp0"), ("N", "l0"), ("N", "s0")])
            acc = (".", lit, nm) if r.random() < 0.6 else ("[]", lit, ("C", nm))
            k = r.random()
            if k < 0.5:
                return acc
            if k < 0.8:
                return ("call", acc, [], [])
            return ("call", acc, [("C", r.choice([1, "a", nm]))], [])
        base = self.container(d - 1)
        k = r.random()
        if k < 0.35:
            return (".", base, r.choice(ATTRS))
        if k < 0.75:
            return ("[]", base, r.choice(KEYS) if r.random() < 0.85 else self.num(d - 1))
        if k < 0.85:
            return (".i", base, r.choice([0, 1, 2]))
        return ("sl", base, *[(r.choice([("C", 0), ("C", 1), ("C", 2), ("U", "neg", ("C", 1)), ("N", "i0"), ("N", "b1"), ("N", "fi"), ("N", "n0")])
                              if r.random() < 0.5 else None) for _ in range(3)])

    def truth(self, d):
        r = self.r
        k = r.random()
        if d <= 0 or k < 0.25:
            return self.name(TRUTH, NUM, SEQ[:2], MAP[:2], STR)
        if k < 0.4:
            return ("!", self.truth(d - 1))
        if k < 0.55:
            return (r.choice("&|"), self.any(d - 1), self.any(d - 1))
        if k < 0.8:
            ops = [(r.choice(list(CMP)), self.any(d - 1)) for _ in range(r.randint(1, 2))]
            return ("cmp", self.any(d - 1), ops)
        if k < 0.9:
            return ("is", self.any(d - 1), r.choice(TESTS0), [])
        return ("is", self.any(d - 1), r.choice(TESTS1), [self.any(d - 1)])

    def call(self, d):
        r = self.r
        f = self.name(["fa", "fb", "fa", "fb", "ev0"]) if r.random() < 0.75 else self.name(["u0", "n0", "i0"]) if r.random() < 0.4 else self.access(d)
        args = [self.any(d - 1) for _ in range(r.randint(0, 2))]
        kw = [(k, self.any(d - 1)) for k in r.sample(["a", "k", "p"], r.randint(0, 2))]
        if r.random() < 0.3:
            return ("call", f, args, kw)
        star = None if r.random() < 0.3 else (self.name(SEQ, ["s0", "us0", "d0", "n0", "u0"]) if r.random() < 0.8 else ("L", [self.any(0) for _ in range(r.randint(0, 2))]))
        dstar = None if r.random() < 0.4 else (self.name(MAP, ["ns0", "l0", "n0"]) if r.random() < 0.8 else ("D", [(("C", r.choice(["a", "q", "k"])), self.any(0))]))
        return ("callx", f, args, kw, star, dstar)

    def _any(self, d):
        r = self.r
        if d <= 0:
            return self.name(NUM, STR, SEQ, MAP, OBJ, TRUTH) if r.random() < 0.8 else ("C", r.choice([0, 1, 1.0, True, "a", "k", "", None, 2.5]))
        k = r.random()
        if k < 0.2:
            return self.num(d)
        if k < 0.45:
            return self.access(d)
        if k < 0.6:
            return self.truth(d)
        if k < 0.7:
            return self.call(d)
        if k < 0.78:
            return ("~", [self.any(d - 1) for _ in range(r.randint(2, 3))])
        if k < 0.86:
            return ("?", self.truth(d - 1), self.any(d - 1), None if r.random() < 0.5 else self.any(d - 1))
        if k < 0.93:
            f = r.choice(FILTERS0 + ["default", "d", "default"])
            args = []
            if f in ("default", "d"):
                args = [self.any(0)] + ([("C", r.choice([True, False]))] if r.random() < 0.5 else [])
            elif f == "join" and r.random() < 0.6:
                args = [r.choice([("C", ","), ("N", "m0"), ("N", "us0"), ("C", "<")])]
            return ("F", self.container(d - 1) if f not in ("abs", "default", "d") else self.any(d - 1), f, args)
        return self.container(d)


# ------------------------------------------------------------------ environments and entry points
ENV_KINDS = ["plain", "overlay", "sandbox", "immutable", "noopt", "async", "native", "template-ctor", "autoescape"]
ENTRIES = ["ce", "ce_none", "module", "render", "generate", "history"]


def undefined_classes():
    import jinja2

    class MyUndefined(jinja2.Undefined):
        __slots__ = ()

        def __str__(self):
            return "<<my-undefined>>"

    return [jinja2.Undefined, jinja2.StrictUndefined, jinja2.ChainableUndefined, jinja2.DebugUndefined, MyUndefined]


_ENVS = {}


def make_env(kind, ucls):
    key = (kind, ucls.__name__)
    if key in _ENVS:
        return _ENVS[key]
    import jinja2
    from jinja2.nativetypes import NativeEnvironment
    from jinja2.sandbox import ImmutableSandboxedEnvironment, SandboxedEnvironment
    if kind == "plain":
        env = jinja2.Environment(undefined=ucls)
    elif kind == "autoescape":
        env = jinja2.Environment(undefined=ucls, autoescape=True)
    elif kind == "overlay":
        env = jinja2.Environment().overlay(undefined=ucls)
    elif kind == "sandbox":
        env = SandboxedEnvironment(undefined=ucls)
    elif kind == "immutable":
        env = ImmutableSandboxedEnvironment(undefined=ucls)
    elif kind == "noopt":
        env = jinja2.Environment(undefined=ucls, optimized=False)
    elif kind == "async":
        env = jinja2.Environment(undefined=ucls, enable_async=True)
    elif kind == "native":
        env = NativeEnvironment(undefined=ucls)
    elif kind == "template-ctor":
        env = jinja2.Template("", undefined=ucls).environment
    else:
        raise ValueError(kind)
    _ENVS[key] = env
    return env


def real_run(kind, ucls, entry, src, seeds):
    """-> list of ('ok', canon, log) / ('err', class name) per data seed, through the real implementation"""
    import jinja2
    env = make_env(kind, ucls)
    out = []
    try:
        if kind == "template-ctor" and entry in ("module", "render", "generate"):
            mk = lambda s: jinja2.Template(s, undefined=ucls)  # noqa: E731
        else:
            mk = env.from_string
        if entry in ("ce", "history"):
            fn = env.compile_expression(src, undefined_to_none=False)
        elif entry == "ce_none":
            fn = env.compile_expression(src)
        elif entry == "module":
            t = mk("{% set r = " + src + " %}")
        else:
            t = mk("{{ " + src + " }}")
    except Exception as ex:
        return [("err", "compile:" + type(ex).__name__)] * len(seeds)
    for seed in seeds:
        log = []
        data = wild_data(seed, log)
        try:
            if entry in ("ce", "ce_none", "history"):
                v = fn(**data)
                out.append(("ok", canon(v), log))
            elif entry == "module":
                m = X.run_async(t.make_module_async(data)) if kind == "async" else t.make_module(data)
                out.append(("ok", canon(m.r), log))
            elif entry == "render":
                txt = X.run_async(t.render_async(**data)) if kind == "async" else t.render(**data)
                out.append(("ok", ADDR.sub("0x?", txt), log))
            else:
                if kind == "async":
                    async def collect():
                        return [x async for x in t.generate_async(**data)]
                    txt = "".join(X.run_async(collect()))
                else:
                    txt = "".join(t.generate(**data))
                out.append(("ok", ADDR.sub("0x?", txt), log))
        except RecursionError:
            out.append(("err", "RecursionError"))
        except Exception as ex:
            out.append(("err", type(ex).__name__))
    return out


def ref_run(kind, ucls, entry, e, seeds):
    import markupsafe
    ref = Ref(ucls, sandboxed=kind in ("sandbox", "immutable"), autoescape=kind == "autoescape", is_async=kind == "async")
    out = []
    for seed in seeds:
        log = []
        data = wild_data(seed, log)
        try:
            v = ref.ev(e, data)
            if entry == "ce_none":
                import jinja2
                if isinstance(v, jinja2.Undefined):
                    v = None
            if entry in ("render", "generate"):
                out.append(("ok", ADDR.sub("0x?", str(markupsafe.escape(v)) if kind == "autoescape" else str(v)), log))
            else:
                out.append(("ok", canon(v), log))
        except Unspecified:
            out.append(("skip",))
        except RecursionError:
            out.append(("err", "RecursionError"))
        except Exception as ex:
            out.append(("err", type(ex).__name__))
    return out


def entries_for(kind):
    if kind == "async":
        return ENTRIES                                  # compile_expression included (sync call into an async environment, fix 68bd5a4)
    if kind == "native":
        return ["ce", "ce_none", "module", "history"]  # native rendering returns Python objects: not this property
    return ENTRIES


def run_one(ctx, e, kind, ucls, entry, seeds, report=True):
    done, rv = X.guarded(ctx, _run_one, ctx, e, kind, ucls, entry, seeds, report)
    return rv if done else (True, [("skip",)])


def _run_one(ctx, e, kind, ucls, entry, seeds, report=True):
    src = X.to_src(e)
    real = real_run(kind, ucls, entry, src, seeds)
    ref = ref_run(kind, ucls, entry, e, seeds)
    ok = True
    for j, (a, b) in enumerate(zip(real, ref)):
        if b == ("skip",):
            continue
        if a != b:
            ok = False
            if report:
                what = "call #%d of one compiled expression" % (j + 1) if entry == "history" else entry
                ctx.reject({"kind": "ref", "expr": src, "tree": repr(e), "env": kind, "undefined": ucls.__name__, "entry": entry, "seeds": seeds,
                            "reference": repr(b)[:400], "real": repr(a)[:400]},
                           f"{kind} environment (undefined={ucls.__name__}), {what}: {src} gives {a!r:.300} but the documented semantics gives {b!r:.300}",
                           "C02:ref:" + kind + ":" + entry + ":" + src)
            break
    return ok, ref


def run_ref_stream(ctx):
    import warnings
    warnings.simplefilter("ignore", SyntaxWarning)          # "'int' object is not subscriptable; perhaps you missed a comma?" from generated code
    g = RGen(ctx.rng)
    ucs = undefined_classes()
    n = ctx.size(2500, 60000)
    depth = ctx.size(3, 4)
    shown = collections.Counter()
    for i in range(n):
        e = g.any(ctx.rng.randint(1, depth))
        kind = ENV_KINDS[i % len(ENV_KINDS)]
        ucls = ucs[(i // len(ENV_KINDS)) % len(ucs)]
        ents = entries_for(kind)
        entry = ents[(i // (len(ENV_KINDS) * len(ucs))) % len(ents)]
        seeds = [ctx.rng.randrange(1 << 30) for _ in range(3 if entry == "history" else 1)]
        sig = kind + ":" + entry
        ok, ref = run_one(ctx, e, kind, ucls, entry, seeds, report=shown[sig] < 2)
        if not ok:
            shown[sig] += 1
        nontriv = any(r[0] == "ok" for r in ref)
        src = X.to_src(e)
        ctx.case(sample={"expr": src, "env": kind, "undefined": ucls.__name__, "entry": entry, "reference": repr(ref)[:200]} if i % 211 == 0 else None,
                 key=("ref", src, tuple(seeds)) if nontriv else None)
        ctx.count("ref_env_" + kind)
        ctx.count("ref_entry_" + entry)
        ctx.count("ref_undefined_" + ucls.__name__)
        ctx.count("ref_" + ("value" if nontriv else "error"))
        if ok:
            ctx.validated()


# ------------------------------------------------------------------ every value kind on every axis (systematic, small)
def axis_consumers():
    C = lambda v: ("C", v)  # noqa: E731
    N = lambda n: ("N", n)  # noqa: E731
    F = lambda u, f, *a: ("F", u, f, list(a))  # noqa: E731
    T = lambda u, t, *a: ("is", u, t, list(a))  # noqa: E731
    cs = [lambda u: F(u, "list"), lambda u: F(u, "first"), lambda u: F(u, "last"), lambda u: F(u, "join", C(",")), lambda u: F(u, "length"), lambda u: F(u, "sum"),
          lambda u: F(u, "string"), lambda u: F(u, "upper"), lambda u: F(u, "abs"), lambda u: F(u, "default", C(1)), lambda u: F(u, "default", C(1), C(True)), lambda u: F(u, "safe"),
          lambda u: (".", u, "a"), lambda u: ("[]", u, C("a")), lambda u: (".i", u, 0), lambda u: ("[]", u, C(0)), lambda u: ("[]", u, N("us1")), lambda u: ("sl", u, C(1), None, None),
          lambda u: ("call", u, [], []), lambda u: ("call", u, [C(1)], [("k", C(2))]), lambda u: ("call", N("fa"), [u], []), lambda u: ("callx", N("fa"), [], [], u, None),
          lambda u: ("callx", N("fa"), [], [], None, u), lambda u: ("call", N("fa"), [], [("k", u)]), lambda u: ("call", (".", u, "a"), [], []), lambda u: (".", ("call", N("fa"), [u], []), "a"),
          lambda u: (".", F(u, "default", C(1)), "a"), lambda u: (".", (".", u, "a"), "b"), lambda u: ("[]", ("[]", u, C("a")), C("k")), lambda u: (".", ("[]", u, C(0)), "a"),
          lambda u: T(u, "defined"), lambda u: T(u, "iterable"), lambda u: T(u, "mapping"), lambda u: T(u, "sequence"), lambda u: T(u, "callable"), lambda u: T(u, "string"),
          lambda u: T(u, "number"), lambda u: T(u, "none"), lambda u: T(u, "sameas", u),
          lambda u: T(u, "integer"), lambda u: T(u, "float"), lambda u: T(u, "boolean"), lambda u: T(u, "true"), lambda u: T(u, "false"), lambda u: T(u, "undefined"),
          lambda u: T(u, "odd"), lambda u: T(u, "even"), lambda u: T(u, "divisibleby", C(2)), lambda u: T(u, "lower"), lambda u: T(u, "upper"), lambda u: T(u, "escaped"),
          lambda u: T(u, "filter"), lambda u: T(u, "test"), lambda u: T(u, "eq", C(1)), lambda u: T(u, "ne", C(1)), lambda u: T(u, "lt", C(2)), lambda u: T(u, "ge", C(1)),
          lambda u: T(u, "eq", u), lambda u: T(u, "in", ("L", [C(1), C("a"), C(2.5)])), lambda u: T(C(1), "eq", u), lambda u: T(C(1), "sameas", u),
          lambda u: F(F(("L", [u, C(1), C(True), C(1.0), C("1")]), "select", C("integer")), "list"), lambda u: F(F(("L", [u, C(1), C(True), C(1.0)]), "reject", C("integer")), "list"),
          lambda u: F(F(("L", [u, C(1.5), C(1)]), "select", C("float")), "list"), lambda u: F(F(("L", [u, C("a")]), "select", C("string")), "list"), lambda u: F(F(("L", [u, ("L", [])]), "select", C("sequence")), "list"),
          lambda u: F(F(("L", [u, ("D", [])]), "select", C("mapping")), "list"), lambda u: F(F(("L", [u, C(3)]), "select", C("number")), "list"), lambda u: F(F(("L", [u, C(0)]), "select"), "list"),
          lambda u: F(F(("L", [u, C(0)]), "reject"), "list"), lambda u: F(F(("L", [u, C(2)]), "select", C("eq"), u), "list"), lambda u: F(F(("L", [u, C(True)]), "reject", C("boolean")), "list"), lambda u: F(T(C(1), "in", u), "list"), lambda u: F(("cmp", C(1), [("in", u)]), "list"), lambda u: F(("cmp", u, [("in", ("L", [C(1), u]))]), "list"),
          lambda u: ("!", u), lambda u: ("&", u, C(1)), lambda u: ("|", u, C(1)), lambda u: ("?", u, C(1), C(2)), lambda u: ("?", C(0), C(1), u), lambda u: ("~", [u, C("x")]),
          lambda u: ("B", "add", u, C(1)), lambda u: ("B", "mul", u, C(2)), lambda u: ("B", "mod", C("%s"), u), lambda u: ("U", "neg", u), lambda u: ("cmp", u, [("eq", u)]),
          lambda u: ("cmp", u, [("lt", C(1))]), lambda u: ("L", [u]), lambda u: (".", ("D", [(C("k"), u)]), "k"), lambda u: F(("L", [u, u]), "first"), lambda u: F(("L", [u]), "join", C("-")),
          lambda u: F(("L", [("L", [u])]), "sum", ), lambda u: u]
    return cs


def run_axis_stream(ctx):
    """every name of the data pool x every consumer (iteration, attribute, subscript, slice, call, argument, star argument,
    tests, containment, truth, string conversion, arithmetic, comparison, collection member) under the async environment and one
    more environment kind in rotation, every undefined class in rotation"""
    import warnings
    warnings.simplefilter("ignore", SyntaxWarning)
    names = sorted(wild_data(0, [])) + ["u0"]
    ucs = undefined_classes()
    cs = axis_consumers()
    others = [k for k in ENV_KINDS if k != "async"]
    i = 0
    shown = collections.Counter()
    for name in names:
        for cons in cs:
            e = cons(("N", name))
            for kind in ("async", others[i % len(others)]):
                ucls = ucs[i % len(ucs)]
                ents = entries_for(kind)
                entry = ents[i % len(ents)]
                i += 1
                seeds = [1000 + i]
                ok, ref = run_one(ctx, e, kind, ucls, entry, seeds, report=shown[kind] < 3)
                if not ok:
                    shown[kind] += 1
                ctx.case(key=("axis", X.to_src(e), kind, entry))
                ctx.count("axis_" + kind)
                if ok:
                    ctx.validated()


def replay(ctx, case):
    ucls = [c for c in undefined_classes() if c.__name__ == case["undefined"]][0]
    e = eval(case["tree"], {"Markup": X._markup()})
    ok, ref = run_one(ctx, e, case["env"], ucls, case["entry"], case["seeds"])
    print("reference:", ref)
    print("real:", real_run(case["env"], ucls, case["entry"], X.to_src(e), case["seeds"]))
    ctx.case(key=("ref", case["expr"]))
    if ok:
        ctx.validated()
