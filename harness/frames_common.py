"""Shared by C29 and C37: the T3 obligation text, template pool with state-carrying constructs,
deep snapshots of inputs."""
import asyncio
import collections
import collections.abc
import copy
import os
import sys

from . import lib
from .gen_templates import TGen

sys.path.insert(0, os.path.join(lib.ROOT, "gen"))
import frames_footprint as T3  # noqa: E402


def coq_str(s):
    return '"' + s.replace('"', '""') + '"%string'


def coq_root(r):
    if r == "self":
        return None
    if r == "fresh":
        return "RFresh"
    if r.startswith("param:"):
        return "RParam " + coq_str(r[6:])
    if r.startswith("global:"):
        return "RGlobal " + coq_str(r[7:])
    return "RUnknown"


def coq_rows(rows, name):
    out = []
    for r in rows:
        root = coq_root(r["root"]) if r["root"] != "self" else "RSelf " + coq_str(r["cls"])
        out.append("  {| w_fn := " + coq_str(r["fn"]) + "; w_kind := " + coq_str(r["kind"]) + "; w_root := " + root
                   + "; w_first := " + coq_str(r["first"]) + " |}")
    return f"Definition {name} : list wrow :=\n [\n" + ";\n".join(out) + "\n ].\n"


OBLIGATION = '''
(* 1: every write site of the render path has its root in the render's own objects, in a fresh
      local, in a lock-protected / fill-once cache, or in set-up code *)
Lemma footprint_rows_ok : table_footprint_ok rows = true.
Proof. vm_compute. reflexivity. Qed.
(* 2: the allow-lists are live: each fill-once function and each owned-parameter site still
      occurs in the table (an allowance for code that is gone would be dead text) *)
Lemma allowances_live :
  forallb (fun f => existsb (fun r => String.eqb (w_fn r) f) rows) fill_once_fns &&
  forallb (fun fp => existsb (fun r => String.eqb (w_fn r) (fst fp)) rows) owned_param_sites = true.
Proof. vm_compute. reflexivity. Qed.
(* 3: the generated code of this run's templates writes only through context / fresh locals *)
Lemma generated_rows_ok : table_footprint_ok gen_rows = true.
Proof. vm_compute. reflexivity. Qed.
'''

PY_PER_RENDER = {"Context", "EvalContext", "LoopContext", "AsyncLoopContext", "BlockReference", "TemplateReference", "Macro",
                 "Undefined", "ChainableUndefined", "DebugUndefined", "StrictUndefined", "TemplateStream", "TemplateExpression",
                 "Cycler", "Joiner", "Namespace", "_IteratorToAsyncIterator", "_GroupTuple"}
PY_CTORS = {"__init__", "__new__", "_postinit", "__setstate__", "__init_subclass__"}
PY_FILL = {"environment.Template._get_default_module", "environment.Template._get_default_module_async",
           "environment.Environment._load_template"}
PY_SETUP = {"environment.Environment.add_extension", "environment.Environment.extend", "environment.Template._from_namespace",
            "utils.pass_context", "utils.pass_eval_context", "utils.pass_environment", "utils.internalcode", "utils.clear_caches",
            "environment.TemplateStream.enable_buffering", "environment.TemplateStream.disable_buffering"}
PY_ENGINE_PARAMS = {"context", "ctx", "eval_ctx", "__self", "__context", "frame", "loop", "buf"}
PY_OWNED = {("runtime.new_context", "vars"), ("filters.prepare_map", "kwargs")}


def failing_rows(rows):
    """python mirror of FramesSched.row_ok, only to name the failing rows in the evidence (the verdict is Coq's)"""
    bad = []
    for r in rows:
        fn, root = r["fn"], r["root"]
        if fn in PY_SETUP or root == "fresh":
            continue
        if root == "self":
            if r["cls"] in PY_PER_RENDER or r["cls"] == "LRUCache" or fn.rsplit(".", 1)[-1] in PY_CTORS or fn in PY_FILL:
                continue
        elif root.startswith("param:"):
            if root[6:] in PY_ENGINE_PARAMS or (fn, root[6:]) in PY_OWNED:
                continue
        bad.append(r)
    return bad


def t3_obligation(ctx, gen_sources):
    """regenerate the footprint table (source + generated code of this run) and check the obligations"""
    try:
        rows = T3.scan_repo(lib.SRC)
        grows = []
        for name, src in gen_sources:
            for r in T3.scan_source(src, "template"):
                grows.append(r)
        # generated rows repeat a lot: keep one per (function kind, kind, root, first step)
        seen, uniq = set(), []
        for r in grows:
            fn = r["fn"].split(".")[1] if "." in r["fn"] else r["fn"]
            fn = "block" if fn.startswith("block_") else fn
            k = (fn, r["kind"], r["root"], r["first"])
            if k not in seen:
                seen.add(k)
                r = dict(r, fn="template." + fn)
                uniq.append(r)
        v = ("From Coq Require Import List Bool String.\nImport ListNotations.\nFrom JV Require Import Model.Frames Model.FramesSched.\n"
             "Open Scope string_scope.\n" + coq_rows(rows, "rows") + coq_rows(uniq, "gen_rows") + OBLIGATION)
        ok, _ = ctx.coq_obligation("Gen_footprint", v, n_obligations=3)
        bad = failing_rows(rows) + failing_rows(uniq)
        ctx.extra["footprint_rows"] = len(rows)
        ctx.extra["generated_code_rows"] = len(uniq)
        ctx.extra["rows_failing_obligation"] = [f"{r['fn']}:{r['line']} {r['kind']} root={r['root']} :: {r['text']}" for r in bad][:10]
        return ok, bad
    except T3.TranslatorError as e:
        ctx.obligations += 3
        ctx.broken.append("T3 translator: " + str(e))
        return False, []


# --------------------------------------------------------------------------- templates with state
STATE_SNIPS = [
    "{% set ns = namespace(c=0) %}{% for x in nums %}{% set ns.c = ns.c + x %}{% endfor %}{{ ns.c }}",
    "{% for x in nums %}{{ loop.index }}{{ loop.cycle('a', 'b') }}{{ loop.changed(x) }}{{ loop.previtem }}{% endfor %}",
    "{% set c = cycler('o', 'e') %}{% for x in nums %}{{ c.next() }}{% endfor %}{{ c.current }}",
    "{% set j = joiner('|') %}{% for x in words %}{{ j() }}{{ x }}{% endfor %}",
    "{{ lists|sum(start=acc) }}", "{{ nums|sum(start=base) }}", "{{ recs|sum(attribute='n', start=base) }}",
    "{{ words|join(',') }}", "{{ nested|map('join', '-')|join('/') }}", "{{ words|sort|join }}", "{{ nums|sort(reverse=true) }}",
    "{{ nums|batch(2, 0)|list }}", "{{ nums|slice(2, 9)|list }}", "{{ words|map('upper')|list }}", "{{ recs|map(attribute='n')|list }}",
    "{{ recs|selectattr('n')|list|length }}", "{{ recs|groupby('n')|list|length }}", "{{ words|unique|list }}",
    "{{ words|reverse|list }}", "{{ nums|list }}", "{{ d|dictsort }}", "{{ d|xmlattr }}", "{{ d|tojson }}", "{{ nested|tojson }}",
    "{{ d|tojson(indent=2) }}", "{{ nested|tojson(1) }}{{ recs|tojson }}", "{{ d|items|list }}", "{{ words|indent(2) if words is string else lines|indent(2) }}", "{{ lines|indent(2, first=true) }}",
    "{{ d.update({'zz': 1}) if false else '' }}", "{{ nums|first }}{{ nums|last }}{{ nums|min }}{{ nums|max }}", "{{ nums|random is number }}",
    "{{ words|batch(2)|map('join')|list }}", "{{ text|wordwrap(5) }}", "{{ text|truncate(6) }}", "{{ text|urlize }}", "{{ text|striptags }}",
    "{{ gl.a }}{{ gl.its|join }}", "{{ tg.k }}{{ tg.lst|length }}", "{% set v = acc %}{{ v|length }}", "{% set k = d %}{{ k|length }}",
    "{% import 'lib.html' as L %}{{ L.m(nums) }}{{ L.v }}", "{% from 'lib.html' import m with context %}{{ m(words) }}",
    "{% include 'inc.html' %}", "{% macro q(p=acc) %}{{ p|length }}{% endmacro %}{{ q() }}{{ q(nums) }}",
    "{% for k, v in d|dictsort %}{{ k }}={{ v }}{% endfor %}", "{% for x in nested recursive %}{% if x is iterable and x is not string %}{{ loop(x) }}{% else %}{{ x }}{% endif %}{% endfor %}",
    "{% filter upper %}{{ words|join }}{% endfilter %}", "{% with acc = acc + [9] %}{{ acc|length }}{% endwith %}{{ acc|length }}",
    "{% set acc2 = acc %}{% set acc2 = acc2 + [1] %}{{ acc2|length }}{{ acc|length }}",
    # value kinds: tuple, Markup, a Mapping that is no dict, OrderedDict, frozenset, float / bool, str subclass,
    # __iter__-only and __getitem__-only objects
    "{{ tup|list }}{{ tup|sort }}{{ tup|sum }}{{ tup|reverse|list }}{{ tup|batch(2)|list }}", "{{ mku }}{{ mku|upper }}{{ [mku, text]|join }}{{ mku|striptags }}",
    "{{ cmap|dictsort }}{{ cmap|items|list }}{{ cmap|xmlattr }}{{ cmap.k }}{{ cmap['n'] }}{{ cmap|length }}{% for k in cmap %}{{ k }}{% endfor %}",
    "{{ od|dictsort }}{{ od|tojson }}{{ od|items|first }}{{ od|list }}", "{{ fs|list }}{{ fs|sum }}{{ 2 in fs }}", "{{ flt|round }}{{ flt|int }}{{ tru + 1 }}{{ [tru, 1, flt]|unique|list }}",
    "{{ sub }}{{ sub|upper }}{{ d[sub] is undefined }}{{ [sub]|join }}{{ sub|length }}{{ {'sub': 1}[sub] }}", "{{ itr|list }}{{ itr|sum }}{{ itr|first }}{% for x in itr %}{{ x }}{{ loop.length }}{% endfor %}",
    "{{ gis|list }}{{ gis[0] }}{% for x in gis %}{{ x }}{% endfor %}{{ gis|reverse|list }}",
    # a namespace built from a dict that belongs to the caller / the globals
    "{% set nsd = namespace(d) %}{% set nsd.k = 'changed' %}{{ nsd.k }}{{ nsd.a }}", "{% set nsg = namespace(gl) %}{% set nsg.a = 'x' %}{{ nsg.a }}",
    "{% set nst = namespace(tg, extra=1) %}{% set nst.k = 'y' %}{{ nst.k }}{{ nst.extra }}",
    # a module imported without context whose macro reads a template-level global of the importer
    "{% import 'lib2.html' as L2 %}{{ L2.show() }}{{ L2.tv }}", "{% from 'lib2.html' import show %}{{ show() }}",
    # macros of a cached module with {% autoescape %} blocks; one of them fails (zero = 0)
    "{% import 'lib3.html' as M %}{{ M.h(text) }}{{ M.ft(2) }}{{ M.ff(2) }}", "{% import 'lib3.html' as M %}{{ M.ft(zero) }}",
    "{% import 'lib3.html' as M %}{{ M.ff(zero) }}", "{% import 'lib3.html' as M %}{{ M.h(words) }}",
    # an imported macro whose mutable default is changed in its body: a default is built per call
    "{% import 'mdef.html' as D %}{{ D.acc(1) }}{{ D.acc(2) }}{{ D.reg('k') }}", "{% from 'mdef.html' import acc %}{{ acc(5) }}",
    "{% macro lacc(x, st=[]) %}{% set _ = st.append(x) %}{{ st|length }}{% endmacro %}{{ lacc(1) }}{{ lacc(2) }}",
    # values that pass through auto_await in async mode: a plain generator and a generator-based coroutine (same type)
    "{% for x in plaingen() %}{{ x }}{% endfor %}", "{{ legacy(2) }}{{ legacy(nums[0]) + 1 }}", "{{ legacy(1) }}{% for x in plaingen() %}{{ x }}{% endfor %}",
    # a cached module with module-level state (recorded finding C29-F3)
    "{% import 'cnt.html' as C %}{{ C.nxt() }}", "{% import 'cyc.html' as Y %}{{ Y.nx() }}",
    # a cached module holding a lazy filter result / an iterator (recorded finding C29-F4)
    "{% from 'lazy.html' import evens %}{{ evens|list }}", "{% import 'lazy.html' as Z %}{{ Z.rows|list }}{{ Z.fixed }}",
]
AUX = {
    "lib.html": "{% macro m(xs) %}[{{ xs|join(',') }}{{ gl.a }}]{% endmacro %}{% set v = gl.its|length %}",
    "inc.html": "<{{ nums|sum }}{{ words|first }}{{ tg.k }}>",
    "lib2.html": "{% macro show() %}[{{ tgv }}]{% endmacro %}{% set tv = tgv %}",
    "lib3.html": "{% macro ft(x) %}{% autoescape true %}{{ 4 // x }}{{ '<t>' }}{% endautoescape %}{% endmacro %}"
                 "{% macro ff(x) %}{% autoescape false %}{{ 4 // x }}{{ '<f>' }}{% endautoescape %}{% endmacro %}"
                 "{% macro h(x) %}{{ [x, '<i>'|safe]|join }}{% endmacro %}",
    "lazy.html": "{% set evens = range(6)|select('even') %}{% set rows = [1, 2]|map('string') %}{% set fixed = range(3)|list %}",
    "mdef.html": "{% macro acc(x, store=[]) %}{% set _ = store.append(x) %}{{ store|length }}{% endmacro %}"
                 "{% macro reg(k, d={}) %}{% set _ = d.update({k: 1}) %}{{ d|length }}{% endmacro %}",
    "cyc.html": "{% set c = cycler('a', 'b', 'c') %}{% macro nx() %}{{ c.next() }}{% endmacro %}",
    "cnt.html": "{% set ns = namespace(n=0) %}{% macro nxt() %}{% set ns.n = ns.n + 1 %}{{ ns.n }}{% endmacro %}",
}

ASYNC_DATA = [False]      # c29 sets it while it renders in async mode: legacy() is then a generator-based coroutine
SIG_MODULE_STATE = "cached module top-level namespace mutated by its macro"
SIG_MODULE_LAZY = "cached module top-level lazy filter result consumed by its first importer"
SIG_MODULE_EVALCTX = "cached-module macro autoescape block (shared module eval context)"


def special_signature(src):
    """templates that exercise a recorded finding get that finding's signature"""
    if "cnt.html" in src or "cyc.html" in src:
        return SIG_MODULE_STATE
    if "lazy.html" in src:
        return SIG_MODULE_LAZY
    return None


class CMap(collections.abc.Mapping):
    """a Mapping that is not a dict"""

    def __init__(self, d):
        self._d = dict(d)

    def __getitem__(self, k):
        return self._d[k]

    def __iter__(self):
        return iter(self._d)

    def __len__(self):
        return len(self._d)

    def __repr__(self):
        return "CMap(%r)" % (self._d,)


class StrSub(str):
    """a str subclass with its own __str__ / __eq__ / __hash__"""

    def __str__(self):
        return "S:" + str.__str__(self)

    def __eq__(self, other):
        return str.__eq__(self, other)

    def __hash__(self):
        return str.__hash__(self)


class IterOnly:
    def __init__(self, items):
        self.items = list(items)

    def __iter__(self):
        return iter(self.items)

    def __repr__(self):
        return "IterOnly(%r)" % (self.items,)


class GetItemOnly:
    def __init__(self, items):
        self.items = list(items)

    def __getitem__(self, i):
        return self.items[i]

    def __repr__(self):
        return "GetItemOnly(%r)" % (self.items,)


def make_inputs():
    data = {
        "nums": [3, 1, 2], "words": ["b", "a", "c", "a"], "lists": [[1], [2, 3]], "acc": [7], "base": 10,
        "nested": [["p", "q"], ["r"]], "recs": [{"n": 1, "a": "x"}, {"n": 2, "a": "y"}, {"n": 1, "a": "z"}],
        "d": {"k": "v", "a": 1}, "lines": "l1\nl2", "text": "some text http://x.y <b>bold</b>",
    }
    from markupsafe import Markup
    data.update(tup=(3, 1, 2), mku=Markup("<b>m</b>"), cmap=CMap({"k": "v", "n": 2}), od=collections.OrderedDict(b=1, a=2),
                fs=frozenset([2]), flt=1.5, tru=True, sub=StrSub("sub"), itr=IterOnly([4, 5]), gis=GetItemOnly([6, 7]))
    env_globals = {"gl": {"a": "ga", "its": ["g1", "g2"]}}
    tpl_globals = {"tg": {"k": "tk", "lst": [1, 2]}, "tgv": "T0"}
    data["zero"] = 0
    import types

    def plaingen():
        return (x for x in (1, 2))

    if ASYNC_DATA[0]:
        @types.coroutine
        def legacy(x):
            yield from asyncio.sleep(0).__await__()
            return x * 3
    else:
        def legacy(x):
            return x * 3
    data.update(plaingen=plaingen, legacy=legacy)
    return data, env_globals, tpl_globals


def snapshot(obj):
    """deep, order-preserving, identity-free picture of a value"""
    return copy.deepcopy(obj), repr(obj)


def diff_path(a, b, path="data"):
    if type(a) is not type(b):
        return path
    if isinstance(a, dict):
        if list(a.keys()) != list(b.keys()):
            return path
        for k in a:
            d = diff_path(a[k], b[k], f"{path}.{k}")
            if d:
                return d
        return None
    if isinstance(a, (list, tuple)):
        if len(a) != len(b):
            return path
        for i, (x, y) in enumerate(zip(a, b)):
            d = diff_path(x, y, path)       # element index is not part of the signature
            if d:
                return d
        return None
    return None if a == b else path


def gen_state_template(rng):
    parts = [rng.choice(STATE_SNIPS) for _ in range(rng.randint(2, 5))]
    return "|".join(parts)


def tgen_set(rng):
    g = TGen(rng, depth=3)
    ts, main = g.template_set()
    return ts, g.data()
