"""C12 — whitespace control follows the documented trimming rules.

proof : Properties/C12.v (trim_refines: data(tokeniter(unparse sk)) = spec_trim sk for EVERY well-formed
        skeleton, all four settings, default delimiters; trim_refines_cfg / _families: the same for every
        configuration satisfying the bundle skel_cfg, proved for <% %> <%= %> <%# #%> and $% %$ ${ } $# #$;
        rules_commute; only_whitespace_removed for every source; trim_refines_left / _right for every text;
        the small-scope enumeration kept as a regression instance)
tie   : K-lex extracted tokeniter == real Lexer.tokeniter on unparsed skeletons; extracted model
        render_data == extracted spec_trim (the whole-template refinement, beyond the Coq enumeration)
oracle: Template.render of every skeleton instantiation ({% set x = 1 %}, {# c #}, {{ 'V' }},
        {% raw %}..{% endraw %}) == spec_trim (Spec/LexTrimSpec.v, extracted), all four
        trim_blocks / lstrip_blocks settings, every '-' / '+' / none combination.
"""
import itertools

from . import lib
from . import lex_common as L

RULE = ("every third case also through Template(src, **options); one-tag skeletons also under line_statement_prefix / "
        "line_comment_prefix configurations; line breaks in all three forms (CR, CRLF, LF) in texts and raw bodies, judged against spec_trim of the skeleton "
        "with unified breaks; skeletons = alternating texts and tags; texts from {'', ' ', LF, ' LF ', TAB, 'a', 'a LF', ' a'}; tags = block / "
        "comment (3x3 modifiers), variable (3x2), raw blocks (modifiers on both tags, body from the texts). Exhaustive: all "
        "one-tag skeletons x 4 trim/lstrip settings; two-tag skeletons subsampled (8 000 quick / 120 000 thorough of ~380 000 over the first 6 "
        "texts); random 3-6 tag skeletons; default delimiters plus <% %>/<%= %>/<!-- --> and $-prefixed sets. "
        "distinct = (setting, skeleton); non-trivial = some text contains whitespace next to a tag.")

TEXTS = ["", " ", "\n", " \n ", "\t", "a", "a\n", " a"]
# Python's full whitespace set (str.isspace / re \s): NBSP, EM SPACE, IDEOGRAPHIC SPACE, LS, PS, NEL, FS..US, OGHAM, ...
UWS = ["\xa0", "\u2003", "\u3000", "\u2028", "\u2029", "\x85", "\x1c", "\x1d", "\x1e", "\x1f", "\u1680", "\u2000", "\u200a",
       "\u202f", "\u205f", "\x0b", "\x0c"]
CR_TEXTS = ["\r", "\r\n", " \r ", "\r  ", "a\r", "\r\r", " \r\n ", "", "a"]


def unify_breaks(s):
    return s.replace("\r\n", "\n").replace("\r", "\n")
MODS = "nmp"


def all_tags(texts, raw_full):
    tags = []
    for l in MODS:
        for r in MODS:
            tags.append("b:" + l + r)
            tags.append("c:" + l + r)
        for r in "nm":
            tags.append("v:" + l + r)
    for l1 in (MODS if raw_full else "n"):
        for r1 in "nm":
            for l2 in MODS:
                for r2 in (MODS if raw_full else "n"):
                    for b in texts:
                        tags.append("r:" + l1 + r1 + l2 + r2 + ":" + L.enc_str(b))
    return tags


def skel(parts):
    """parts: alternating text / tag-encoding"""
    out = []
    for i, p in enumerate(parts):
        out.append("t:" + L.enc_str(p) if i % 2 == 0 else p)
    return "/".join(out)


def with_sentinel(k):
    """the skeleton with a sentinel letter appended to its final text: spec_trim removes a FINAL line break of the
    template; the output under keep_trailing_newline is spec_trim of the sentinel skeleton minus the sentinel"""
    segs = k.split("/")
    f = segs[-1].split(":")
    if f[0] == "t":
        f[1] = "90" if f[1] == "e" else f[1] + ".90"
        segs[-1] = ":".join(f)
    else:
        segs.append("t:90")
    return "/".join(segs)


def finish_spec(c, spec):
    """keep_trailing_newline (sentinel removed) and newline_sequence applied to an extracted spec_trim output"""
    if c.keep:
        assert spec.endswith("Z"), spec
        spec = spec[:-1]
    return spec.replace("\n", c.nl)


def norm_skel(k):
    """the skeleton with the line breaks of its texts / raw bodies unified to LF"""
    out = []
    for seg in k.split("/"):
        f = seg.split(":")
        if f[0] == "t":
            f[1] = L.enc_str(unify_breaks(L.dec_str(f[1])))
        elif f[0] == "r":
            f[2] = L.enc_str(unify_breaks(L.dec_str(f[2])))
        out.append(":".join(f))
    return "/".join(out)


def real_render(jinja2, cfg, src):
    try:
        return "D " + L.env_for(jinja2, cfg).from_string(src).render()
    except jinja2.TemplateSyntaxError as e:
        return "ERR " + str(e)
    except Exception as e:
        return "X:" + type(e).__name__


def template_render(jinja2, cfg, src):
    """the options given to the Template constructor directly (spontaneous environment)"""
    try:
        return "D " + jinja2.Template(src, **cfg.kwargs()).render()
    except jinja2.TemplateSyntaxError as e:
        return "ERR " + str(e)
    except Exception as e:
        return "X:" + type(e).__name__


PAIRS = [(" if true ", " endif "), (" for i in [1] ", " endfor "), (" with y = 2 ", " endwith "), (" block b%d ", " endblock "),
         (" if 1 < 2 ", " endif "), (" for k, v in {'a': 1}|dictsort ", " endfor "), (" filter string ", " endfilter ")]


def pair_blocks(src, rng):
    """the same template with its block tags instantiated pairwise by other statements that render their body
    exactly once (if / for over one item / with / block / filter string) instead of `set`; the documented
    output is unchanged"""
    body = " set x = 1 "
    n = src.count(body)
    if n < 2:
        return None
    out, i, pos, cnt = [], 0, 0, 0
    chosen = None
    while True:
        j = src.find(body, pos)
        if j < 0:
            break
        out.append(src[pos:j])
        if i % 2 == 0 and i + 1 < n:
            chosen = rng.choice(PAIRS)
            cnt += 1
            out.append(chosen[0] % cnt if "%d" in chosen[0] else chosen[0])
        elif i % 2 == 1:
            out.append(chosen[1])
        else:
            out.append(body)
        pos = j + len(body)
        i += 1
    out.append(src[pos:])
    return "".join(out)


def judge(jinja2, cfg, src, spec_v, with_template=True):
    got = real_render(jinja2, cfg, src)
    if got != "D " + spec_v:
        return "render %r, documented rules give %r" % (got, spec_v)
    if with_template:
        got = template_render(jinja2, cfg, src)
        if got != "D " + spec_v:
            return "Template(src, **options) renders %r, documented rules give %r" % (got, spec_v)
    return None


def run(ctx):
    jinja2 = lib.use_repo_jinja()
    ctx.extra["rule"] = RULE
    ctx.assumptions += [
        "end strings do not start with '+' or '-' (hypothesis head_not_sign of C12_trim_refines_right; true of every tested configuration)",
        "rendering outputs the data tokens in order, a variable tag prints its value, {% set %} and comments print nothing",
        "whole-template refinement (spec_trim on skeletons of arbitrary length) is compared by the extracted run and Coq-checked only on the one-tag enumeration",
    ]
    ctx.proof("C12")
    bad = L.probe_whitespace_table()
    ctx.case(sample={"probe": "whitespace table of the model / spec vs re \\s, str.isspace, str.rstrip over all code points", "disagreements": len(bad)}, key="ws-table")
    if bad:
        ctx.model_mismatch("is_space table vs running interpreter", {"code_points": bad[:20]}, "table", "interpreter", None)
    else:
        ctx.validated()
    # the options reach the lexer in Environment.__init__'s order also through Template(...): regenerated facts
    try:
        from . import c13
        tr = c13.load_translator()
        ok, _ = ctx.coq_obligation("LexEnvFacts", tr.coq_text(tr.facts(lib.REPO)), n_obligations=4)
        if ok:
            ctx.case(sample={"T1": "spontaneous_env_args, lexer_cache_transparent, lexer_reads_are_model_fields, overlay_copies"}, key="T1")
            ctx.validated()
    except Exception as e:
        ctx.obligations += 4
        ctx.broken.append("T1 translator gen/lex_envfacts.py: %s: %s" % (type(e).__name__, e))

    settings = [(t, l) for t in (False, True) for l in (False, True)]
    # hypothesis probes (skel_wf excludes them): '+' where the syntax has no automatic trimming to disable.
    # "{% raw +%}" and "{{ x +}}" must be rejected with TemplateSyntaxError (pinned by
    # tests/test_lexnparse.py::test_raw_no_trim_lstrip), never accepted with some other trimming.
    for t_, l_ in settings:
        c = L.Cfg("default", t_, l_)
        for src in ("a\n {% raw +%}\n b {% endraw %}\nc", "a {{ 'V' +}} b", "{% raw +%}{% endraw +%}"):
            got = real_render(jinja2, c, src)
            ctx.case(sample={"probe": src, "result": got[:40]}, key=("probe", c.key(), src))
            ctx.count("hypothesis_probe")
            if not got.startswith("ERR "):
                ctx.reject({"cfg": c.describe(), "skeleton": "probe", "src": src},
                           "'+' on the right of a raw-begin / variable tag accepted: %r" % got, "C12:probe:%r:%s" % (src, c.key()))
            else:
                ctx.validated()
    for kw2 in (dict(trim_blocks=True), dict(lstrip_blocks=True), dict(trim_blocks=True, lstrip_blocks=True)):
        src = "a\n  {% set x = 1 %}\n  b{# c #}\nd"
        got, want = L.probe_shared_bytecode_cache(jinja2, {}, kw2, src)
        case = {"cfg": kw2, "skeleton": "probe-bcc", "src": src}
        ctx.case(sample=case, key=("bcc", str(kw2)))
        ctx.count("shared_bytecode_cache_probe")
        if got != want:
            ctx.reject(case, "second environment on the shared bytecode cache renders %r, without the cache %r" % (got, want),
                       "C12:shared-bytecode-cache-ignores-trim-lstrip")
        else:
            ctx.validated()
    tags1 = all_tags(TEXTS[:6], raw_full=True)
    tags2 = all_tags(TEXTS[:3], raw_full=False)
    sks = []
    one_texts = TEXTS if ctx.tier == "thorough" else TEXTS[:5]      # quick: 5 x 5 texts (the 8 x 8 product is thorough)
    for a in one_texts:
        for g in tags1:
            for b in one_texts:
                sks.append(("default", skel([a, g, b])))
    # the same one-tag skeletons in environments WITH line_statement_prefix / line_comment_prefix configured
    # (the texts contain neither prefix): the sign / lstrip handling must not depend on the extra root rules
    one_tag = [s for s in sks]
    for name in ("line", "linepct"):
        for _, k in ctx.rng.sample(one_tag, ctx.size(1500, 12000)):
            sks.append((name, k))
    two = [(a, g1, b, g2, c) for a in TEXTS[:6] for g1 in tags2 for b in TEXTS[:6] for g2 in tags2 for c in TEXTS[:6]]
    two = ctx.rng.sample(two, ctx.size(4000, 120000))      # of ~380 k; the full product takes > 15 min
    for p in two:
        sks.append(("default", skel(list(p))))
    for _ in range(ctx.size(3000, 25000)):
        n = ctx.rng.randint(1, 6)
        parts = []
        for i in range(n):
            parts.append("".join(ctx.rng.choice([" ", " ", "\n", "\t", "a", "b\n", "\x0b", "\x0c", ctx.rng.choice(UWS)]) for _ in range(ctx.rng.randint(0, 4))))
            parts.append(ctx.rng.choice(tags1))
        parts.append("".join(ctx.rng.choice([" ", "\n", "\t", "a"]) for _ in range(ctx.rng.randint(0, 3))))
        sks.append((ctx.rng.choice(["default", "default", "angle", "dollar", "asp", "line", "linepct"]), skel(parts)))

    # indentation / adjacent whitespace made of every non-ASCII whitespace character (alone, mixed with blanks,
    # after a line break, around a letter), in front of and behind every block / comment / variable tag kind
    uws_tags = [g for g in tags1 if g[0] in "bcv"] + [g for g in tags1 if g.startswith("r:") and g.endswith(":e")][:6]
    for u in UWS:
        for shape in (u, " " + u, "\n" + u, "a\n" + u + " ", u + "a", "a" + u):
            for g in ctx.rng.sample(uws_tags, ctx.size(6, len(uws_tags))):
                other = ctx.rng.choice(["", "\n", u, "b"])
                parts = [shape, g, other] if ctx.rng.random() < 0.7 else [other, g, shape]
                sks.append((ctx.rng.choice(["default", "default", "asp", "line"]), skel(parts)))
    cases = []
    for name, k in sks:
        sts = settings if name == "default" and k.count("/") <= 2 else [ctx.rng.choice(settings), (True, True)]
        for t, l in sts:
            cases.append((L.Cfg(name, t, l), k, k))
    # OPTION PAIRS: keep_trailing_newline and newline_sequence together with trim_blocks / lstrip_blocks; tags followed
    # by blank lines, by nothing (tag ends the template) and by a single final line break
    afters = ["", "\n", "\n\n", "\n \n", " \n", "\nb", "\n\nb\n", "b\n"]
    befores = ["", "a\n", "  ", "a\n  "]
    pair_tags = [g for g in tags1 if g[0] in "bc"] + [g for g in tags1 if g.startswith("r:") and g.endswith(":e")][:12] + ["v:nn", "v:nm"]
    pair_sks = [skel([b_, g, a_]) for b_ in befores for g in pair_tags for a_ in afters]
    for k in ctx.rng.sample(pair_sks, min(len(pair_sks), ctx.size(1500, len(pair_sks)))):
        for _ in range(2):
            t_, l_ = ctx.rng.choice(settings)
            cases.append((L.Cfg("default", t_, l_, nl=ctx.rng.choice(["\n", "\r\n", "\r"]), keep=ctx.rng.random() < 0.7), k, k))
            ctx.count("option_pairs")
    # line breaks in all three forms: the template is written with CR / CRLF / LF runs, the documented
    # rules are applied to the skeleton with its line breaks unified (each text normalised on its own:
    # a CR ending one text and a LF starting the next are separated by a tag and stay two breaks)
    cr_tags = [g for g in tags1 if g[0] in "bcv"] + [g for g in tags1 if g.startswith("r:") and g.endswith((":e", ":10", ":32.10.32"))]
    cr_sks = []
    for a in CR_TEXTS:
        for g in [g for g in cr_tags if g[0] in "bc"]:
            for b in CR_TEXTS:
                cr_sks.append([a, g, b])
    for _ in range(ctx.size(3000, 25000)):
        parts = []
        for i in range(ctx.rng.randint(1, 5)):
            parts.append("".join(ctx.rng.choice([" ", "\r", "\r\n", "\n", "\t", "a", "b\r", " \r "]) for _ in range(ctx.rng.randint(0, 4))))
            g = ctx.rng.choice(cr_tags)
            if g.startswith("r:"):
                head, body = g.rsplit(":", 1)
                g = (head, ctx.rng.choice(CR_TEXTS))      # raw body with CR forms
            parts.append(g)
        parts.append("".join(ctx.rng.choice([" ", "\r", "\r\n", "\n", "a"]) for _ in range(ctx.rng.randint(0, 3))))
        cr_sks.append(parts)
    for parts in cr_sks:
        raw_parts, norm_parts = [], []
        for i, p_ in enumerate(parts):
            if i % 2 == 0:
                raw_parts.append(p_)
                norm_parts.append(unify_breaks(p_))
            elif isinstance(p_, tuple):
                raw_parts.append(p_[0] + ":" + L.enc_str(p_[1]))
                norm_parts.append(p_[0] + ":" + L.enc_str(unify_breaks(p_[1])))
            else:
                raw_parts.append(p_)
                norm_parts.append(p_)
        k_raw, k_norm = skel(raw_parts), skel(norm_parts)
        sts = (settings if ctx.tier == "thorough" else ctx.rng.sample(settings, 2)) if len(parts) <= 3 else [ctx.rng.choice(settings), (True, True)]
        for t, l in sts:
            cases.append((L.Cfg(ctx.rng.choice(["default", "default", "asp"]) if len(parts) > 3 else "default", t, l), k_raw, k_norm))
            ctx.count("cr_forms")
    cases = [(c, k, with_sentinel(kn) if c.keep else kn) for c, k, kn in cases]
    klines = ctx.driver("lex", ["K %s %s" % (c.enc(), k) for c, k, _ in cases])
    need = [i for i, (c, k, kn) in enumerate(cases) if kn != k]
    nl_out = ctx.driver("lex", ["K %s %s" % (cases[i][0].enc(), cases[i][2]) for i in need]) if need else []
    nlines = list(klines)
    for i, o in zip(need, nl_out):
        nlines[i] = o
    srcs = []
    for (c, k, kn), kl, nl_ in zip(cases, klines, nlines):
        src = L.dec_str(kl.split(" ")[0])
        _, spec_v, spec_0 = (finish_spec(c, L.dec_str(x)) for x in nl_.split(" "))
        srcs.append((src, spec_v, spec_0))
    cases = [(c, k) for c, k, _ in cases]
    rlines = ctx.driver("lex", ["R %s %s" % (c.enc(), L.enc_str(s[0])) for (c, k), s in zip(cases, srcs)])
    mruns = L.model_runs(ctx, [(c, s[0]) for (c, k), s in zip(cases, srcs)])
    idx = 0
    for (c, k), (src, spec_v, spec_0), rl, m in zip(cases, srcs, rlines, mruns):
        case = {"cfg": c.describe(), "skeleton": k, "src": src}
        nontriv = any(ch in src for ch in " \n\t")
        ctx.case(sample=dict(case, spec=spec_v) if len(src) > 30 else None, key=(c.key(), k) if nontriv else None)
        ctx.count("tags_%d" % min(k.count("/") // 2 + (0 if k.count("/") % 2 == 0 else 1), 6))
        idx += 1
        # the Template(...) route for every third case and for every one-tag case with trim_blocks != lstrip_blocks
        w = judge(jinja2, c, src, spec_v, with_template=(idx % 3 == 0 or (c.trim != c.lstrip and k.count("/") <= 2 and idx % 2 == 0)))
        if w:
            ctx.reject(case, w, "C12:%s:%s" % (k, c.key()))
            continue
        if idx % 8 == 1:
            # another entry point / environment class
            route = ctx.rng.choice(L.ROUTES)
            got = L.safe_route(jinja2, route, c, src)
            ctx.count("route_" + route)
            if got != "D " + spec_v:
                ctx.reject(dict(case, route=route), "%s renders %r, documented rules give %r" % (route, got, spec_v),
                           "C12:route:%s:%s:%s" % (route, k, c.key()))
                continue
        if idx % 8 == 5:
            src2 = pair_blocks(src, ctx.rng)
            if src2 is not None:
                got = real_render(jinja2, c, src2)
                ctx.count("paired_block_statements")
                if got != "D " + spec_v:
                    ctx.reject(dict(case, src=src2), "with if/for/with/block/filter tags: render %r, documented rules give %r" % (got, spec_v),
                               "C12:paired:%r:%s" % (src2, c.key()))
                    continue
        r = L.real_run(jinja2, L.env_for(jinja2, c), src)
        if m.canon() != r:
            ctx.model_mismatch("K-lex tokeniter", case, repr(m.canon())[:400], repr(r)[:400], None)
            continue
        if rl != "D " + L.enc_str(spec_0):
            ctx.model_mismatch("trim_refines: model render_data vs spec_trim", case, rl, L.enc_str(spec_0), None)
            continue
        ctx.validated()


def replay(ctx, data):
    jinja2 = lib.use_repo_jinja()
    case = data.get("case")
    if data.get("kind") != "failing-input" or case is None:
        print("replay: this file names a broken theorem/correspondence, not an input:", data.get("broken"))
        return run(ctx)
    c = L.Cfg.from_desc(case["cfg"])
    if case["skeleton"] == "probe-bcc":
        got, want = L.probe_shared_bytecode_cache(jinja2, {}, case["cfg"], case["src"])
        print("shared bytecode cache:", got, "without:", want)
        if got != want:
            ctx.reject(case, "shared bytecode cache: %r vs %r" % (got, want), data.get("signature"))
        return
    if case["skeleton"] == "probe":
        got = real_render(jinja2, c, case["src"])
        print("probe:", repr(case["src"]), "->", got)
        if not got.startswith("ERR "):
            ctx.reject(case, "'+' accepted: %r" % got, data.get("signature"))
        return
    src = L.dec_str(ctx.driver("lex", ["K %s %s" % (c.enc(), case["skeleton"])])[0].split(" ")[0])
    ks = norm_skel(case["skeleton"])
    kl = ctx.driver("lex", ["K %s %s" % (c.enc(), with_sentinel(ks) if c.keep else ks)])[0]
    _, spec_v, spec_0 = (finish_spec(c, L.dec_str(x)) for x in kl.split(" "))
    print("skeleton :", case["skeleton"], case["cfg"])
    print("template :", repr(src))
    print("spec_trim:", repr(spec_v))
    print("render   :", real_render(jinja2, c, src))
    w = judge(jinja2, c, src, spec_v)
    if w:
        ctx.reject(case, w, data.get("signature"))
        return
    if case.get("route"):
        got = L.safe_route(jinja2, case["route"], c, src)
        print("route", case["route"], "->", got)
        if got != "D " + spec_v:
            ctx.reject(case, "%s renders %r, documented rules give %r" % (case["route"], got, spec_v), data.get("signature"))
    elif case.get("src") and case["src"] != src:
        got = real_render(jinja2, c, case["src"])
        print("recorded template:", repr(case["src"]), "->", got)
        if got != "D " + spec_v:
            ctx.reject(case, "render %r, documented rules give %r" % (got, spec_v), data.get("signature"))
