"""C02, builtin filters with OPTIONAL arguments (oracle only, outside the Coq model).

Independent Python statements of the documented behaviour of the builtin filters that take optional arguments, run
against the real engine with EVERY optional argument absent / None / every falsy-but-not-None value of a sensible type
(0, 0.0, "", False, [], (), {}) / truthy values, spelled as keyword and (where it is the next positional) positionally,
written as a literal (so the optimizer may evaluate the filter at compile time) and passed in a variable, in plain /
async / sandboxed / optimized=False / async sandboxed environments.  The attribute family (map, groupby, sort, unique,
min, max, sum, join, selectattr, rejectattr) shares one lookup rule (`attr_of`): integer and dotted attributes, items
that lack the attribute, `default=` used when it is not None.
"""
import itertools
import json
import textwrap

from . import expr_common as X
from . import expr_ref as XR

ABSENT = object()


class Rec:
    """attribute-only record"""

    def __init__(self, **kw):
        self.__dict__.update(kw)

    def __repr__(self):
        return "Rec(%s)" % ", ".join("%s=%r" % kv for kv in sorted(self.__dict__.items()))


def data():
    return {
        "rows": [{"a": 3, "b": "x", "n": "Bob", "s": {"t": 1}}, {"b": "Y", "n": "al", "s": {}}, {"a": 0, "b": "y", "n": "bob"}],
        "recs": [Rec(a=2, b="q"), Rec(b="Q"), Rec(a=1, b="p")],
        "lol": [[0, 5, "b"], [1, 4, "A"], [0, 3, "a"]],
        "words": ["b", "a", "B", "a"], "nums": [3, 1, 2], "empty": [], "d": {"b": 1, "A": 2, "a": 0},
        "text": "  hello big world  ", "csv": "a,b,a", "para": "one two\nthree  four five\n\nsix", "obj": {"k": [1, "<"], "j": None},
        "u": 7.5, "ns": "12", "bad": "x1", "t19": "abcd efgh ijkl mnop", "z0": 0, "z1": 1, "z999": 999, "z1000": 1000, "z1024": 1024, "zbig": 1500000000,
        "xa": {"class": "a<b", "id": None, "n": 0, "e": ""}, "xe": {}, "link": "go http://example.com/abcdefghij now",
    }


# ---------------------------------------------------------------- the shared attribute rule
def attr_of(ref, item, attribute, default=None):
    if isinstance(attribute, str):
        parts = [int(p) if p.isdigit() else p for p in attribute.split(".")]
    else:
        parts = [attribute]
    import jinja2
    for part in parts:
        item = ref.getitem(item, part)
        if default is not None and isinstance(item, jinja2.Undefined):
            item = default
    return item


def lowered(v):
    return v.lower() if isinstance(v, str) else v


def key_fn(ref, attribute, case_sensitive, default=None):
    def key(x):
        v = x if attribute is None else attr_of(ref, x, attribute, default)
        return v if case_sensitive else lowered(v)
    return key


# ---------------------------------------------------------------- reference implementations (documented behaviour)
def r_map(ref, value, attribute=ABSENT, default=None):
    return [attr_of(ref, x, attribute, default) for x in value]


def r_groupby(ref, value, attribute, default=None, case_sensitive=False):
    key = key_fn(ref, attribute, case_sensitive, default)
    out = []
    for k, grp in itertools.groupby(sorted(value, key=key), key):
        grp = list(grp)
        out.append((k if case_sensitive else attr_of(ref, grp[0], attribute, default), grp))
    return out


def r_sum(ref, value, attribute=None, start=0):
    return sum((x if attribute is None else attr_of(ref, x, attribute) for x in value), start)


def r_sort(ref, value, reverse=False, case_sensitive=False, attribute=None):
    key = key_fn(ref, attribute, case_sensitive)
    if attribute is not None:            # "attribute" may name several attributes: the sort key is the LIST of their values
        return sorted(value, key=lambda x: [key(x)], reverse=reverse)
    return sorted(value, key=key, reverse=reverse)


def r_unique(ref, value, case_sensitive=False, attribute=None):
    key = key_fn(ref, attribute, case_sensitive)
    seen, out = set(), []
    for x in value:
        k = key(x)
        if k not in seen:                # keys are hashed
            seen.add(k)
            out.append(x)
    return out


def r_minmax(fn):
    def r(ref, value, case_sensitive=False, attribute=None):
        items = list(value)
        if not items:
            return ref.U("No aggregated item, sequence was empty.")
        return fn(items, key=key_fn(ref, attribute, case_sensitive))
    return r


def r_join(ref, value, d="", attribute=None):
    items = [x if attribute is None else attr_of(ref, x, attribute) for x in value]
    return str(d).join(str(x) for x in items)


def r_selectattr(keep):
    def r(ref, value, attribute, test=ABSENT, *args):
        out = []
        for x in value:
            v = attr_of(ref, x, attribute)
            ok = bool(v) if test is ABSENT else ref.test(test, v, list(args))
            if ok == keep:
                out.append(x)
        return out
    return r


def r_batch(ref, value, linecount, fill_with=None):
    out, tmp = [], []
    for x in value:
        if len(tmp) == linecount:
            out.append(tmp)
            tmp = []
        tmp.append(x)
    if tmp:
        if fill_with is not None and len(tmp) < linecount:
            tmp += [fill_with] * (linecount - len(tmp))
        out.append(tmp)
    return out


def r_slice(ref, value, slices, fill_with=None):
    seq = list(value)
    per, extra = divmod(len(seq), slices)
    out, pos = [], 0
    for n in range(slices):
        size = per + (1 if n < extra else 0)
        tmp = seq[pos:pos + size]
        pos += size
        if fill_with is not None and extra and n >= extra:      # only the short columns of an uneven split are filled
            tmp.append(fill_with)
        out.append(tmp)
    return out


def r_default(ref, value, default_value="", boolean=False):
    import jinja2
    return default_value if isinstance(value, jinja2.Undefined) or (boolean and not value) else value


def r_replace(ref, s, old, new, count=None):
    return str(s).replace(str(old), str(new)) if count is None else str(s).replace(str(old), str(new), count)


def r_tojson(ref, value, indent=None):
    Markup = X._markup()
    kw = {"sort_keys": True}
    if indent is not None:
        kw["indent"] = indent
    return Markup(json.dumps(value, **kw).replace("<", "\\u003c").replace(">", "\\u003e").replace("&", "\\u0026").replace("'", "\\u0027"))


def r_trim(ref, s, chars=None):
    return str(s).strip(chars)


def r_truncate(ref, s, length=255, killwords=False, end="...", leeway=None):
    if leeway is None:
        leeway = 5
    if len(s) <= length + leeway:
        return s
    if killwords:
        return s[:length - len(end)] + end
    return s[:length - len(end)].rsplit(" ", 1)[0] + end


def r_wordwrap(ref, s, width=79, break_long_words=True, wrapstring=None, break_on_hyphens=True):
    if wrapstring is None:
        wrapstring = "\n"
    return wrapstring.join(wrapstring.join(textwrap.wrap(line, width=width, expand_tabs=False, replace_whitespace=False,
                                                        break_long_words=break_long_words, break_on_hyphens=break_on_hyphens))
                           for line in s.splitlines())


def r_int(ref, value, default=0, base=10):
    try:
        if isinstance(value, str):
            return int(value, base)
        return int(value)
    except (TypeError, ValueError):
        try:
            return int(float(value))
        except (TypeError, ValueError, OverflowError):
            return default


def r_float(ref, value, default=0.0):
    try:
        return float(value)
    except (TypeError, ValueError):
        return default


def r_round(ref, value, precision=0, method="common"):
    import math
    if method == "common":
        return float(round(value, precision))
    return float({"ceil": math.ceil, "floor": math.floor}[method](value * (10 ** precision)) / (10 ** precision))


def r_indent(ref, s, width=4, first=False, blank=False):
    ind = width if isinstance(width, str) else " " * width
    lines = s.splitlines()
    if blank:
        rv = ("\n" + ind).join(lines)
    else:
        rv = lines[0] if lines else ""
        if len(lines) > 1:
            rv += "\n" + "\n".join(ind + ln if ln else ln for ln in lines[1:])
    return ind + rv if first else rv


def r_center(ref, s, width=80):
    return str(s).center(width)


def r_dictsort(ref, value, case_sensitive=False, by="key", reverse=False):
    pos = {"key": 0, "value": 1}[by]
    return sorted(value.items(), key=lambda kv: kv[pos] if case_sensitive else lowered(kv[pos]), reverse=reverse)


def r_filesizeformat(ref, value, binary=False):
    n = float(value)
    base = 1024 if binary else 1000
    prefixes = ["KiB", "MiB", "GiB", "TiB", "PiB", "EiB", "ZiB", "YiB"] if binary else ["kB", "MB", "GB", "TB", "PB", "EB", "ZB", "YB"]
    if n == 1:
        return "1 Byte"
    if n < base:
        return "%d Bytes" % n
    for i, prefix in enumerate(prefixes):
        unit = base ** (i + 2)
        if n < unit:
            return "%.1f %s" % (base * n / unit, prefix)
    return "%.1f %s" % (base * n / unit, prefix)


def r_xmlattr(ref, d, autospace=True):
    import jinja2
    import markupsafe
    rv = " ".join('%s="%s"' % (markupsafe.escape(k), markupsafe.escape(v)) for k, v in d.items() if v is not None and not isinstance(v, jinja2.Undefined))
    if autospace and rv:
        rv = " " + rv
    return rv


def r_urlize(ref, value, trim_url_limit=None, nofollow=False, target=None, rel=None):
    """for the one-link input 'go http://example.com/abcdefghij now'"""
    rels = set((rel or "").split()) | {"noopener"}
    if nofollow:
        rels.add("nofollow")
    rel_attr = ' rel="%s"' % " ".join(sorted(rels))
    target_attr = ' target="%s"' % target if target else ""
    out = []
    for w in value.split(" "):
        if w.startswith("http://"):
            shown = w[:trim_url_limit] + "..." if trim_url_limit is not None and len(w) > trim_url_limit else w
            w = '<a href="%s"%s%s>%s</a>' % (w, rel_attr, target_attr, shown)
        out.append(w)
    return " ".join(out)


FALSY = [0, 0.0, "", False, [], (), {}]

# name -> (reference, inputs, required positional argument lists, [(optional name, values)] in positional order)
SPECS = {
    "map": (r_map, ["rows", "recs", "lol", "empty"], [[]], [("attribute", ["a", "b", 0, 2, "s.t", "zz"]), ("default", FALSY + [None, 9, "dflt", [0]])]),
    "groupby": (r_groupby, ["rows", "recs", "lol"], [["a"], ["b"], [0], [2], ["zz"], ["s.t"]], [("default", FALSY[:4] + [None, 9, "dflt"]), ("case_sensitive", [False, True, 0, 1, "", None])]),
    "sum": (r_sum, ["nums", "lol", "rows", "empty"], [[]], [("attribute", [None, 0, 1, "a", "zz"]), ("start", [0, 0.0, 10, False, [], (), None])]),
    "sort": (r_sort, ["words", "nums", "lol", "rows", "empty"], [[]], [("reverse", [False, True, 0, 1, "", None, []]), ("case_sensitive", [False, True, 0, 1, "", None]), ("attribute", [None, 0, 2, "b", "n"])]),
    "unique": (r_unique, ["words", "lol", "rows", "empty"], [[]], [("case_sensitive", [False, True, 0, 1, "", None]), ("attribute", [None, 0, 2, "b", "n"])]),
    "min": (r_minmax(min), ["words", "nums", "lol", "empty"], [[]], [("case_sensitive", [False, True, 0, 1, "", None]), ("attribute", [None, 0, 1, 2])]),
    "max": (r_minmax(max), ["words", "nums", "lol", "empty"], [[]], [("case_sensitive", [False, True, 0, 1, "", None]), ("attribute", [None, 0, 1, 2])]),
    "join": (r_join, ["words", "nums", "lol", "rows", "empty"], [[]], [("d", ["", ",", 0, False, None, "<"]), ("attribute", [None, 0, 2, "b", "zz"])]),
    "selectattr": (r_selectattr(True), ["rows", "recs", "lol"], [["a"], [0], ["b"], ["zz"], ["a", "eq", 0], ["a", "defined"], [0, "ge", 0], [2, "in", ""]], []),
    "rejectattr": (r_selectattr(False), ["rows", "recs", "lol"], [["a"], [0], ["b"], ["zz"], ["a", "eq", 0], ["a", "none"], [0, "lt", 1]], []),
    "batch": (r_batch, ["nums", "words", "empty", "csv"], [[2], [3], [5], [0], [1]], [("fill_with", FALSY + [None, 9, "x"])]),
    "slice": (r_slice, ["nums", "words", "empty", "csv"], [[2], [3], [5], [0], [1]], [("fill_with", FALSY + [None, 9, "x"])]),
    "default": (r_default, ["zzz", "empty", "nums", "u"], [[]], [("default_value", FALSY + [None, 9, "x"]), ("boolean", [False, True, 0, 1, "", None, []])]),
    "replace": (r_replace, ["csv", "text"], [["a", "X"], ["", "-"], ["l", ""]], [("count", [None, 0, 1, 2, False, True, 0.0, ""])]),
    "tojson": (r_tojson, ["obj", "nums", "d", "csv"], [[]], [("indent", [None, 0, 1, 2, False, True, "", "\t", 0.0])]),
    "trim": (r_trim, ["text", "csv"], [[]], [("chars", [None, "", " ", "a", " hd", "ab,"])]),
    # the length is given positionally so that every optional argument meets strings shorter than, within the leeway of, and longer than it
    "truncate": (r_truncate, ["text", "para", "csv", "t19"], [[255], [3], [8], [14], [16], [17], [19], [24]], [("killwords", [False, True, 0, 1, "", None]), ("end", ["...", "", "~", ".."]), ("leeway", [None, 0, 0.0, 1, 5, False, True, ""])]),
    "wordwrap": (r_wordwrap, ["para", "text"], [[]], [("width", [79, 5, 9, 1, 0, False, 0.0]), ("break_long_words", [True, False, 0, 1, "", None]), ("wrapstring", [None, "", "|", "<br>"]), ("break_on_hyphens", [True, False, 0, ""])]),
    "int": (r_int, ["ns", "bad", "u", "empty", "zzz"], [[]], [("default", [0, 0.0, "", False, None, 7, []]), ("base", [10, 8, 16, 2, 0, False, 0.0, ""])]),
    "float": (r_float, ["ns", "bad", "u", "empty", "zzz"], [[]], [("default", [0.0, 0, "", False, None, 7.5, []])]),
    "round": (r_round, ["u"], [[]], [("precision", [0, 1, 2, False, True, 0.0, ""]), ("method", ["common", "ceil", "floor"])]),
    "indent": (r_indent, ["para", "csv"], [[]], [("width", [4, 0, 2, "", ">>", False, 0.0]), ("first", [False, True, 0, 1, "", None]), ("blank", [False, True, 0, 1, "", None])]),
    "center": (r_center, ["csv"], [[]], [("width", [80, 0, 9, False, 0.0, ""])]),
    "filesizeformat": (r_filesizeformat, ["z0", "z1", "z999", "z1000", "z1024", "zbig", "u"], [[]], [("binary", [False, True, 0, 1, "", None, 0.0, []])]),
    "xmlattr": (r_xmlattr, ["xa", "d", "xe"], [[]], [("autospace", [True, False, 0, 1, "", None, 0.0, []])]),
    "urlize": (r_urlize, ["link"], [[]], [("trim_url_limit", [None, 0, 1, 10, 100, False]), ("nofollow", [False, True, 0, 1, "", None]), ("target", [None, "", "_blank", 0]), ("rel", [None, "", "me", "noopener x"])]),
    "dictsort": (r_dictsort, ["d"], [[]], [("case_sensitive", [False, True, 0, 1, "", None]), ("by", ["key", "value"]), ("reverse", [False, True, 0, 1, "", None, []])]),
}


def lit(v):
    if v is None:
        return "none"
    if v is True:
        return "true"
    if v is False:
        return "false"
    if isinstance(v, (int, float)):
        return repr(v)
    if isinstance(v, str):
        return '"' + v + '"'
    if isinstance(v, list):
        return "[" + ", ".join(lit(x) for x in v) + "]"
    if isinstance(v, tuple):
        return "(" + ", ".join(lit(x) for x in v) + ("," if len(v) == 1 else "") + ")"
    if isinstance(v, dict):
        return "{" + ", ".join(lit(k) + ": " + lit(x) for k, x in v.items()) + "}"
    raise ValueError(v)


def plain(v, d=0):
    """canonical form that forgets the _GroupTuple class"""
    if isinstance(v, tuple) and type(v) is not tuple and hasattr(v, "_fields"):
        v = tuple(v)
    if isinstance(v, (list, tuple)) and d < 6:
        return (type(v).__name__, [plain(x, d + 1) for x in v])
    if isinstance(v, dict) and d < 6:
        return ("dict", [(plain(k, d + 1), plain(x, d + 1)) for k, x in v.items()])
    return XR.canon(v)


def plans(ctx):
    """(filter, input, positional required, [(optname, value, spelled)]) -- every single optional argument with every value,
    keyword spelling, positional spelling when all earlier optionals are given, and random combinations"""
    rng = ctx.rng
    for name, (fn, inputs, reqs, opts) in SPECS.items():
        for inp in inputs:
            for req in reqs:
                yield name, inp, req, []
                for i, (on, vals) in enumerate(opts):
                    for v in vals:
                        yield name, inp, req, [(on, v, "kw")]
                        if name not in ("map", "selectattr", "rejectattr"):
                            # positional spelling: earlier optionals take their first listed (default) value
                            yield name, inp, req, [(o2, v2s[0], "pos") for o2, v2s in opts[:i]] + [(on, v, "pos")]
                for _ in range(ctx.size(2, 40)):
                    if len(opts) >= 2:
                        chosen = [(on, rng.choice(vals), "kw") for on, vals in opts if rng.random() < 0.6]
                        yield name, inp, req, chosen


ENVS = ["plain", "async", "sandbox", "noopt", "async-sandbox"]


def make_envs():
    import jinja2
    from jinja2.sandbox import SandboxedEnvironment
    return {"plain": jinja2.Environment(), "async": jinja2.Environment(enable_async=True), "sandbox": SandboxedEnvironment(),
            "noopt": jinja2.Environment(optimized=False), "async-sandbox": SandboxedEnvironment(enable_async=True)}


def run_filter_ref(ctx):
    import jinja2
    envs = make_envs()
    ref = XR.Ref(jinja2.Undefined)
    shown = {}
    for i, (name, inp, req, opts) in enumerate(plans(ctx)):
        if name == "map" and not any(o[0] == "attribute" for o in opts):
            continue
        as_var = i % 2 == 1
        vars_, parts = {}, []
        for j, v in enumerate(req):
            parts.append(lit(v))
        for j, (on, v, sp) in enumerate(opts):
            if as_var:
                vars_["v%d" % j] = v
                txt = "v%d" % j
            else:
                txt = lit(v)
            parts.append(txt if sp == "pos" else on + "=" + txt)
        src = inp + "|" + name + ("(" + ", ".join(parts) + ")" if parts else "")
        kind = ENVS[i % len(ENVS)]
        env = envs[kind]
        d = dict(data(), **vars_)
        try:
            t = env.from_string("{% set r = " + src + " %}")
            m = X.run_async(t.make_module_async(d)) if env.is_async else t.make_module(d)
            rv = m.r
            if isinstance(rv, jinja2.Undefined):
                pass
            elif hasattr(type(rv), "__aiter__"):
                async def collect(it=rv):
                    return [x async for x in it]
                rv = X.run_async(collect())
            elif not isinstance(rv, (str, dict, jinja2.Undefined)) and hasattr(type(rv), "__iter__"):
                rv = list(rv)
            real = ("ok", plain(rv))
        except Exception as ex:
            real = ("err", type(ex).__name__)
        d = data()
        fn = SPECS[name][0]
        try:
            value = d[inp] if inp in d else jinja2.Undefined(name=inp)
            kw = {on: v for on, v, _ in opts}
            rv = fn(ref, value, *req, **kw)
            if not isinstance(rv, (str, dict, jinja2.Undefined)) and hasattr(type(rv), "__iter__"):
                rv = list(rv)
            exp = ("ok", plain(rv))
        except Exception as ex:
            exp = ("err", type(ex).__name__)
        ok = real == exp or (real[0] == "err" and exp[0] == "err")
        if not ok:
            if shown.get(name, 0) < 2:
                shown[name] = shown.get(name, 0) + 1
                ctx.reject({"kind": "filter-ref", "expr": src, "vars": repr(vars_), "env": kind, "real": repr(real)[:400], "reference": repr(exp)[:400]},
                           f"{kind} environment: {src} with {vars_!r} gives {real!r:.300}; the documented behaviour is {exp!r:.300}", "C02:filter-ref:" + name + ":" + src)
        ctx.case(sample={"expr": src, "vars": repr(vars_), "env": kind, "value": repr(exp)[:100]} if i % 397 == 0 else None, key=("filter-ref", src, repr(vars_)) if exp[0] == "ok" else None)
        ctx.count("filter_ref_" + name)
        if ok:
            ctx.validated()
