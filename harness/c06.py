"""C06 — macro argument binding follows the documented macro calling rules.

proof:  Properties/C06.v (bind_refines: Macro.__call__ == documented binding relation for all
        signatures / calls with distinct names; binds functional + total; protocol_agrees between
        compiler.macro_body and runtime.Macro.__call__; no arity error; defaults at call time;
        module call == template call)
tie  :  T5 translator: gen/macro_translate.py turns the current source of Macro.__call__ into a term
        of Lib/PyMacro; the generated Gen_macro.v proves  interpreted source = macro_entry  for all
        signatures, argument tuples and keyword dicts (the for loop by induction over the names);
        gen/macrobody_translate.py does the same for the parameter-assembly part of compiler.macro_body
        against macro_body_sig (Lib/PyMacroBody, Gen_macrobody.v);
        K-rt on real Macro objects built by real compilation: the `arguments` list that
        Macro.__call__ hands to the generated function (captured by wrapping Macro._func), the
        TypeError kind, the Python parameter names of the generated function and the Macro
        attributes (K-gen for macro_body/macro_def), and what the macro body then sees (rendered
        through a canonicalising filter) == extracted macro_call / macro_body_sig / invoke.
        Calls from Python through Template.module.m(...) and from templates (plain, star-args,
        call blocks; sync and async).
oracle: extracted spec_bind (the binding rules) and final_value (the defaults rule) applied to
        the real engine's results.
"""
import asyncio
import itertools

from . import lib

RULE = ("signatures: 0..4 parameters (plain names, `caller` at every position, `kwargs`/`varargs`, Python keywords "
        "(`class`, `for`) and `self` as parameter names; `self` also as an unknown keyword) x 0..3 defaults (constant, None, reference to an earlier / later parameter, outer variable re-set "
        "after the definition, context variable, unknown name) x 2^3 uses of caller/kwargs/varargs in the body. "
        "calls: exhaustive for signatures up to N parameters: 0..P positionals x every ordered-by-name subset of up "
        "to K keywords from {parameter names, unknown name, caller} (caller value cycling over macro / None / int), "
        "through Template.module.m(...); random larger calls (<= 5 positionals, <= 4 keywords incl. two unknown names) "
        "for all signatures; template calls (plain, star-args, call block; sync and async) sampled per signature. "
        "distinct = (signature, call, path); non-trivial = at least one parameter not filled positionally and at "
        "least one keyword, surplus positional or special variable involved.")

NAMES = {0: "caller", 1: "kwargs", 2: "varargs", 3: "a", 4: "b", 5: "c", 6: "d", 7: "class", 8: "for", 9: "self",
         10: "o1", 11: "o2", 12: "o3", 20: "z", 21: "y", 22: "if", 23: "obj", 24: "context", 25: "environment", 26: "args",
         27: "name", 28: "func", 29: "\ufb01", 31: "_Context__obj", 32: "_Context__self", 33: "_SandboxedEnvironment__obj",
         34: "_SandboxedEnvironment__context"}
IDS = {v: k for k, v in NAMES.items()}
O1_DEF, O1_CALL, O2_CTX = 90, 91, 92


# ------------------------------------------------------------------ encoding for the driver
def enc_list(tag, xs):
    return tag + ",".join(xs)


def def_fields(d):
    return [enc_list("P", [str(p) for p in d["params"]]), enc_list("D", d["defaults"]),
            "U" + "".join(str(b) for b in d["uses"])]


# the opaque data values of the model (i<k>) as Python values of several kinds, falsy ones included
VALMAP = {2: "s", 3: 2.5, 4: True, 5: [1, 2], 12: "kw", 13: False, 14: 0, 15: ""}
O1_SECOND = 93


class Settings:
    """an application object that merely HAS attributes named like the engine's (autoescape, environment, resolve)"""
    autoescape = True
    environment = None
    volatile = False

    def resolve(self, key):
        return None


def _engine_like():
    import jinja2
    env = jinja2.Environment(autoescape=True)
    return {6: Settings(), 8: env, 9: env.from_string("x").new_context({}), 10: jinja2.Environment}


PYONLY = {}       # filled on first use: values only a call from Python can pass (i6, i8, i9, i10)


def outer_field(d, c=None):
    path = c["path"] if c else "py"
    o = [f"10=i{O1_SECOND if path == 'seq2' else O1_CALL}"]
    if d["o2"] and path not in ("imp", "from"):      # an imported template does not see the render context
        o.append(f"11=i{O2_CTX}")
    return enc_list("O", o)


def line_I(case):
    d, c = case["def"], case["call"]
    return " ".join(["I"] + def_fields(d) + [outer_field(d, c), enc_list("A", c["args"]),
                                             enc_list("K", [f"{k}={v}" for k, v in c["kw"]])])


# ------------------------------------------------------------------ template text
def lit(v):
    if v == "N":
        return "none"
    if v[0] == "i":
        x = VALMAP.get(int(v[1:]), int(v[1:]))
        if x is True or x is False:
            return "true" if x else "false"
        return repr(x)
    raise ValueError(v)


def printed(d, p):
    """is parameter p printed by the generated body?  a special name is only mentioned when the
    definition is meant to use it"""
    if p in (0, 1, 2):
        return bool(d["uses"][p])
    return True


# the single mention of a special name X (caller / kwargs / varargs) in the macro body: every expression position,
# also inside nested scopes whose own signature does not rebind it
USE_FORMS = {
    0: "{{ X|show }}",
    1: "{% call fw(X) %}{% endcall %}",                                            # argument of a call block's call
    2: "{% macro inn#(x=X) %}{{ x|show }}{% endmacro %}{{ inn#() }}",              # default of a nested macro
    3: "{% call(e=X) fw2() %}{{ e|show }}{% endcall %}",                           # default of a call block parameter
    4: "{% for q in [X] %}{{ q|show }}{% endfor %}",                               # iterable of a nested loop
    5: "{% with w = X %}{{ w|show }}{% endwith %}",                                # value of a with
    6: "{% set s#_ = X %}{{ s#_|show }}",                                          # value of an assignment
    7: "{% if X is not string %}{{ X|show }}{% endif %}",                          # operand of a test, then printed
    8: "{% set X = X %}{{ X|show }}",                                              # re-bound to itself: the value is read first
}


def def_source(d, as_call_block=None):
    n, nd = len(d["params"]), len(d["defaults"])
    ps = []
    for i, p in enumerate(d["params"]):
        j = i - (n - nd)
        if j >= 0:
            e = d["defaults"][j]
            ps.append(f"{NAMES[p]}={lit(e[1:]) if e[0] == 'c' else NAMES[int(e[1:])]}")
        else:
            ps.append(NAMES[p])
    # optional prelude: nested scopes that store a special name of their own BEFORE the body uses the special one
    pre = ""
    if d.get("prelude"):
        forms = {0: "{% macro nn(caller) %}{% endmacro %}", 1: "{% for kwargs in [] %}{% endfor %}",
                 2: "{% with varargs = 1 %}{% endwith %}"}
        if d.get("prelude") == 2:
            # the same, as plain assignments inside the scope an {% autoescape %} block opens
            forms = {i: "{%% autoescape false %%}{%% set %s = 1 %%}{%% endautoescape %%}" % nm
                     for i, nm in enumerate(("caller", "kwargs", "varargs"))}
        pre = "".join(forms[i] for i in (0, 1, 2) if d["uses"][i] and i not in d["params"])
    body = pre + ",".join(f"{p}={{{{ {NAMES[p]}|show }}}}" if printed(d, p) else f"{p}=_" for p in d["params"])
    # after printing, the body changes list-valued parameters in place: what one call does to its arguments or
    # defaults must not be visible to the next call
    mut = "".join("{%% if %s is defined and %s is not none and %s.append is defined %%}{%% set u_ = %s.append(987) %%}{%% endif %%}" % ((NAMES[p],) * 4)
                  for p in d["params"] if printed(d, p) and p not in (0, 1, 2))
    for idx, nm in enumerate(("caller", "kwargs", "varargs")):
        body += "|"
        if d["uses"][idx] and idx not in d["params"]:
            # the only mention of the special name: printed, or an argument of a call block's call expression
            body += USE_FORMS[1 if d.get("fwd") else d.get("useform", 0)].replace("X", nm).replace("#", str(idx))
        else:
            body += "-"
    body += mut
    fw = ("{% macro fw(v) %}{{ v|show }}{{ caller() }}{% endmacro %}" if d.get("fwd") else "") + \
        ("{% macro fw2() %}{{ caller() }}{% endmacro %}" if d.get("useform") == 3 and not d.get("fwd") else "")
    if as_call_block is not None:
        # "a call block works exactly like a macro without a name": the same signature and body as a call block,
        # invoked through caller(<the call's arguments>) from inside a wrapper macro
        return (fw + "{% set o1 = " + str(O1_DEF) + " %}{% macro m() %}{{ caller(" + as_call_block + ") }}{% endmacro %}"
                "{% set o1 = " + str(O1_CALL) + " %}{% call(" + ", ".join(ps) + ") m() %}" + body + "{% endcall %}")
    return fw + \
        ("{% set o1 = " + str(O1_DEF) + " %}{% macro m(" + ", ".join(ps) + ") %}" + body +
            "{% endmacro %}{% set o1 = " + str(O1_CALL) + " %}")


def call_source(c, fn="m"):
    """template text of the call (paths tpl / star / block / import forms)"""
    args = [lit(v) for v in c["args"]]
    kws = [(NAMES[k], lit(v)) for k, v in c["kw"] if not (k == 0 and v == "M" and c["path"] == "block")]
    if c["path"] == "star":
        k = c.get("split", 0)
        parts = args[:k]
        if args[k:]:
            parts.append("*[" + ", ".join(args[k:]) + "]")
        kk = c.get("ksplit", 0)
        parts += [f"{n}={v}" for n, v in kws[:kk]]
        if kws[kk:]:
            parts.append("**{" + ", ".join(f"'{n}': {v}" for n, v in kws[kk:]) + "}")
        inner = ", ".join(parts)
    else:
        inner = ", ".join(args + [f"{n}={v}" for n, v in kws])
    if fn is None:
        return inner
    if c["path"] == "block":
        return "{% call " + fn + "(" + inner + ") %}x{% endcall %}"
    return "{{ " + fn + "(" + inner + ") }}"


# ------------------------------------------------------------------ canonical form of real values
class Canon:
    def __init__(self, jinja2):
        from jinja2.runtime import Macro, Undefined
        from jinja2.utils import missing
        self.Macro, self.Undefined, self.missing = Macro, Undefined, missing

    def val(self, v):
        if v is self.missing:
            return "?"
        if v is None:
            return "N"
        for k, x in VALMAP.items():
            if type(v) is type(x) and v == x:
                return f"i{k}"
        for k, x in PYONLY.items():
            if v is x:
                return f"i{k}"
        if isinstance(v, bool):
            return "?bool"
        if isinstance(v, int):
            return f"i{v}"
        if isinstance(v, self.Macro):
            return "M"
        if isinstance(v, self.Undefined):
            hint, name = v._undefined_hint, v._undefined_name
            if hint == "No caller defined":
                return "Uc"
            if hint and hint.startswith("parameter ") and hint.endswith(" was not provided"):
                return f"Up{IDS.get(name, name)}"
            if hint is None:
                return f"Un{IDS.get(name, name)}"
            return f"U?{hint}"
        if isinstance(v, dict):
            return "{" + ";".join(f"{IDS.get(k, k)}={self.val(x)}" for k, x in v.items()) + "}"
        if isinstance(v, (tuple, list)):
            return "[" + ";".join(self.val(x) for x in v) + "]"
        return "?" + type(v).__name__


def classify_type_error(e, d):
    msg = str(e)
    if "two values for the special caller argument" in msg:
        return "err:two"
    if "takes no keyword argument" in msg:
        nm = msg.rsplit(" ", 1)[1].strip("'\"")
        return f"err:nokw{IDS.get(nm, nm)}"
    if "takes not more than" in msg:
        want = f"takes not more than {len(d['params'])} argument(s)"
        return "err:toomany" if want in msg else "err:toomany?" + msg
    if "positional argument" in msg:
        return "err:arity"
    return "err:other:" + msg[:80]


def untag(s):
    return s.replace("C:", "").replace("K:", "").replace("V:", "")


def mask_frame(d, f):
    """the body does not print a special-named parameter it is not meant to use"""
    if "|" not in f:
        return f
    ps, rest = f.split("|", 1)
    out = []
    for item in ps.split(",") if ps else []:
        k, v = item.split("=", 1)
        out.append(f"{k}=_" if not printed(d, int(k)) else item)
    return ",".join(out) + "|" + rest


# ------------------------------------------------------------------ the real engine
class Real:
    def __init__(self, jinja2):
        self.jinja2 = jinja2
        self.canon = Canon(jinja2)
        self.envs = {}
        self.sources = {}
        from jinja2.sandbox import SandboxedEnvironment
        for mode in ("sync", "async"):
            for axis in ("plain", "sandboxed", "autoescape", "unoptimized"):
                kw = {"enable_async": mode == "async", "loader": jinja2.FunctionLoader(self.sources.get)}
                env = (SandboxedEnvironment(**kw) if axis == "sandboxed" else
                       jinja2.Environment(autoescape=True, **kw) if axis == "autoescape" else
                       jinja2.Environment(optimized=False, **kw) if axis == "unoptimized" else jinja2.Environment(**kw))
                env.filters["show"] = self.canon.val
                self.envs[(mode, axis)] = env
            self.envs[mode] = self.envs[(mode, "plain")]
        self.adefs = {}
        self.cb = self.envs["sync"].from_string("{% macro cb() %}x{% endmacro %}").module.cb
        self.defs = {}

    def pyval(self, v):
        if v == "N":
            return None
        if v == "M":
            return self.cb
        if not PYONLY:
            PYONLY.update(_engine_like())
        if int(v[1:]) in PYONLY:
            return PYONLY[int(v[1:])]
        x = VALMAP.get(int(v[1:]), int(v[1:]))
        return list(x) if isinstance(x, list) else x

    def compiled_def(self, d, key):
        """(error | (template, Macro object from the module, python parameter names))"""
        if key in self.defs:
            return self.defs[key]
        try:
            t = self.envs["sync"].from_string(def_source(d))
            mod = t.make_module({"o2": O2_CTX} if d["o2"] else {})
            mac = mod.m
            code = mac._func.__code__
            names = []
            for vn in code.co_varnames[:code.co_argcount]:
                parts = vn.split("_", 2)
                names.append(parts[2] if len(parts) == 3 and parts[0] == "l" else vn)
            r = ("ok", mac, ",".join(names) + "/" + "".join("1" if b else "0" for b in
                                                             (mac.catch_kwargs, mac.catch_varargs, mac.caller)),
                 tuple(mac.arguments))
        except self.jinja2.TemplateSyntaxError:
            r = ("fail",)
        except Exception as e:  # noqa
            r = ("exc", type(e).__name__ + ": " + str(e)[:100])
        self.defs[key] = r
        return r

    def async_module_macro(self, d, key):
        if key not in self.adefs:
            try:
                t = self.envs["async"].from_string(def_source(d))
                self.adefs[key] = asyncio.run(t.make_module_async({"o2": O2_CTX} if d["o2"] else {})).m
            except Exception as e:  # noqa
                self.adefs[key] = None
        return self.adefs[key]

    def call_python(self, d, mac, c, is_async=False):
        """returns (arguments string | error string, frame string | None)"""
        captured = []
        orig = mac._func

        if is_async:
            async def rec(*arguments):
                captured.append(arguments)
                return await orig(*arguments)
        else:
            def rec(*arguments):
                captured.append(arguments)
                return orig(*arguments)

        mac._func = rec
        try:
            out = mac(*[self.pyval(v) for v in c["args"]], **{NAMES[k]: self.pyval(v) for k, v in c["kw"]})
            if is_async:
                out = asyncio.run(out)
            return "ok(" + ",".join(self.canon.val(x) for x in captured[0]) + ")", str(out)
        except TypeError as e:
            k = classify_type_error(e, d)
            if captured:
                return "ok(" + ",".join(self.canon.val(x) for x in captured[0]) + ")", k
            return k, k
        except Exception as e:  # noqa
            return "exc:" + type(e).__name__ + ":" + str(e)[:80], None
        finally:
            mac._func = orig

    def call_template(self, d, c):
        path = c["path"]
        if path in ("imp", "impctx", "from"):
            name = "defs%d" % len(self.sources)
            self.sources[name] = def_source(d)
            if path == "from":
                src = "{% from '" + name + "' import m %}" + call_source(dict(c, path="tpl"))
            else:
                src = "{% import '" + name + "' as lib" + (" with context" if path == "impctx" else "") + " %}" + \
                    call_source(dict(c, path="tpl"), "lib.m")
        elif path == "cb":
            src = def_source(d, as_call_block=call_source(dict(c, path="tpl"), None))
        elif path == "seq2":
            # two calls in ONE render with the outer variable re-set in between: defaults are per call
            src = def_source(d) + "{{ m() }}{% set o1 = " + str(O1_SECOND) + " %}~~" + call_source(dict(c, path="tpl"))
        else:
            src = def_source(d) + call_source(c)
        ctxvars = {"o2": O2_CTX} if d["o2"] else {}
        try:
            env = self.envs[(c.get("mode", "sync"), c.get("axis", "plain"))]
            t = env.from_string(src)
            out = asyncio.run(t.render_async(**ctxvars)) if c.get("mode") == "async" else t.render(**ctxvars)
            return str(out).split("~~", 1)[1] if path == "seq2" else str(out)
        except TypeError as e:
            return classify_type_error(e, d)
        except Exception as e:  # noqa
            return "exc:" + type(e).__name__ + ":" + str(e)[:80]


# ------------------------------------------------------------------ generators
def default_options(params, i):
    opts = ["ci7", "cN", "ci5", "ci2", "r10", "r11", "r12"]
    opts += [f"r{p}" for p in params[:i]][:1]
    opts += [f"r{p}" for p in params[i + 1:]][:1]
    opts += [f"r{params[i]}"]                     # the parameter's own name: m(a=a)
    return opts


def signatures(ctx, max_n):
    out = []
    for n in range(0, max_n + 1):
        base = [3, 4, 5, 6][:n]
        variants = [base] + [base[:i] + [0] + base[i + 1:] for i in range(n)]
        if n:
            variants.append(base[:-1] + [1])
            variants.append([2] + base[1:])
            variants.append(base[:-1] + [7])          # a parameter named like a Python keyword
            variants.append([9] + base[1:])           # a parameter named `self` (also given by keyword)
            variants.append([23] + base[1:])          # parameters named like arguments of the engine's own call helpers
            variants.append(base[:-1] + [24])
            variants.append(base[:-1] + [29])         # a parameter name python normalizes (NFKC): the ligature fi
        if n >= 2:
            variants.append([8] + base[1:-1] + [7])
        for params in variants:
            for nd in range(0, min(n, 3) + 1):
                for uses in itertools.product((0, 1), repeat=3):
                    defaults = [ctx.rng.choice(default_options(params, n - nd + j)) for j in range(nd)]
                    out.append({"params": params, "defaults": defaults, "uses": list(uses),
                                "o2": ctx.rng.random() < 0.5, "prelude": ctx.rng.choice([False, False, False, False, False, True, 2]), "fwd": ctx.rng.random() < 0.15,
                                "useform": ctx.rng.choice([0, 0, 0, 2, 3, 4, 5, 6, 7, 8])})
    return out


def caller_values():
    return itertools.cycle(["M", "N", "i30"])


def exhaustive_calls(d, max_pos, max_kw, cyc):
    cand = sorted(set(d["params"]) | {20, 0})
    for npos in range(0, max_pos + 1):
        for k in range(0, max_kw + 1):
            for names in itertools.combinations(cand, k):
                kw = []
                for j, nm in enumerate(names):
                    kw.append([nm, next(cyc) if nm == 0 else f"i{11 + j}"])
                yield {"args": [f"i{1 + i}" for i in range(npos)], "kw": kw, "path": "py"}


def random_call(ctx, d, path):
    cand = sorted(set(d["params"]) | {20, 21, 22, 0} | ({9} if ctx.rng.random() < 0.15 else set())
                  | ({ctx.rng.choice([23, 24, 25, 26, 27, 28, 29, 31, 32, 33, 34])} if ctx.rng.random() < 0.45 else set()))
    npos = ctx.rng.randint(0, 5)
    k = ctx.rng.randint(0, min(4, len(cand)))
    names = ctx.rng.sample(cand, k)
    kw = []
    for j, nm in enumerate(names):
        v = ctx.rng.choice(["M", "N", "i30"]) if nm == 0 else ctx.rng.choice([f"i{11 + j}", "N"])
        if v == "M" and path != "py":
            v = "N" if path != "block" else "M"
        kw.append([nm, v])
    args = [ctx.rng.choice([f"i{1 + i}", f"i{1 + i}", "N"]) for i in range(npos)]
    if path == "py" and args and ctx.rng.random() < 0.3:
        # from Python any object can be an argument: also ones that look like engine objects (an object with an
        # `autoescape` attribute, an Environment, a Context, the Environment class) in the FIRST position, where
        # Macro.__call__ looks for a real EvalContext
        args[ctx.rng.choice([0, 0, len(args) - 1])] = ctx.rng.choice(["i6", "i8", "i9", "i10"])
    c = {"args": args, "kw": kw, "path": path}
    if path == "block":
        # the call block passes caller=<macro> after the explicit keywords; an explicit caller
        # keyword as well would be a repeated keyword (outside wf_call, see the probes)
        c["kw"] = [x for x in kw if x[0] != 0] + [[0, "M"]]
    if path == "star":
        c["split"] = ctx.rng.randint(0, len(args))
        c["ksplit"] = ctx.rng.randint(0, len(c["kw"]))
    return c


# ------------------------------------------------------------------ judging one case
def judge(ctx, real, case, mline, finals_queue):
    d, c = case["def"], case["call"]
    key = (tuple(d["params"]), tuple(d["defaults"]), tuple(d["uses"]), d["o2"], d.get("prelude") or 0, bool(d.get("fwd")), d.get("useform", 0))
    fields = dict(f.split("=", 1) for f in mline.split(" "))
    mC = fields["C"]
    rd = real.compiled_def(d, key)
    nontriv = None
    if len(c["args"]) < len(d["params"]) and (c["kw"] or any(d["uses"])):
        nontriv = (key, tuple(c["args"]), tuple(map(tuple, c["kw"])), c["path"], c.get("mode"))
    ctx.case(sample={"template": def_source(d) + (call_source(dict(c, path="tpl") if c["path"] not in ("tpl", "star", "block") else c) if c["path"] not in ("py", "apy") else " # module.m(...)"),
                     "call": c, "model": mline} if nontriv and len(c["kw"]) > 1 else None, key=nontriv)
    ctx.count("path_" + c["path"] + ("_async" if c.get("mode") == "async" else ""))
    # ---- compile step (K-gen macro_body / macro_def)
    if rd[0] == "exc":
        ctx.reject(case, "macro definition raised " + rd[1], "definition raises " + rd[1].split(":")[0])
        return
    if (mC == "fail") != (rd[0] == "fail"):
        ctx.model_mismatch("K-gen macro_body (explicit caller without default)", case, mC, rd[0], None)
        return
    if mC == "fail":
        ctx.count("compile_rejected")
        ctx.validated()
        return
    py, flags = mC.split("/")
    model_sig = ",".join(NAMES[int(x[1:])] if x[0] == "p" and x[1:].isdigit() else x for x in py.split(",") if x) + "/" + flags
    ok = True
    import unicodedata
    # CPython normalizes identifiers (NFKC): the generated function's parameter for `\ufb01` is spelled `fi`
    if unicodedata.normalize("NFKC", model_sig) != unicodedata.normalize("NFKC", rd[2]):
        # keep going: the call below tells whether the property fails on this input
        ctx.model_mismatch("K-gen macro_body / macro_def (python parameters, Macro flags)", case, model_sig, rd[2], None)
        ok = False
    mM, mS, mF = untag(fields["M"]), untag(fields["S"]), mask_frame(d, fields["F"])
    spec_tail = None
    if fields["S"].startswith("ok("):
        tags = {"C": "-", "K": "-", "V": "-"}
        for el in split_top(fields["S"][3:-1]):
            if el[:2] in ("C:", "K:", "V:"):
                tags[el[0]] = el[2:]
        spec_tail = tags["C"] + "|" + tags["K"] + "|" + tags["V"]
    if "!slots" in mM:
        ctx.broken.append("model: slots_ok false (protocol_agrees contradicted)")
    # ---- the call
    if c["path"] == "py":
        rargs, rframe = real.call_python(d, rd[1], c)
    elif c["path"] == "apy":
        amac = real.async_module_macro(d, key)
        if amac is None:
            ctx.reject(case, "make_module_async failed although make_module works", "macro-binding: async module")
            return
        rargs, rframe = real.call_python(d, amac, c, True)
    else:
        rframe = real.call_template(d, c)
        rargs = None
    # ---- oracle: binding rules on the real result
    spec_err = mS == "err"
    r_is_err = (rframe or "").startswith("err:")
    what = None
    if rargs is not None and rargs.startswith("exc:") or (rframe or "").startswith("exc:"):
        what = f"call raised {rargs if rframe is None else rframe}"
    elif rframe == "err:arity":
        what = "the generated function rejected the argument list Macro.__call__ built (arity TypeError)"
    elif r_is_err and "other" in rframe:
        what = f"unexpected TypeError {rframe}"
    elif spec_err != r_is_err:
        what = f"binding rules give {mS}, engine gives {rframe}"
    elif rargs is not None and not spec_err and rargs != mS:
        what = f"binding rules give {mS}, Macro.__call__ passed {rargs}"
    elif not spec_err and "|" in rframe and rframe.split("|", 1)[1] != spec_tail:
        what = f"binding rules give caller|kwargs|varargs = {spec_tail}, the macro body saw {rframe.split('|', 1)[1]}"
    if what:
        sig = "macro-binding: " + ("arity TypeError" if rframe == "err:arity" else what.split(",")[0][:60])
        ctx.model_mismatch("K-rt Macro.__call__", case, {"M": mM, "S": mS, "F": mF}, {"args": rargs, "frame": rframe},
                           what, sig)
        return
    # ---- tie: model vs real
    if rargs is not None and rargs != mM and not (r_is_err and rargs == rframe == mM):
        ctx.model_mismatch("K-rt Macro.__call__ (arguments / TypeError kind)", case, mM, rargs, None)
        ok = False
    if rframe != mF:
        ctx.model_mismatch("K-rt macro prologue / frame (or TypeError kind)", case, mF, rframe, None)
        ok = False
    if not r_is_err:
        # defaults rule on the real final values (second driver pass)
        n = len(d["params"])
        src = rargs if rargs is not None else mS
        l0 = split_top(src[3:-1])[:n]
        finals_queue.append((case, l0, rframe))
    if ok:
        ctx.validated()


def split_top(s):
    out, depth, cur = [], 0, ""
    for ch in s:
        if ch in "{[":
            depth += 1
        elif ch in "}]":
            depth -= 1
        if ch == "," and depth == 0:
            out.append(cur)
            cur = ""
        else:
            cur += ch
    if cur or out:
        out.append(cur)
    return out


def check_finals(ctx, finals_queue):
    lines, cases = [], []
    for case, l0, rframe in finals_queue:
        d = case["def"]
        ps = rframe.split("|", 1)[0]
        lf = ps.split(",") if ps else []
        if any(x.endswith("=_") for x in lf):
            continue
        import re as _re
        if any(not _re.fullmatch(r"N|M|Uc|i\d+|Up\d+|Un\d+", x.split("=", 1)[1]) for x in lf + [f"0={v}" for v in l0 if v != "?"]):
            ctx.reject(case, f"macro body saw a non-canonical value {lf}", "macro-binding: non-canonical value")
            continue
        l0f = [f"{p}={v}" for p, v in zip(d["params"], l0)]
        lines.append(" ".join(["F"] + def_fields(d) + [outer_field(d, case["call"]), enc_list("L", l0f), enc_list("R", lf)]))
        cases.append(case)
    if not lines:
        return
    for case, res in zip(cases, ctx.driver("macro", lines)):
        if res != "ok":
            ctx.reject(case, f"defaults rule violated on the engine's final parameter values ({res})",
                       "macro-binding: default not evaluated as documented")


def probes(ctx, real):
    """hypotheses of C06_bind_refines, violated inside the property's own domain"""
    jinja2 = real.jinja2
    env = real.envs["sync"]
    n = 0
    for src, what in [
        ("{% macro m(a, a) %}{{ a }}{% endmacro %}{{ m(1, 2) }}", "duplicate parameter name"),
        ("{% macro m(a, b, a=1) %}{{ a }}{% endmacro %}{{ m(1, 2) }}", "duplicate parameter name"),
        ("{% macro m(a) %}{{ a }}{% endmacro %}{{ m(a=1, a=2) }}", "duplicate keyword"),
        ("{% macro m(a) %}{{ a }}{{ kwargs }}{% endmacro %}{{ m(a=1, **{'a': 2}) }}", "duplicate keyword"),
        ("{% macro m(a) %}{{ caller() }}{% endmacro %}{% call m(caller=1) %}x{% endcall %}", "duplicate keyword"),
        # a keyword that is a Python keyword switches compiler.signature to its dict workaround
        ("{% macro m(class=0, a=0) %}{{ class }}|{{ a }}{% endmacro %}{{ m(class=1, **{'class': 2}) }}",
         "duplicate keyword (python-keyword name)"),
        ("{% macro m(class=0, a=0) %}{{ class }}|{{ a }}{% endmacro %}{{ m(class=1, a=2, **{'a': 3}) }}",
         "duplicate keyword (python-keyword name)"),
        ("{% macro m(class=0, a=0) %}{{ class }}|{{ a }}{% endmacro %}{{ m(class=1, class=2) }}",
         "duplicate keyword (python-keyword name)"),
        ("{% macro m(class=0) %}{{ class }}{{ caller() }}{% endmacro %}{% call m(class=1, **{'caller': 2}) %}x{% endcall %}",
         "duplicate keyword (python-keyword name)"),
        ("{{ 1|default(class=1, **{'class': 2}) }}", "duplicate keyword (python-keyword name)"),
    ]:
        n += 1
        try:
            out = env.from_string(src).render()
            ctx.reject({"template": src}, f"{what} accepted and rendered {out!r}", "macro-binding: " + what + " accepted")
        except (jinja2.TemplateSyntaxError, SyntaxError, TypeError):
            ctx.count("probe_rejected_by_engine")
        except Exception as e:  # noqa
            ctx.reject({"template": src}, f"{what}: unexpected {type(e).__name__}", "macro-binding: " + what)
    # a special name re-bound in the macro's own scope without being read (set, import ... as, from ... import ... as):
    # what the body reads afterwards is the local, so the macro does not take surplus keywords / positionals
    real.sources["libk"] = "{% macro f() %}F{% endmacro %}"
    lenv = real.envs[("sync", "plain")]
    for rebind in ("{% set kwargs = 1 %}{{ kwargs }}", "{% import 'libk' as kwargs %}{{ kwargs.f() }}",
                   "{% from 'libk' import f as kwargs %}{{ kwargs() }}", "{% from 'libk' import f as varargs %}{{ varargs() }}"):
        call = "{{ m(1) }}" if "varargs" in rebind else "{{ m(zzz=1) }}"
        src = "{% macro m() %}" + rebind + "{% endmacro %}" + call
        n += 1
        try:
            out = lenv.from_string(src).render()
            ctx.reject({"template": src}, f"the body reads its own local, yet the surplus argument is accepted (rendered {out!r})",
                       "macro-binding: a special name re-bound by import still makes the macro take surplus arguments")
        except TypeError:
            ctx.count("probe_rebound_special_ok")
        except Exception as e:  # noqa
            ctx.reject({"template": src}, f"unexpected {type(e).__name__}: {e}", "macro-binding: re-bound special name: " + type(e).__name__)
    # keywords that collide with the engine's internal call protocol (inside the quantifier: "unknown names").
    # Given explicitly they must bind (kwargs / TypeError) or be rejected as a template error; through ** they
    # still reach Context.call, which strips them (known finding).
    for kwname in ("_loop_vars", "_block_vars"):
        for macro, want_bind in (("{% macro m() %}{{ kwargs|show }}{% endmacro %}", "{%s=i3}" % kwname),
                                 ("{% macro m() %}x{% endmacro %}", "TypeError")):
            for explicit in (True, False):
                call = ("{{ m(%s=3) }}" % kwname) if explicit else ("{{ m(**{'%s': 3}) }}" % kwname)
                src = macro + call
                n += 1
                try:
                    out = env.from_string(src).render()
                except jinja2.TemplateSyntaxError:
                    out = "TemplateSyntaxError"
                except TypeError:
                    out = "TypeError"
                except Exception as e:  # noqa
                    out = "raised " + type(e).__name__
                if out == want_bind or (explicit and out == "TemplateSyntaxError"):
                    ctx.count("probe_internal_keyword_ok")
                else:
                    ctx.reject({"template": src}, f"unconsumed keyword {kwname} must reach kwargs or be a TypeError (as it is when the "
                               f"macro is called from Python); engine gives {out!r}",
                               "macro-binding: explicit keyword _loop_vars/_block_vars swallowed by Context.call" if explicit else
                               "macro-binding: keyword _loop_vars/_block_vars swallowed by Context.call")
    return n


def run(ctx):
    jinja2 = lib.use_repo_jinja()
    ctx.extra["rule"] = RULE
    ctx.assumptions += [
        "parameter names of a macro are distinct (probe: the engine rejects a duplicate at compile time)",
        "keyword names of a call are distinct (a Python dict; probe: duplicates are rejected by CPython before Macro.__call__ runs)",
        "find_undeclared(body, (caller, kwargs, varargs)) is an input of the model (the body's use set); bodies in the tie mention the names directly",
        "default expressions in the tie are constants and names; other expressions are C02's subject",
    ]
    ctx.proof("C06")
    # T5: the current source of Macro.__call__ and of the parameter-assembly part of CodeGenerator.macro_body,
    # translated into the deep embeddings Lib/PyMacro.v / Lib/PyMacroBody.v, is proved equal to the model functions
    # (macro_entry, macro_body_sig) for all inputs.  The two regenerated files are compiled concurrently with the
    # correspondence runs below (same coqc command as ctx.coq_obligation; accounted for after they finish).
    import os
    import sys
    import threading
    sys.path.insert(0, os.path.join(lib.ROOT, "gen"))
    import macro_translate
    import macrobody_translate
    pending = []
    for name, mod, n_ob, what in (("Gen_macro", macro_translate, 7, "Macro.__call__ source = model, loop by induction"),
                                  ("Gen_macrobody", macrobody_translate, 4, "macro_body parameter assembly source = macro_body_sig, loop by induction")):
        try:
            vtext = mod.emit(lib.SRC)
        except mod.Untranslatable as e:
            ctx.broken.append(f"translator gen/{mod.__name__}.py: the source left the translatable vocabulary: {e}")
            continue
        vfile = os.path.join(ctx.bdir, name + ".v")
        with open(vfile, "w") as f:
            f.write(vtext)
        box = {}
        th = threading.Thread(target=lambda b=box, v=vfile, nm=name: b.update(r=ctx._coqc(v, os.path.join(ctx.bdir, nm + ".vo"), 600)))
        th.start()
        pending.append((name, n_ob, what, th, box))

    def finish_obligations():
        for name, n_ob, what, th, box in pending:
            th.join()
            rc, out, err = box.get("r", (1, "", "coqc did not run"))
            ctx.obligations += n_ob
            ctx.obligation_names.append(f"{name} (regenerated, {n_ob})")
            if rc != 0:
                ctx.broken.append(f"regenerated obligation {name} fails: " + (err.strip().splitlines() or ["?"])[-1][:300])
                ctx.extra.setdefault("coq_errors", []).append(err[-2000:])
            else:
                ctx.discharged += n_ob
                ctx.trusted.append(f"{name} ({what}): " + " ".join(out.split()))

    real = Real(jinja2)
    sigs = signatures(ctx, 4)
    ex_n, ex_pos, ex_kw = ctx.size((2, 3, 2), (4, 5, 4))
    n_rand_py, n_tpl = ctx.size((6, 3), (60, 12))
    cases = []
    cyc = caller_values()
    for d in sigs:
        if len(d["params"]) <= ex_n:
            for c in exhaustive_calls(d, ex_pos, ex_kw, cyc):
                cases.append({"def": d, "call": c})
        for _ in range(n_rand_py):
            cases.append({"def": d, "call": random_call(ctx, d, "py")})
        for j in range(n_tpl):
            c = random_call(ctx, d, ("tpl", "star", "block")[j % 3])
            c["mode"] = "async" if ctx.rng.random() < 0.25 else "sync"
            c["axis"] = ctx.rng.choice(["plain", "plain", "sandboxed", "autoescape", "unoptimized"])
            cases.append({"def": d, "call": c})
        # alternative entry points: the async module, import / from-import (with and without context), and a second
        # call in the same render after the outer variable changed
        extra = ctx.rng.choice(["apy", "imp", "impctx", "from", "seq2", "cb", "cb"]) if ctx.tier != "thorough" else None
        for path in ([extra] if extra else ["apy", "imp", "impctx", "from", "seq2", "cb"]):
            c = random_call(ctx, d, "py" if path == "apy" else "tpl")
            c["path"] = path
            if path != "apy":
                c["mode"] = "async" if ctx.rng.random() < 0.25 else "sync"
            cases.append({"def": d, "call": c})
    # the input class of the repaired defect, always present
    cases.append({"def": {"params": [0, 3], "defaults": ["cN", "ci1"], "uses": [1, 0, 0], "o2": False},
                  "call": {"args": ["i5"], "kw": [], "path": "tpl", "mode": "sync"}})
    out = ctx.driver("macro", [line_I(c) for c in cases])
    finals_queue = []
    for case, mline in zip(cases, out):
        judge(ctx, real, case, mline, finals_queue)
    check_finals(ctx, finals_queue)
    finish_obligations()
    ctx.extra["hypothesis_probes"] = probes(ctx, real)
    ctx.extra["signatures"] = len(sigs)


def replay(ctx, data):
    jinja2 = lib.use_repo_jinja()
    case = data.get("case")
    if data.get("kind") != "failing-input" or case is None:
        print("replay: names a broken theorem/correspondence:", data.get("broken"))
        return run(ctx)
    real = Real(jinja2)
    if "template" in case and "def" not in case:
        try:
            print("render:", real.envs["sync"].from_string(case["template"]).render())
            ctx.reject(case, "hypothesis-violating input accepted")
        except Exception as e:  # noqa
            print("raised", type(e).__name__, e)
        return
    mline = ctx.driver("macro", [line_I(case)])[0]
    print("template:", def_source(case["def"]) + (call_source(case["call"]) if case["call"]["path"] != "py" else ""))
    print("model   :", mline)
    q = []
    judge(ctx, real, case, mline, q)
    check_finals(ctx, q)
    for m in ctx.mismatches:
        print("mismatch:", m)
