"""Probe objects for the sandbox checks (C17): synthetic objects of every branch of
is_internal_attribute's isinstance chain with chosen attribute / item maps, real interpreter
objects (generator, coroutine, async generator, code, frame, traceback, function, method, type),
tracer data whose private attributes carry a sentinel, and the abstraction of a real
(object, name) pair to the model's (kind, attrstat, itemstat).
"""
from __future__ import annotations

import sys
import types

SENT = "S3CR3T"


# ------------------------------------------------------------------ abstraction real -> model
def kind_of(obj):
    """the branch of sandbox.is_internal_attribute's if/elif chain (same order)"""
    if isinstance(obj, str):
        return "str"
    if isinstance(obj, types.FunctionType):
        return "function"
    if isinstance(obj, types.MethodType):
        return "method"
    if isinstance(obj, type):
        return "type"
    if isinstance(obj, types.CodeType):
        return "code"
    if isinstance(obj, types.TracebackType):
        return "traceback"
    if isinstance(obj, types.FrameType):
        return "frame"
    if isinstance(obj, types.GeneratorType):
        return "generator"
    if isinstance(obj, types.CoroutineType):
        return "coroutine"
    if isinstance(obj, types.AsyncGeneratorType):
        return "asyncgen"
    return "other"


def is_bound_str_format(v):
    return (isinstance(v, (types.MethodType, types.BuiltinMethodType)) and getattr(v, "__name__", None) in ("format", "format_map")
            and isinstance(getattr(v, "__self__", None), str))


def attrstat(obj, name):
    try:
        v = getattr(obj, name)
    except AttributeError:
        return "none"
    except Exception:  # noqa: BLE001 - a property raising something else: outside the model
        return None
    if is_bound_str_format(v):
        return "fmtmap" if v.__name__ == "format_map" else "fmt"
    return "plain"


def itemstat(obj, name):
    try:
        obj[name]
        return "1"
    except (TypeError, LookupError):
        return "0"
    except Exception:  # noqa: BLE001
        return None


def classify(r, attr_value=None, item_value=None):
    """class of what environment.getattr / getitem / attr-filter returned"""
    from jinja2.exceptions import SecurityError
    from jinja2.runtime import Undefined
    if isinstance(r, Undefined):
        return "unsafe" if r._undefined_exception is SecurityError else "undefined"
    w = getattr(r, "__wrapped__", None) if isinstance(r, types.FunctionType) else None
    if w is not None and is_bound_str_format(w):
        return "format"
    if attr_value is not None and r is attr_value:
        return "value"
    if item_value is not None and r is item_value:
        return "item"
    return "handout"


def call_classified(fn, *args, **kw):
    from jinja2.exceptions import SecurityError, UndefinedError
    try:
        return fn(*args), None
    except SecurityError:
        return None, "raise:SecurityError"
    except UndefinedError:
        return None, "raise:UndefinedError"
    except Exception as e:  # noqa: BLE001
        return None, "raise:" + type(e).__name__


class StrSub(str):
    """a str subclass whose str() differs from its content: hashes / compares / startswith() as `content`,
    but str(key) — what SandboxedEnvironment.getitem fetches with getattr — is `shown`"""
    def __new__(cls, content, shown):
        self = super().__new__(cls, content)
        self.shown = shown
        return self

    def __str__(self):
        return self.shown


class LyingStartswith(str):
    """a name whose startswith() denies every prefix"""
    def startswith(self, *a):
        return False


class LyingEq(str):
    """a name that compares unequal to everything and hashes to a constant (defeats `name in SET`, `name == "mro"`)"""
    def __eq__(self, other):
        return False

    def __ne__(self, other):
        return True

    def __hash__(self):
        return 0

    def startswith(self, *a):
        return False


class StrReturnsLying(str):
    """str(key) is itself an instance of a lying str subclass"""
    def __new__(cls, content, shown):
        self = super().__new__(cls, content)
        self.shown = shown
        return self

    def __str__(self):
        return LyingStartswith(self.shown)


NAME_KINDS = {"lying-startswith": lambda n: LyingStartswith(n), "lying-eq-hash": lambda n: LyingEq(n),
              "str-returns-lying": lambda n: StrReturnsLying("safe", n)}


# ------------------------------------------------------------------ synthetic objects
class Val:
    """distinct identity-carrying values for 'the attribute' and 'the item'"""
    def __init__(self, tag):
        self.tag = tag

    def __repr__(self):
        return f"<{self.tag}>"


def make_obj(kind, name, astat, istat, attr_value, item_value, item_key=None):
    """an object of the given branch that has (astat) the attribute `name` and (istat) the item
    `name`; returns None when Python cannot build that combination"""
    key = name if item_key is None else item_key
    items = {key: item_value} if istat == "1" else None
    if astat == "fmt":
        attr_value = "s".format
    elif astat == "fmtmap":
        attr_value = "s".format_map
    try:
        if kind == "other":
            if items is None:
                class O:
                    pass
            else:
                class O:
                    def __getitem__(self, k, _items=items):
                        return _items[k]
            o = O()
            if astat != "none":
                setattr(o, name, attr_value)
            return o
        if kind == "function":
            if items is not None:
                return None

            def fn():
                return None
            if astat != "none":
                setattr(fn, name, attr_value)
            return fn
        if kind == "method":
            if items is not None:
                return None

            class C:
                def meth(self):
                    return None
            if astat != "none":
                setattr(C.meth, name, attr_value)
            return C().meth
        if kind == "type":
            if items is None:
                class T:
                    pass
            else:
                class M(type):
                    def __getitem__(cls, k, _items=items):
                        return _items[k]

                class T(metaclass=M):
                    pass
            if astat != "none":
                setattr(T, name, attr_value)
            return T
    except (AttributeError, TypeError, ValueError):
        return None
    return None


def metaclass_bearing_classes():
    """class objects whose type is a metaclass other than `type` (isinstance(obj, type) holds, type(obj) is type does not):
    Enum classes, ABCs, a custom metaclass, a class of a metaclass with __getattr__; plus instances of subclasses of the
    subclassable C-level types the sandbox tables mention (only `type` is subclassable among them)"""
    import abc
    import enum

    class Color(enum.Enum):
        RED = 1

    class Shape(abc.ABC):
        @abc.abstractmethod
        def area(self):
            return 0

    class Meta(type):
        registry = "META-PUB"

    class Model(metaclass=Meta):
        pub = "PUBLIC"
        _csecret = SENT + "m"

    class IntFlagLike(enum.IntFlag):
        A = 1
    return {"enum-class": Color, "abc-class": Shape, "metaclass-class": Model, "intflag-class": IntFlagLike, "metaclass": Meta}


def real_objects():
    """real interpreter objects of the C-level branches (closed by the caller)"""
    def gen():
        yield 1

    async def coro():
        return 1

    async def agen():
        yield 1

    def fn(a=1):
        return a

    class K:
        cattr = 1

        def meth(self):
            return 1
    try:
        raise ValueError("x")
    except ValueError:
        tb = sys.exc_info()[2]
    g, c, a = gen(), coro(), agen()
    objs = {"generator": g, "coroutine": c, "asyncgen": a, "code": fn.__code__, "frame": sys._getframe(),
            "traceback": tb, "function": fn, "method": K().meth, "type": K, "other": K(), "str": "a{0}"}

    def close():
        g.close()
        c.close()
    return objs, close


# ------------------------------------------------------------------ tracer data for rendering
class Child:
    pub = "CHILDPUB"

    def __init__(self):
        self._secret = SENT + "c"

    def __repr__(self):
        return "<Child>"


class Tracer:
    pub = "PUBLIC"
    _csecret = SENT + "k"

    def __init__(self):
        self._secret = SENT + "1"
        self.__dict__["__dunder"] = SENT + "2"
        self.__dict__["__dunder__"] = SENT + "6"
        self._fmt = (SENT + "3{0}").format
        self._fmtmap = (SENT + "7").format_map
        self.child = Child()
        self.n = 1

    def __repr__(self):
        return "<Tracer>"

    @property
    def _prop(self):
        return SENT + "4"

    def meth(self):
        return "M"

    def _pmeth(self):
        return SENT + "5"

    def __getitem__(self, k):
        if k == "itemkey":
            return "ITEMVALUE"
        raise KeyError(k)


class Dyn:
    """every attribute exists, served by __getattr__: private names carry the sentinel"""
    def __getattr__(self, n):
        if str.startswith(n, "nosuch"):
            raise AttributeError(n)
        return (SENT + "d" if str.startswith(n, "_") else "DYN:") + str.__str__(n)

    def __repr__(self):
        return "<Dyn>"


class DynAll:
    """__getattribute__ override: the same for every lookup the sandbox makes"""
    def __getattribute__(self, n):
        if n in ("__class__", "__repr__", "__dict__"):
            return object.__getattribute__(self, n)
        if str.startswith(n, "nosuch"):
            raise AttributeError(n)
        return (SENT + "a" if str.startswith(n, "_") else "DYNALL:") + str.__str__(n)

    def __repr__(self):
        return "<DynAll>"


class Raising:
    """the attribute protocol raises something that is not AttributeError"""
    def __getattr__(self, n):
        if str.startswith(n, "nosuch"):
            raise AttributeError(n)
        raise RuntimeError("attribute protocol failure")

    def __repr__(self):
        return "<Raising>"


def tracer_function():
    def fn():
        return "F"
    fn._secret = SENT + "f"
    fn.pub = "FPUB"
    return fn


def tracer_data():
    def gen():
        yield SENT + "g"
    g = gen()
    o = Tracer()
    data = {"o": o, "d": {"o": Tracer(), "_k": "dictitem"}, "lst": [Tracer()], "f": tracer_function(), "T": Tracer,
            "g": g, "bm": o.meth}

    async def coro():
        return SENT + "co"

    async def agen():
        yield SENT + "ag"
    try:
        raise ValueError(SENT + "tb")
    except ValueError:
        tb = sys.exc_info()[2]
    cr, ag = coro(), agen()
    data.update({"dyn": Dyn(), "dynall": DynAll(), "rz": Raising(), "fr": sys._getframe(), "co": tracer_function().__code__,
                 "tb": tb, "cr": cr, "ag": ag, "tup": (Tracer(),)})
    mc = metaclass_bearing_classes()
    data.update({"EnumC": mc["enum-class"], "AbcC": mc["abc-class"], "MetaC": mc["metaclass-class"], "EnumMember": mc["enum-class"].RED})
    gclose = g.close

    def close_all():
        gclose()
        cr.close()
    # bound str.format / format_map / Markup.format methods supplied by the HOST (not obtained by the
    # template through attribute access): as direct values and inside containers
    from markupsafe import Markup
    hf = "{0._secret}|{0.pub}".format
    data.update({"hf": hf, "hd": {"f": hf}, "hl": [hf], "hm": "{x._secret}|{x.pub}".format_map,
                 "hmk": Markup("{0._secret}|{0.pub}").format, "ht": (hf,)})
    import functools
    data.update({"strT": str, "MarkupT": Markup, "huf": str.format, "hufm": str.format_map, "hpf": functools.partial(hf),
                 "hpuf": functools.partial(str.format, "{0._secret}|{0.pub}"), "hpm": functools.partial("{x._secret}|{x.pub}".format_map),
                 "hmuf": Markup.format})
    data["mk"] = {n: Markup(n) for n in PRIVATE_NAMES + PUBLIC_NAMES + ["nosuchattr_zz"]}       # Markup (a str subclass) as the key
    # attribute NAMES of adversarial value kinds, supplied by the render data
    for i, (kind, mkname) in enumerate(NAME_KINDS.items()):
        data["nk%d" % i] = {n: mkname(n) for n in PRIVATE_NAMES + PUBLIC_NAMES + ["nosuchattr_zz"]}
    # subscript keys that are str subclasses: content "safe", str() = the attribute name under test
    data["sk"] = {n: StrSub("safe", n) for n in PRIVATE_NAMES + PUBLIC_NAMES + ["nosuchattr_zz"]}
    return data, close_all


# internal names of the C-level objects (frame / code / traceback / coroutine / async generator attributes)
INTERNAL_EXTRA = ["f_globals", "f_locals", "f_code", "f_back", "co_consts", "co_names", "tb_frame", "tb_next", "cr_frame", "cr_code",
                  "ag_frame", "ag_code", "cr_await", "gi_yieldfrom"]
PRIVATE_NAMES = ["_secret", "__dunder", "__dunder__", "_fmt", "_fmtmap", "_prop", "_pmeth", "_csecret", "__class__", "__dict__",
                 "__init__", "__globals__", "__code__", "__func__", "__self__", "__subclasses__", "mro", "__mro__",
                 "__base__", "gi_frame", "gi_code", "__module__", "__wrapped__", "__getitem__"]
PRIVATE_NAMES += INTERNAL_EXTRA + ["_length", "_after", "_current", "_iterator", "_undefined"]      # LoopContext internals
PUBLIC_NAMES = ["pub", "n", "meth", "child", "itemkey"]

# (base expression, python accessor of the same object in the data)
BASES = [
    ("o", lambda d: d["o"]), ("d.o", lambda d: d["d"]["o"]), ("lst[0]", lambda d: d["lst"][0]),
    ("f", lambda d: d["f"]), ("T", lambda d: d["T"]), ("g", lambda d: d["g"]), ("bm", lambda d: d["bm"]),
    ("o.child", lambda d: d["o"].child),
    ("dyn", lambda d: d["dyn"]), ("dynall", lambda d: d["dynall"]), ("rz", lambda d: d["rz"]), ("fr", lambda d: d["fr"]),
    ("co", lambda d: d["co"]), ("tb", lambda d: d["tb"]), ("cr", lambda d: d["cr"]), ("ag", lambda d: d["ag"]), ("tup[0]", lambda d: d["tup"][0]),
    ("EnumC", lambda d: d["EnumC"]), ("AbcC", lambda d: d["AbcC"]), ("MetaC", lambda d: d["MetaC"]), ("EnumMember", lambda d: d["EnumMember"]),
]

# access paths: %(b)s base expression, %(n)s attribute name
ACCESS = {
    "dot": "{{ (%(b)s).%(n)s }}",
    "subscript": "{{ (%(b)s)['%(n)s'] }}",
    "subscript-var": "{%% set k = '%(n)s' %%}{{ (%(b)s)[k] }}",
    "subscript-strsubclass": "{{ (%(b)s)[sk['%(n)s']] }}",
    "subscript-markup-key": "{{ (%(b)s)[mk['%(n)s']] }}",
    # the NAME comes from the render data and is an instance of a str subclass that lies about itself
    "attr-filter-lying-startswith": "{{ (%(b)s)|attr(nk0['%(n)s']) }}",
    "attr-filter-lying-eq": "{{ (%(b)s)|attr(nk1['%(n)s']) }}",
    "subscript-lying-startswith": "{{ (%(b)s)[nk0['%(n)s']] }}",
    "subscript-lying-eq": "{{ (%(b)s)[nk1['%(n)s']] }}",
    "subscript-str-returns-lying": "{{ (%(b)s)[nk2['%(n)s']] }}",
    "map-attribute-lying": "{{ [%(b)s]|map(attribute=nk0['%(n)s'])|list }}",
    "map-attr-filter-lying": "{{ [%(b)s]|map('attr', nk1['%(n)s'])|list }}",
    "sort-attribute-lying": "{{ [%(b)s, %(b)s]|sort(attribute=nk0['%(n)s'])|length }}",
    # comma-separated (multi) attributes, integer parts, dotted paths in the other attribute-taking filters
    "sort-multi": "{{ [%(b)s, %(b)s]|sort(attribute='pub,%(n)s')|length }}",
    "sort-multi-first": "{{ [%(b)s, %(b)s]|sort(attribute='%(n)s,pub')|length }}",
    "min-multi-unsupported": "{{ ([%(b)s]|min(attribute='%(n)s.x')) is defined }}",
    "index-dotted": "{{ [[%(b)s]]|map(attribute='0.%(n)s')|list }}",
    "selectattr-dotted": "{{ [{'w': %(b)s}]|selectattr('w.%(n)s')|list|length }}",
    "groupby-dotted": "{{ [{'w': %(b)s}]|groupby('w.%(n)s')|list|length }}",
    "unique-dotted": "{{ [{'w': %(b)s}]|unique(attribute='w.%(n)s')|list|length }}",
    "sum-dotted": "{{ [{'w': %(b)s}]|sum(attribute='w.%(n)s', start='') }}",
    "map-attribute-tuple": "{{ (%(b)s,)|map(attribute='%(n)s')|list }}",
    "map-attribute-default": "{{ [%(b)s]|map(attribute='%(n)s', default='DFLT')|list }}",
    "groupby-default": "{{ [%(b)s]|groupby('%(n)s', default='DFLT')|map('first')|list }}",
    # loops / filters over an attribute that is a container (o.__dict__, T.__mro__, f.__globals__)
    "loop-over": "{%% for k in (%(b)s).%(n)s %%}{{ k }};{%% endfor %%}",
    "list-of": "{{ (%(b)s).%(n)s|list }}",
    "items-of": "{{ (%(b)s).%(n)s|items|list }}",
    "dictsort-of": "{{ (%(b)s).%(n)s|dictsort }}",
    "length-of": "{{ (%(b)s).%(n)s|length }}",
    "loop-attr-filter": "{%% for k in (%(b)s)|attr('%(n)s') %%}{{ k }};{%% endfor %%}",
    # engine-special names bound to data: macro / call-block parameters named loop, and the real loop variable
    "macro-param-named-loop": "{%% macro show(loop) %%}{{ loop.%(n)s }}{%% endmacro %%}{{ show(%(b)s) }}",
    "callblock-param-named-loop": "{%% macro w(x) %%}{{ caller(x) }}{%% endmacro %%}{%% call(loop) w(%(b)s) %%}{{ loop.%(n)s }}{%% endcall %%}",
    "macro-kwargs-special": "{%% macro show() %%}{{ kwargs.o.%(n)s }}{%% endmacro %%}{{ show(o=%(b)s) }}",
    "macro-varargs-special": "{%% macro show() %%}{{ varargs[0].%(n)s }}{%% endmacro %%}{{ show(%(b)s) }}",
    "real-loop-variable": "{%% for x in [%(b)s] %%}{{ loop.%(n)s }}{%% endfor %%}",
    "set-named-loop": "{%% set loop = %(b)s %%}{{ loop.%(n)s }}",
    # extensions
    "trans-variable": "{%% trans v=(%(b)s).%(n)s %%}{{ v }}{%% endtrans %%}",
    "do-then-print": "{%% do (%(b)s).%(n)s %%}{%% set v = (%(b)s).%(n)s %%}{{ v }}",
    "map-strsubclass": "{{ [%(b)s]|map(attribute=sk['%(n)s'])|list }}",
    "attr-filter": "{{ (%(b)s)|attr('%(n)s') }}",
    "call": "{{ ((%(b)s).%(n)s)() }}",
    "call-arg": "{{ ((%(b)s).%(n)s)(1) }}",
    "chain": "{{ (%(b)s).%(n)s.x }}",
    "format-attr": "{{ '{0.%(n)s}'.format(%(b)s) }}",
    "format-item": "{{ '{0[%(n)s]}'.format(%(b)s) }}",
    "format-kw": "{{ '{v.%(n)s}'.format(v=%(b)s) }}",
    "format-map": "{{ '{v.%(n)s}'.format_map({'v': %(b)s}) }}",
    "markup-format": "{{ ('{0.%(n)s}'|safe).format(%(b)s) }}",
    "format-stored": "{%% set fm = '{0.%(n)s}'.format %%}{{ fm(%(b)s) }}",
    "format-via-attr": "{{ ('{0.%(n)s}'|attr('format'))(%(b)s) }}",
    "format-via-item": "{{ ('{0.%(n)s}'['format'])(%(b)s) }}",
    "format-nested": "{{ '{0.child.%(n)s}{0[itemkey]}'.format(o) }}",
    "map-attribute": "{{ [%(b)s]|map(attribute='%(n)s')|list }}",
    "map-dotted": "{{ [{'w': %(b)s}]|map(attribute='w.%(n)s')|list }}",
    "map-attr-filter": "{{ [%(b)s]|map('attr', '%(n)s')|list }}",
    "sort-attribute": "{{ [%(b)s, %(b)s]|sort(attribute='%(n)s')|length }}",
    "groupby": "{{ [%(b)s]|groupby('%(n)s')|list }}",
    "sum-attribute": "{{ [%(b)s]|sum(attribute='%(n)s', start='') }}",
    "join-attribute": "{{ [%(b)s]|join(',', attribute='%(n)s') }}",
    "selectattr": "{{ [%(b)s]|selectattr('%(n)s')|list|length }}",
    "selectattr-eq": "{{ [%(b)s]|selectattr('%(n)s', 'eq', '" + SENT + "1')|list|length }}",
    "rejectattr": "{{ [%(b)s]|rejectattr('%(n)s')|list|length }}",
    "unique-attribute": "{{ [%(b)s]|unique(attribute='%(n)s')|list|length }}",
    "min-attribute": "{{ ([%(b)s]|min(attribute='%(n)s')) is defined }}",
    "max-attribute": "{{ ([%(b)s]|max(attribute='%(n)s')) is defined }}",
    "loop-names": "{%% for k in ['%(n)s'] %%}{{ (%(b)s)[k] }}{%% endfor %%}",
    "macro": "{%% macro get(x) %%}{{ x.%(n)s }}{%% endmacro %%}{{ get(%(b)s) }}",
    "test-defined": "{{ (%(b)s).%(n)s is defined }}",
    "in-default": "{{ (%(b)s).%(n)s|default('DFLT') }}",
}


# calls of host-supplied bound format methods (the tracer o is the format argument)
HOST_FORMAT = {
    "direct": "{{ hf(o) }}",
    "dict-attr": "{{ hd.f(o) }}",
    "dict-item": "{{ hd['f'](o) }}",
    "list-item": "{{ hl[0](o) }}",
    "tuple-item": "{{ ht[0](o) }}",
    "first-filter": "{{ (hl|first)(o) }}",
    "last-filter": "{{ (hl|last)(o) }}",
    "dict-get": "{{ hd.get('f')(o) }}",
    "dict-values": "{{ (hd.values()|list)[0](o) }}",
    "set-alias": "{% set g = hf %}{{ g(o) }}",
    "with-alias": "{% with g = hd.f %}{{ g(o) }}{% endwith %}",
    "loop-var": "{% for g in hl %}{{ g(o) }}{% endfor %}",
    "macro-arg": "{% macro m(g) %}{{ g(o) }}{% endmacro %}{{ m(hf) }}",
    "call-block": "{% call hf(o) %}x{% endcall %}",
    "star-args": "{{ hf(*[o]) }}",
    "format-map": "{{ hm({'x': o}) }}",
    "format-map-dstar": "{{ '{x._secret}|{x.pub}'.format(**{'x': o}) }}",
    "markup-format": "{{ hmk(o) }}",
    "default-filter": "{{ (missing_zz|default(hf))(o) }}",
    "cond": "{{ (hf if true else none)(o) }}",
    "namespace": "{% set ns = namespace(g=hf) %}{{ ns.g(o) }}",
    "map-attribute": "{{ ([hd]|map(attribute='f')|first)(o) }}",
    "public-control": "{{ hf(d.o) }}",
    # the UNBOUND format methods (the format string is an argument) and functools.partial of format methods
    "unbound-via-type": "{{ strT.format('{0._secret}|{0.pub}', o) }}",
    "unbound-map-via-type": "{{ strT.format_map('{x._secret}|{x.pub}', {'x': o}) }}",
    "unbound-direct": "{{ huf('{0._secret}|{0.pub}', o) }}",
    "unbound-map-direct": "{{ hufm('{x._secret}|{x.pub}', {'x': o}) }}",
    "unbound-attr-filter": "{{ (strT|attr('format'))('{0._secret}|{0.pub}', o) }}",
    "unbound-kwargs": "{{ huf('{v._secret}|{v.pub}', v=o) }}",
    "partial-bound": "{{ hpf(o) }}",
    "partial-unbound": "{{ hpuf(o) }}",
    "partial-format-map": "{{ hpm({'x': o}) }}",
    "markup-unbound-via-type": "{{ MarkupT.format(('{0._secret}|{0.pub}'|safe), o) }}",
    "markup-unbound-direct": "{{ hmuf(('{0._secret}|{0.pub}'|safe), o) }}",
}
