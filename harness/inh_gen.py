"""Inheritance hierarchies for C04 (also reused by C31): one Python structure that is printed
both as Jinja sources (for the real engine) and as a driver line (for the extracted model).

item     := ("e", kind, text) (include of a constant template / call block / filter block / with block write text,
            a block set writes nothing) | ("s", text) | ("v", var) | ("b", block) | ("u", k) | ("f", block) | ("l", var, [vals], [items])
template := {"name", "tops": [("i", item) | ("x", cond, target, style)], "blocks": {block: (scoped, required, [items])}}
            cond: None (root level), True / False (inside {% if cK %});  style: "const" | "dynname" | "dynobj"
hierarchy:= {"templates": [template...] (all of them go into the DictLoader), "chain": [names] (the
            templates the render actually walks through, first = rendered), "data": {...}}
"""
from __future__ import annotations

from markupsafe import Markup

BLOCK_IDS = {f"b{i}": i for i in range(1, 10)}
VAR_IDS = {"i": 101, "k": 102, "loop.index": 103, "x": 111, "y": 112, "lazy": 113}
TEXT_ALPHABET = "abcdefgXYZ0123456789[]()<>.,:;-_=+ "


def enc_str(s):
    return ".".join(str(ord(c)) for c in s) if s else "-"


def dec_str(s):
    return "" if s == "-" else "".join(chr(int(x)) for x in s.split("."))


# ---------------------------------------------------------------- printing as Jinja source
# intermediate frames between an enclosing loop and a block site: every kind of statement that opens a frame of its
# own (with or without assignments of its own) and lets the block's output through unchanged
WRAP_OPEN = {"if": "{% if 1 %}", "with": "{% with zw = 1 %}", "ifwith": "{% if 1 %}{% with zw = 1 %}",
             "filter": "{% filter safe %}", "forelse": "{% for zq in [] %}{% else %}",
             "call": "{% macro _mw() %}{{ caller() }}{% endmacro %}{% call _mw() %}",
             "setblock": "{% set zsb %}", "filterif": "{% filter safe %}{% if 1 %}",
             "withfilter": "{% with zw = 1 %}{% filter safe %}"}
WRAP_CLOSE = {"if": "{% endif %}", "with": "{% endwith %}", "ifwith": "{% endwith %}{% endif %}",
              "filter": "{% endfilter %}", "forelse": "{% endfor %}", "call": "{% endcall %}",
              "setblock": "{% endset %}{{ zsb }}", "filterif": "{% endif %}{% endfilter %}",
              "withfilter": "{% endfilter %}{% endwith %}"}
# a set block at the top level of a child is EXECUTED by design ("one can use set blocks toplevel even in extended
# templates"), so a block site inside it is called there and its errors surface: not a frame the model may skip
WRAPS = sorted(w for w in WRAP_OPEN if w != "setblock")


def src_items(items, blocks, out, wraps=None):
    for it in items:
        k = it[0]
        if k == "s":
            out.append(it[1])
        elif k == "v":
            out.append("{{ loop.index if loop is defined else '' }}" if it[1] == "loop.index" else "{{ %s }}" % it[1])
        elif k == "e":
            out.append(stmt_src(it[1], it[2]))
        elif k == "b":
            scoped, required, body = blocks[it[1]]
            wrap = (wraps or {}).get(it[1])
            out.append(WRAP_OPEN.get(wrap, ""))
            out.append("{%% block %s%s%s %%}" % (it[1], " scoped" if scoped else "", " required" if required else ""))
            src_items(body, blocks, out, wraps)
            out.append("{% endblock %}")
            out.append(WRAP_CLOSE.get(wrap, ""))
        elif k == "u":
            out.append("{{ super" + ".super" * it[1] + "() }}")
        elif k == "f":
            out.append("{{ self.%s() }}" % it[1])
        elif k == "l":
            out.append("{%% for %s in [%s] %%}" % (it[1], ", ".join(repr(v) for v in it[2])))
            src_items(it[3], blocks, out, wraps)
            out.append("{% endfor %}")
        else:
            raise AssertionError(it)


def aux_name(text):
    return "inc_" + "_".join(str(ord(c)) for c in text)


def stmt_src(kind, text):
    if kind in ("inc", "incw"):
        return "{%% include %r%s %%}" % (aux_name(text), " without context" if kind == "incw" else "")
    if kind == "call":
        return "{%% macro _mc() %%}<{{ caller() }}>{%% endmacro %%}{%% call _mc() %%}%s{%% endcall %%}" % text
    if kind == "filter":
        return "{%% filter default(%r, true) %%}{%% endfilter %%}" % text
    if kind == "filterb":
        return "{%% filter upper %%}%s{%% endfilter %%}" % text
    if kind == "with":
        return "{%% with zz = 1 %%}%s{%% endwith %%}" % text
    if kind == "set":
        return "{%% set zs %%}%s{%% endset %%}" % text
    if kind == "if":
        return "{%% if 1 %%}%s{%% endif %%}" % text
    if kind == "raw":
        return "{%% raw %%}%s{%% endraw %%}" % text
    if kind == "auto":
        return "{%% autoescape false %%}%s{%% endautoescape %%}" % text
    raise AssertionError(kind)


def stmt_text(kind, text):
    """what the statement writes when it is executed"""
    if kind == "call":
        return "<" + text + ">"
    if kind == "filterb":
        return text.upper()
    if kind == "set":
        return ""
    return text


def aux_templates(h):
    res = {}

    def walk(items, t):
        for it in items:
            if it[0] == "e" and it[1] in ("inc", "incw"):
                res[aux_name(it[2])] = it[2]
            elif it[0] == "l":
                walk(it[3], t)
    for t in h["templates"]:
        walk([top[1] for top in t["tops"] if top[0] == "i"], t)
        for sc, rq, body in t["blocks"].values():
            walk(body, t)
    return res


def source(t, index):
    out = []
    nx = 0
    for top in t["tops"]:
        if top[0] == "i":
            src_items([top[1]], t["blocks"], out, t.get("wraps"))
        else:
            _, cond, target, style = top
            nx += 1
            if style == "const":
                e = "{%% extends %r %%}" % target
            else:
                e = "{%% extends lay_%s_%d %%}" % (t["name"], nx)
            if cond is None:
                out.append(e)
            else:
                out.append("{%% if cnd_%s_%d %%}%s{%% endif %%}" % (t["name"], nx, e))
    return "".join(out)


def extends_data(h, env=None):
    """the data entries the dynamic / conditional extends statements read"""
    d = {}
    for t in h["templates"]:
        nx = 0
        for top in t["tops"]:
            if top[0] == "x":
                nx += 1
                _, cond, target, style = top
                if cond is not None:
                    d["cnd_%s_%d" % (t["name"], nx)] = cond
                if style == "dynname":
                    d["lay_%s_%d" % (t["name"], nx)] = target
                elif style == "dynobj":
                    d["lay_%s_%d" % (t["name"], nx)] = ("@template", target)
    return d


UNI_IDENT = {"b1": "bä1", "b2": "βλοκ2", "b3": "б3", "b4": "b４", "b5": "ｂ5", "f1": "fü1", "f2": "μ2", "m1": "mö1",
             "m2": "м2", "q1": "q١", "q2": "ｑ2", "_mc": "_mç", "_mw": "_mω", "zw": "zŵ", "zs": "zş", "zsb": "zşb", "zq": "zɋ"}


def unicodify(srcs, text=""):
    """the same template set with non-ASCII identifiers (block, macro, alias and variable names; several scripts,
    fullwidth forms that NFKC-normalise to other characters) and non-ASCII text; names keep being distinct"""
    import re
    pat = re.compile(r"(?<![\w.'])(" + "|".join(sorted(UNI_IDENT, key=len, reverse=True)) + r")(?![\w'])")

    def one(src):
        out = []
        for part in re.split(r"(\{[%{].*?[%}]\})", src):
            out.append(pat.sub(lambda m: UNI_IDENT[m.group(1)], part) if part.startswith(("{%", "{{")) else part)
        return "".join(out)

    def tag_self(src):
        return re.sub(r"self\.(b[1-5])\(", lambda m: "self." + UNI_IDENT[m.group(1)] + "(", src)
    return {n: tag_self(one(s)) + text for n, s in srcs.items()}


def sources(h):
    res = {t["name"]: source(t, i) for i, t in enumerate(h["templates"])}
    res.update(aux_templates(h))
    if h.get("unicode"):
        res = unicodify(res)
    return res


# ---------------------------------------------------------------- printing as a driver line
def enc_items(items, out):
    out.append(str(len(items)))
    for it in items:
        enc_item(it, out)


def enc_item(it, out):
    k = it[0]
    if k == "s":
        out += ["s", enc_str(it[1])]
    elif k == "e":
        out += ["e", enc_str(stmt_text(it[1], it[2]))]
    elif k == "v":
        out += ["v", str(VAR_IDS[it[1]])]
    elif k == "b":
        out += ["b", str(BLOCK_IDS[it[1]])]
    elif k == "u":
        out += ["u", str(it[1])]
    elif k == "f":
        out += ["f", str(BLOCK_IDS[it[1]])]
    elif k == "l":
        out += ["l", str(len(it[2]))]
        for idx, v in enumerate(it[2]):
            out += ["2", str(VAR_IDS[it[1]]), enc_str(v), str(VAR_IDS["loop.index"]), enc_str(str(idx + 1))]
        enc_items(it[3], out)


def enc_template(t, out):
    out.append(str(len(t["tops"])))
    for top in t["tops"]:
        if top[0] == "i":
            out.append("i")
            enc_item(top[1], out)
        else:
            out.append({None: "x0", True: "x1", False: "x2"}[top[1]])
    out.append(str(len(t["blocks"])))
    for n, (sc, rq, body) in t["blocks"].items():
        out += [str(BLOCK_IDS[n]), "1" if sc else "0", "1" if rq else "0"]
        enc_items(body, out)


def model_line(h, fuel=64, extra=None):
    by = {t["name"]: t for t in h["templates"]}
    out = [str(fuel)]
    mv = [(VAR_IDS[k], str(v)) for k, v in dict(h["data"], **(extra or {})).items() if k in VAR_IDS]
    out.append(str(len(mv)))
    for k, v in mv:
        out += [str(k), enc_str(v)]
    out.append(str(len(h["chain"])))
    for n in h["chain"]:
        enc_template(by[n], out)
    return " ".join(out)


# ---------------------------------------------------------------- the real engine
ENV_KINDS = ["plain", "async", "autoescape", "sandbox", "async+autoescape", "custom"]
# what the custom context class of the "custom" environment resolves by itself (for the model: one more variable)
CUSTOM_EXTRA = {"lazy": "LZ"}


def custom_environment_class(jinja2):
    """an environment with every documented extension point overridden in a behaviour-preserving way, except that its
    context class resolves one more name by itself: context_class, template_class, code_generator_class, concat,
    undefined, finalize"""
    from jinja2.compiler import CodeGenerator
    from jinja2.runtime import Context, Undefined

    class LazyContext(Context):
        def resolve_or_missing(self, key):
            if key == "lazy":
                return "LZ"
            return super().resolve_or_missing(key)

    class MyTemplate(jinja2.Template):
        pass

    class MyGenerator(CodeGenerator):
        pass

    class MyUndefined(Undefined):
        pass

    class CustomEnvironment(jinja2.Environment):
        context_class = LazyContext
        template_class = MyTemplate
        code_generator_class = MyGenerator
        concat = staticmethod(lambda seq: "".join(list(seq)))
    return CustomEnvironment, MyUndefined


def relativize(h, srcs):
    """the same hierarchy laid out in nested directories (t0, s1/t1, s1/s2/t2, ...) for an environment whose
    join_path resolves './x' relative to the REFERRING template: constant extends targets are written relative to the
    template that contains them; returns (sources, name of the rendered template, data for dynamic extends)"""
    import re
    order = [t["name"] for t in h["templates"]]
    path = {}
    for i, n in enumerate(order):
        path[n] = "/".join(["s%d" % j for j in range(1, i + 1)] + [n])
    new = {}
    for n, src in srcs.items():
        if n not in path:
            new[n] = src
            continue
        i = order.index(n)

        def rel(m, i=i):
            tgt = m.group(2)
            if tgt in path and order.index(tgt) > i:
                return m.group(1) + repr("./" + "/".join(["s%d" % j for j in range(i + 1, order.index(tgt) + 1)] + [tgt]))
            return m.group(1) + repr(path.get(tgt, tgt))
        new[path[n]] = re.sub(r"(\{% extends )'([^']*)'", rel, src)
    xdata = {}
    for k, v in extends_data(h).items():
        if isinstance(v, tuple):
            xdata[k] = (v[0], path.get(v[1], v[1]))
        elif isinstance(v, str):
            xdata[k] = path.get(v, v)
        else:
            xdata[k] = v
    return new, path[h["chain"][0]], xdata


def make_env(jinja2, loader, kind="plain", **kw):
    """the configuration axes C04's text does not exclude: sync / async rendering, autoescaping, sandbox, overridden
    extension points"""
    if kind == "relpath":
        import posixpath

        class RelEnv(jinja2.Environment):
            def join_path(self, template, parent):
                if template.startswith("./"):
                    return posixpath.normpath(posixpath.join(posixpath.dirname(parent), template))
                return template
        return RelEnv(loader=loader, **kw)
    if kind == "custom":
        cls, undef = custom_environment_class(jinja2)
        return cls(loader=loader, undefined=undef, finalize=lambda v: v, **kw)
    if kind == "sandbox":
        from jinja2.sandbox import SandboxedEnvironment
        return SandboxedEnvironment(loader=loader, **kw)
    return jinja2.Environment(loader=loader, enable_async="async" in kind, autoescape="autoescape" in kind, **kw)


def real_render(jinja2, h, want_blocks=False, srcs=None, env=None, kind="plain", history=False):
    return real_render_src(jinja2, srcs if srcs is not None else (None if env is not None else sources(h)),
                           h["chain"][0], h["data"], extends_data(h), want_blocks, env, kind, history)


def real_render_src(jinja2, srcs, main, data, xdata, want_blocks=False, env=None, kind="plain", history=False):
    from jinja2 import exceptions as X
    if env is None:
        env = make_env(jinja2, jinja2.DictLoader(srcs), kind)
    data = dict(data)
    blocks = None
    if history:
        # the same (cached) Template objects rendered before with every condition flipped: nothing of that render
        # may survive into the one that is judged
        try:
            d0 = dict(data)
            for k, v in xdata.items():
                d0[k] = (not v) if isinstance(v, bool) else (env.get_template(v[1]) if isinstance(v, (tuple, list)) else v)
            env.get_template(main).render(d0)
        except Exception:  # noqa
            pass
    try:
        for k, v in xdata.items():
            data[k] = env.get_template(v[1]) if isinstance(v, (tuple, list)) else v
        t = env.get_template(main)
        if want_blocks:
            c = t.new_context(data)
            out = "".join(t.root_render_func(c))
            blocks = {n: [f.__globals__["name"] for f in st] for n, st in c.blocks.items()}
        else:
            out = t.render(data)
        return "O " + enc_str(out), blocks
    except X.UndefinedError:
        return "E Undefined", None
    except X.TemplateRuntimeError as e:
        m = str(e)
        if m.startswith("Required block"):
            return "E Required", None
        if "extended multiple times" in m:
            return "E Multiple", None
        return "X:TemplateRuntimeError:" + m[:60], None
    except X.TemplateNotFound:
        return "E NotFound", None
    except RecursionError:
        return "E Fuel", None
    except Exception as e:  # noqa: any other class is a behaviour the model does not have
        return "X:" + type(e).__name__ + ":" + str(e)[:60], None


# ---------------------------------------------------------------- classification of a hierarchy
def features(h):
    f = set()
    by = {t["name"]: t for t in h["templates"]}

    def walk(items, t, inloop, where):
        for it in items:
            if it[0] == "b":
                sc, rq, body = t["blocks"][it[1]]
                if inloop:
                    f.add("block-in-loop")
                    if where == "post":
                        f.add("child-post-loop-block")
                if sc:
                    f.add("scoped")
                if rq:
                    f.add("required")
                if where in ("blk", "blk-nested"):
                    f.add("nested-block")
                walk(body, t, False, "blk")
            elif it[0] == "e":
                f.add("stmt-" + it[1])
                if where == "post":
                    f.add("child-post-stmt-" + it[1])
            elif it[0] == "u":
                f.add("super" if it[1] == 0 else "super.super")
            elif it[0] == "f":
                f.add("self")
            elif it[0] == "l":
                walk(it[3], t, True, where)
            elif it[0] == "v":
                f.add("var")

    for idx, n in enumerate(h["chain"]):
        t = by[n]
        seen_ext = False
        nexec = 0
        for top in t["tops"]:
            if top[0] == "x":
                if top[1] is not None:
                    f.add("conditional-extends")
                if top[3] != "const":
                    f.add("dynamic-extends")
                if top[1] in (None, True):
                    nexec += 1
                    seen_ext = True
            else:
                if not seen_ext and any(x[0] == "x" for x in t["tops"]) and idx < len(h["chain"]) - 1:
                    f.add("pre-extends-content")
                walk([top[1]], t, False, "post" if seen_ext else "top")
        if nexec > 1:
            f.add("multiple-extends")
    f.add("depth%d" % len(h["chain"]))
    return f


def required_positions(h):
    """(chain index of the most-derived definition, is it required) per block name"""
    by = {t["name"]: t for t in h["templates"]}
    res = {}
    for idx, n in enumerate(h["chain"]):
        for b, (sc, rq, body) in by[n]["blocks"].items():
            res.setdefault(b, (idx, rq))
    return res


# ---------------------------------------------------------------- random hierarchies
class HGen:
    def __init__(self, rng, max_depth=4, max_names=5):
        self.r = rng
        self.max_depth = max_depth
        self.max_names = max_names

    def text(self):
        r = self.r
        return "".join(r.choice(TEXT_ALPHABET) for _ in range(r.randint(1, 3)))

    def stmt(self):
        r = self.r
        kind = r.choice(["inc", "inc", "incw", "call", "filter", "filterb", "with", "set", "if", "raw", "auto"])
        return ("e", kind, "".join(r.choice("abcxyz0123456789") for _ in range(r.randint(1, 2))))

    def body(self, t, names, pending, nest, inloop, lvl):
        """items of a block body / loop body; may place the definitions of some pending blocks"""
        r = self.r
        items = []
        for _ in range(r.randint(0, 3)):
            k = r.random()
            if k < 0.24:
                items.append(("s", self.text()))
            elif k < 0.30:
                items.append(self.stmt())
            elif k < 0.40:
                items.append(("v", r.choice(["i", "k", "x", "y", "loop.index", "loop.index", "lazy"])))
            elif k < 0.62:
                items.append(("u", r.choice([0, 0, 0, 0, 1, 1, 2])))
            elif k < 0.72:
                items.append(("f", r.choice(names)))
            elif k < 0.84 and pending and nest < 3:
                items.append(self.place(t, names, pending, nest + 1, inloop, lvl))
            elif k < 0.93 and not inloop:
                v = r.choice(["i", "k"])
                vals = [r.choice(["1", "2", "q", ""]) for _ in range(r.randint(0, 3))]
                items.append(("l", v, vals, self.body(t, names, pending, nest, True, lvl) or [("v", v)]))
            else:
                items.append(("s", self.text()))
        return items

    def place(self, t, names, pending, nest, inloop, lvl):
        r = self.r
        b = pending.pop(r.randrange(len(pending)))
        required = r.random() < 0.12
        scoped = r.random() < (0.6 if inloop else 0.15)
        if required:
            body = [] if r.random() < 0.7 else [("s", " " * r.randint(1, 2))]
        else:
            body = [("s", b[1:] + "abcdef"[lvl % 6])] + self.body(t, names, pending, nest, False, lvl)
        t["blocks"][b] = (scoped, required, body)
        if r.random() < 0.4:
            # the site sits one or two statements deep (if / with) instead of directly in the enclosing body
            t.setdefault("wraps", {})[b] = r.choice(WRAPS)
        return ("b", b)

    def template(self, name, lvl, names, parent, is_last):
        r = self.r
        t = {"name": name, "tops": [], "blocks": {}}
        pending = [n for n in names if r.random() < (0.8 if is_last else 0.55)]
        r.shuffle(pending)

        def top_items(n_max, where):
            for _ in range(r.randint(0, n_max)):
                k = r.random()
                if k < 0.45 and pending:
                    t["tops"].append(("i", self.place(t, names, pending, 1, False, lvl)))
                elif k < 0.52:
                    t["tops"].append(("i", ("s", self.text())))
                elif k < 0.6:
                    t["tops"].append(("i", self.stmt()))
                elif k < 0.7:
                    t["tops"].append(("i", ("f", r.choice(names))))
                elif k < 0.75:
                    t["tops"].append(("i", ("v", r.choice(["x", "y", "i"]))))
                elif k < 0.9:
                    v = r.choice(["i", "k"])
                    vals = [r.choice(["1", "2", "q"]) for _ in range(r.randint(0, 3))]
                    t["tops"].append(("i", ("l", v, vals, self.body(t, names, pending, 1, True, lvl) or [("v", v)])))
                else:
                    t["tops"].append(("i", ("u", 0)))

        executed = False
        if parent is not None:
            if r.random() < 0.15:
                top_items(2, "pre")
            k = r.random()
            style = "const" if r.random() < 0.75 else r.choice(["dynname", "dynname", "dynobj"])
            if k < 0.07:
                t["tops"].append(("x", False, parent, style))
            elif k < 0.25:
                t["tops"].append(("x", True, parent, style))
                executed = True
            else:
                t["tops"].append(("x", None, parent, style))
                executed = True
            if r.random() < 0.06:
                top_items(1, "post")
                c = r.choice([None, True, False, False])
                t["tops"].append(("x", c, parent, "const"))
                executed = executed or c is not False
        elif r.random() < 0.02:
            t["tops"].append(("x", r.choice([None, True]), "missing", "const"))
        top_items(4 if parent is None else 3, "post")
        # every remaining block is defined at the top level (in a child: after the extends)
        while pending:
            if r.random() < 0.25:
                v = r.choice(["i", "k"])
                t["tops"].append(("i", ("l", v, [r.choice(["1", "2"]) for _ in range(r.randint(1, 2))],
                                  [self.place(t, names, pending, 1, True, lvl)])))
            else:
                t["tops"].append(("i", self.place(t, names, pending, 1, False, lvl)))
        return t, executed

    def hierarchy(self):
        r = self.r
        depth = r.randint(1, self.max_depth)
        names = [f"b{i}" for i in range(1, r.randint(1, self.max_names) + 1)]
        tnames = [f"t{i}" for i in range(depth)]
        templates = []
        chain = []
        alive = True
        for lvl in range(depth):
            parent = tnames[lvl + 1] if lvl + 1 < depth else None
            t, executed = self.template(tnames[lvl], lvl, names, parent, lvl == depth - 1)
            templates.append(t)
            if alive:
                chain.append(t["name"])
                # the chain goes on iff the first extends that executes exists
                alive = any(top[0] == "x" and top[1] in (None, True) for top in t["tops"]) and parent is not None
        data = {}
        if r.random() < 0.8:
            # value kinds: str, a str subclass (Markup), an int: all print as their text
            data["x"] = r.choice(["X", "X", Markup("Xm"), 7])
        if r.random() < 0.3:
            data["y"] = "Yy"
        if r.random() < 0.3:
            data["i"] = "I"
        h = {"templates": templates, "chain": chain, "data": data}
        if r.random() < 0.2:
            h["unicode"] = True      # non-ASCII identifiers and text (printing only; the model works on name ids)
        return h
