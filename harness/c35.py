"""C35 — errors point at the template line that caused them.

proof : Properties/C35.v (debug_info_sound over every write/newline trace, bookkeeping invariant,
        token_lines)
tie   : T5    gen/dbg_translate.py turns the current source of CodeGenerator.write / newline / writeline, the
        bookkeeping fields' initial values and Template.get_corresponding_lineno into terms of Lib/DbgPy; the
        generated build/C35/Gen_dbg.v proves  interpreted source = Model.Dbg step / corresponding  for all
        states and arguments (and checks that nothing else assigns the bookkeeping fields);
        K-gen  the REAL code generator's write / newline calls are recorded from outside (a
        subclass installed as environment.code_generator_class; no source hook) for every
        generated template and replayed through the extracted model: code line of every write,
        the final debug_info pairs (== Template._debug_info), get_corresponding_lineno of every
        code line; the theorem's reading is applied to the real mapping (every statement written
        for a node maps back to node.lineno).
oracle: K  a raising call (or a malformed token) on a known line of a generated template set
        (nesting: if / for / macro / call / block / with / filter / set-block, include, extends +
        super, import; line breaks \\n, \\r\\n, \\r; trim_blocks / lstrip_blocks; `-` modifiers;
        multi-line tags, comments, raw blocks above it): the innermost template frame of
        traceback.extract_tb is (that template's file, that line); TemplateSyntaxError.lineno /
        .name and its rewritten traceback name the offending token's line.
"""
import traceback

from . import lib

RULE = ("generated template sets (single / include / extends+super / import) of 3..40 lines with random nesting and "
        "exactly one marker on a known line: a raising call (`{{ boom() }}`, `{% if boom() %}`, `{% for .. in boom() %}`, "
        "`{% set z = boom() %}`) or a malformed token (unknown tag, junk after expression, bad character, unclosed "
        "string, empty condition, offending token on the second line of a multi-line tag); line break style in "
        "{LF, CRLF, CR}, trim_blocks x lstrip_blocks x keep_trailing_newline x enable_async random, autoescape regions and "
        "filtered loops (try/finally in the generated code) with code after the marker, `-` modifiers on random tags; "
        "distinct = (sources, options); non-trivial = the marker is nested at depth >= 1 or below a multi-line "
        "construct. K-gen: every template of every set that compiles, events recorded from the real generator; "
        "non-trivial = at least 3 debug pairs.")


class Boom(Exception):
    pass


def boom(*a, **k):
    raise Boom("marker")


# ------------------------------------------------------------------------------ generator
class Gen:
    def __init__(self, rng):
        self.rng = rng
        self.opts = {}
        self.k = 0
        self.depth_of_marker = 0
        self.multiline_above = False

    def fresh(self):
        self.k += 1
        return self.k

    def filler(self, in_macro):
        r = self.rng
        if self.opts.get("line_statement_prefix") and r.random() < 0.3:
            self.multiline_above = True
            k = self.fresh()
            return r.choice([["%% set lsv@ = 1".replace("@", str(k)), "%# a line comment"],
                             ["%% if true", "ls text {{ 1 }}", "%% endif"],
                             ["%% for lsi@ in range(2)".replace("@", str(k)), "x", "%% endfor"]])
        c = r.randint(0, 9)
        if c == 0:
            return ["plain text"]
        if c == 1:
            return ["value {{ 1 + 1 }} and {{ 'x'|upper }}"]
        if c == 2:
            self.multiline_above = True
            return ["{# a comment", "   over two lines #}"]
        if c == 3:
            self.multiline_above = True
            return ["{{ [1,", "    2,", "    3]|length }}"]
        if c == 4:
            self.multiline_above = True
            v = r.randint(0, 3)
            if v == 0:
                return ["{% raw %}", "{{ not", "a tag {% %}", "{% endraw %}"]
            if v == 1:      # the opening tag swallows the line breaks after it
                return ["{% raw -%}", "", "", "{{ not a tag", "{% endraw %}"]
            if v == 2:      # the opening tag is written over several lines
                return ["{%", "  raw", "%}", "{{ not a tag", "{%", " endraw %}"]
            return ["{%- raw -%}", "", "x {% %}", "", "{%- endraw -%}", ""]
        if c == 5:
            return ["{% set v@ = 3 %}".replace("@", str(self.fresh()))]
        if c == 6:
            return [""]
        if c == 7:
            return ["   indented {{ 2 }}   "]
        if c == 8:
            self.multiline_above = True
            return ["{% if true and", "      not false %}yes{% endif %}"]
        return ["{% for j in range(2) %}{{ j }}{% endfor %}"]

    def body(self, depth, marker, in_macro=False, allow_block=True):
        """-> lines; if marker is not None exactly one marker line is placed (returns its index via self.mark)"""
        r = self.rng
        n = r.randint(1, 3)
        slot = r.randrange(n) if marker is not None else -1
        out = []
        for i in range(n):
            if i == slot:
                out += self.construct(depth, marker, in_macro, allow_block)
            elif r.random() < 0.7:
                out += self.filler(in_macro)
            else:
                out += self.construct(depth, None, in_macro, allow_block)
        return out

    def construct(self, depth, marker, in_macro, allow_block):
        r = self.rng
        if depth <= 0 or (marker is not None and r.random() < 0.25) or (marker is None and r.random() < 0.4):
            if marker is None:
                return self.filler(in_macro)
            self.depth_of_marker = self.max_depth - depth
            return [("MARK", m) for m in marker]      # resolved by the caller
        kinds = ["if", "for", "macro", "call", "with", "filter", "setblock", "ifelse", "autoescape", "forif"]
        if allow_block and not in_macro:
            kinds.append("block")
        kind = r.choice(kinds)
        k = self.fresh()
        inner = lambda **kw: self.body(depth - 1, marker, **kw)   # noqa: E731
        if kind == "if":
            return ["{% if true %}"] + inner(in_macro=in_macro, allow_block=allow_block) + ["{% endif %}"]
        if kind == "ifelse":
            return (["{% if false %}", "never", "{% elif 1 == 1 %}"] + inner(in_macro=in_macro, allow_block=allow_block)
                    + ["{% else %}", "never", "{% endif %}"])
        if kind == "for":
            return (["{% for i@ in range(1) %}".replace("@", str(k))] + inner(in_macro=in_macro, allow_block=False)
                    + ["{% else %}", "empty", "{% endfor %}"])
        if kind == "autoescape":      # a region the compiler protects with try/finally, with code after the body
            return (["{% autoescape " + r.choice(["true", "false"]) + " %}"] + inner(in_macro=in_macro, allow_block=False)
                    + ["{{ 1 + range(2)|length }}", "{{ 'tail'|upper }}", "{% endautoescape %}"])
        if kind == "forif":           # a filtered loop (async environments close the filter generator in a finally)
            return (["{% for f@ in range(3) if f@ == 1 %}".replace("@", str(k))] + inner(in_macro=in_macro, allow_block=False)
                    + ["{{ f@ + 1 }}".replace("@", str(k)), "{{ range(2)|length }}", "{% endfor %}"])
        if kind == "macro":
            return (["{% macro m@(a=1) %}".replace("@", str(k))] + inner(in_macro=True, allow_block=False)
                    + ["{% endmacro %}", "before {{ m@() }} after".replace("@", str(k))])
        if kind == "call":
            return (["{% macro w@() %}[{{ caller() }}]{% endmacro %}".replace("@", str(k)), "{% call w@() %}".replace("@", str(k))]
                    + inner(in_macro=True, allow_block=False) + ["{% endcall %}"])
        if kind == "with":
            return ["{% with wv@ = 1 %}".replace("@", str(k))] + inner(in_macro=in_macro, allow_block=allow_block) + ["{% endwith %}"]
        if kind == "filter":
            return ["{% filter upper %}"] + inner(in_macro=in_macro, allow_block=False) + ["{% endfilter %}"]
        if kind == "setblock":
            return ["{% set cap@ %}".replace("@", str(k))] + inner(in_macro=in_macro, allow_block=False) + ["{% endset %}", "{{ cap@ }}".replace("@", str(k))]
        if kind == "block":
            return ["{% block b@ %}".replace("@", str(k))] + inner(in_macro=in_macro, allow_block=False) + ["{% endblock %}"]
        raise AssertionError(kind)

    # (lines, index of the line that carries the raising expression)
    RUNTIME_MARKERS = [
        (["{{ boom() }}"], 0), (["text {{ boom() }} text"], 0), (["{% if boom() %}x{% endif %}"], 0),
        (["{% for q in boom() %}{% endfor %}"], 0), (["{% set z = boom() %}"], 0), (["{{ 1 + boom() + 2 }}"], 0),
        (["   {{ boom()|default(1) }}"], 0), (["{{ 'a' }}{{ boom() }}{{ 'b' }}"], 0),
        # expressions in places other than a print statement / a tag's main expression
        (["{% with wb = boom() %}x{% endwith %}"], 0), (["{% with wa = 1, wb = boom() %}", "x", "{% endwith %}"], 0),
        (["{% autoescape boom() %}x{% endautoescape %}"], 0),
        (["{% set capf | default(boom()) %}x{% endset %}"], 0), (["{% filter default(boom()) %}x{% endfilter %}"], 0),
        (["{% macro dm@(a=boom()) %}", "{{ a }}", "{% endmacro %}", "", "{{ dm@() }}"], 0),
        (["{% macro cw@(a) %}{{ caller() }}{% endmacro %}", "", "{% call cw@(boom()) %}", "x", "{% endcall %}"], 2),
        (["{% for q in [1] if boom() %}x{% endfor %}"], 0), (["{% for q in [1] %}", "{{ loop.index }}", "{% else %}", "{% endfor %}{% for r in boom() %}{% endfor %}"], 3),
        (["{% if false %}", "a", "{% elif boom() %}", "b", "{% endif %}"], 2),
        (["{% include boom() %}"], 0), (["{% import boom() as zz@ %}"], 0), (["{% from boom() import zq@ %}"], 0),
        (["{% include [boom(), 'x'] ignore missing %}"], 0),
        (["{% set sa@, sb@ = boom() %}"], 0), (["{{ 1 if boom() else 2 }}"], 0), (["{{ [1, 2][boom()] }}"], 0),
        (["{{ 'x'", "   ~ 'y' }}", "{{ boom() }}"], 2),
        # faults in the iterable expression / the filter / the else branch of every loop shape, with code on later lines
        (["{% for rq@ in boom() recursive %}", "{{ rq@ }}", "{{ 1 + range(2)|length }}", "{% endfor %}"], 0),
        (["{% for fq@ in boom() if fq@ %}", "{{ fq@ }}", "{{ range(2)|length }}", "{% endfor %}"], 0),
        (["{% for eq@ in boom() %}", "x", "{% else %}", "{{ range(2)|length }}", "{% endfor %}"], 0),
        (["{% for tq@ in [1, 2] if boom() %}", "{{ tq@ }}", "{{ range(2)|length }}", "{% endfor %}"], 0),
        (["{% for rt@ in [1, 2] if boom() recursive %}", "{{ rt@ }}", "{{ range(2)|length }}", "{% endfor %}"], 0),
        (["{% for oq@ in [1] %}", "{% for iq@ in boom() recursive %}", "{{ iq@ }}{{ range(2)|length }}", "{% endfor %}", "{{ oq@ + 1 }}", "{% endfor %}"], 1),
        (["{% for zq@ in [] %}", "a", "{% else %}", "{{ boom() }}", "{{ range(2)|length }}", "{% endfor %}"], 3),
        (["{% for lq@ in [[1]] recursive %}", "{{ loop(boom()) }}", "{{ range(2)|length }}", "{% endfor %}"], 1),
        # extensions (i18n, do): expressions inside extension tags
        (["{% trans tu@=boom() %}hi {{ tu@ }}{% endtrans %}"], 0), (["{% trans tc@=1, tu@=boom() %}", "hi {{ tu@ }}", "{% endtrans %}"], 0),
        (["{% trans count=boom() %}one{% pluralize %}many {{ count }}{% endtrans %}"], 0),
        (["{% do boom() %}"], 0), (["{% do [1,", "  boom()] %}"], 0), (["{{ _('x') }}{{ gettext(boom()) }}"], 0),
    ]
    # constructs whose generated code raises TemplateRuntimeError by itself; the error belongs to the construct's line
    RTERROR_MARKERS = [
        (["{% set nsq@ = 1 %}", "{{ nsq@ }}", "", "{% set nsq@.x = 2 %}"], 3),
        (["{% set nsq@ = 1 %}", "", "{% set nsq@.x, other@ = 2, 3 %}", "{{ other@ }}"], 2),
        (["{% set nsb@ = 'text' %}", "{{ 1 }}", "{% set nsb@.x %}", "body {{ 1 + 1 }}", "{{ range(2)|length }}", "{% endset %}"], 2),
    ]
    # (lines, index of the line that carries the offending token)
    SYNTAX_MARKERS = [
        (["{% frobnicate %}"], 0), (["{{ a b }}"], 0), (["{{ a ? b }}"], 0), (['{{ "unclosed }}'], 0), (["{% if %}x{% endif %}"], 0),
        (["{{ foo(1,", "      2 3) }}"], 1), (["{% if a", "   b %}x{% endif %}"], 1), (["{{ 1 + }}"], 0), (["{% for %}"], 0),
        (["text {{ 1 2 }}"], 0), (["{% set %}"], 0), (["{{ [1, 2 }}"], 0),
        # errors raised by the code generator (TemplateAssertionError) and by extensions
        (["{{ zz|nofilterhere }}"], 0), (["{{ zz", "   |nofilterhere }}"], 1), (["{% filter nofilterhere %}x{% endfilter %}"], 0),
        (["{{ zz is notesthere }}"], 0), (["{{ [1]|select('odd')|map('nofilterhere2')|list|nofilterhere }}"], 0),
        (["{% block dup@ %}a{% endblock %}", "", "{% block dup@ %}b{% endblock %}"], 2),
        (["{% macro brk@() %}{% break %}{% endmacro %}"], 0), (["{% macro cnt@() %}", "{% continue %}", "{% endmacro %}"], 1),
        (["{% macro bad@(a, b=1, c) %}{% endmacro %}"], 0), (["{% from 'nowhere' import a, %}"], 0),
        (["{% trans %}{% if x %}{% endtrans %}"], 0), (["{% trans %}", "hello {{ user.name }}", "{% endtrans %}"], 1),
        (["{% trans %}a{% pluralize %}b{% endtrans %}"], 0), (["{% trans %}", "a", "{% pluralize nope %}", "b{% endtrans %}"], 2),
        (["{% do %}"], 0), (["{% set a.b.c = 1 %}"], 0), (["{% for loop.x in y %}{% endfor %}"], 0),
    ]

    def template(self, depth, marker_lines, mark_index, prelude=()):
        """-> (lines, marker line number 1-based or None)"""
        self.max_depth = depth
        lines = list(prelude)
        raw = self.body(depth, marker_lines, allow_block=True) if marker_lines is not None else self.body(depth, None)
        mark = None
        i = 0
        while i < len(raw):
            ln = raw[i]
            if isinstance(ln, tuple):
                if mark is None:
                    mark = len(lines) + 1 + mark_index
                lines.append(ln[1])
            else:
                lines.append(ln)
            i += 1
        return lines, mark

    def modifiers(self, lines, protect):
        """random `-` whitespace-control modifiers (never on the raw-block lines)"""
        r = self.rng
        out = []
        in_raw = False
        for i, ln in enumerate(lines):
            if "raw" in ln and "endraw" not in ln:
                in_raw = True
            if not in_raw and "raw" not in ln and r.random() < 0.25:
                if r.random() < 0.5:
                    ln = ln.replace("{% ", "{%- ", 1)
                if r.random() < 0.5 and ln.rstrip().endswith("%}"):
                    ln = ln.rstrip()[:-2] + "-%}"
                if r.random() < 0.3:
                    ln = ln.replace("{{ ", "{{- ", 1)
                if r.random() < 0.3 and ln.rstrip().endswith("}}"):
                    ln = ln.rstrip()[:-2] + "-}}"
            if "endraw" in ln:
                in_raw = False
            out.append(ln)
        return out

    def case(self):
        r = self.rng
        self.opts = {"trim_blocks": r.random() < 0.4, "lstrip_blocks": r.random() < 0.4, "keep_trailing_newline": r.random() < 0.3,
                     "enable_async": r.random() < 0.25, "optimized": r.random() < 0.8, "autoescape": r.random() < 0.3}
        if r.random() < 0.2:
            self.opts["line_statement_prefix"] = "%%"
            self.opts["line_comment_prefix"] = "%#"
        self.extra = {"env_class": r.choice(["plain", "plain", "sandboxed", "immutable", "native"]),
                      "entry": r.choice(["render", "render", "generate", "stream", "module"] + (["render_async", "generate_async"] if self.opts["enable_async"] else [])),
                      "history": r.choice(["none", "none", "twice", "bytecode-cache", "overlay", "twin-directories"])}
        self.k = 0
        self.multiline_above = False
        self.depth_of_marker = 0
        syntax = r.random() < 0.4
        rterror = (not syntax) and r.random() < 0.08
        if rterror:
            mlines, midx = r.choice(self.RTERROR_MARKERS)
            kk = str(self.fresh() + 800)
            mlines = [ln.replace("@", kk) for ln in mlines]
        elif syntax:
            mlines, midx = r.choice(self.SYNTAX_MARKERS)
            kk = str(self.fresh() + 700)
            mlines = [ln.replace("@", kk) for ln in mlines]
        else:
            mlines, midx = r.choice(self.RUNTIME_MARKERS)
            kk = str(self.fresh() + 900)
            mlines = [ln.replace("@", kk) for ln in mlines]
        shape = r.choice(["single", "single", "include", "extends-child", "extends-parent", "super", "import", "extends-expr"])
        if shape == "extends-expr" and (syntax or rterror):
            shape = "single"
        if not syntax and not rterror and r.random() < 0.04:
            shape, rterror = "extends-twice", True
        depth = r.randint(0, 3)
        T = {}
        if shape == "single":
            lines, mark = self.template(depth, mlines, midx)
            T["main"] = lines
            where = "main"
        elif shape == "extends-twice":       # a second {% extends %}: "extended multiple times" belongs to ITS line
            head, _ = self.template(r.randint(0, 1), None, 0)
            gap = self.filler(False) if r.random() < 0.7 else [""]
            mlines, midx = ["{% extends 'parent' %}"], 0
            T["main"] = head + ["{% extends 'parent' %}"] + gap + mlines + ["{% block xb %}x{% endblock %}"]
            T["parent"] = ["parent {% block xb %}p{% endblock %}"]
            mark = len(head) + 1 + len(gap) + 1
            where = "main"
        elif shape == "extends-expr":
            head, _ = self.template(r.randint(0, 1), None, 0)
            mlines, midx = ["{% extends boom() %}"], 0
            T["main"] = head + mlines + ["{% block xb %}x{% endblock %}"]
            mark = len(head) + 1
            where = "main"
        elif shape == "include":
            lines, mark = self.template(depth, mlines, midx)
            T["inc"] = lines
            main, _ = self.template(r.randint(0, 2), None, 0)
            pos = r.choice([0, len(main)])
            T["main"] = main[:pos] + ["{% include 'inc' %}"] + main[pos:]
            where = "inc"
        elif shape == "import":
            self.max_depth = depth
            inner = self.body(depth, mlines, in_macro=True, allow_block=False)
            lib_lines, mark = self.resolve(["lib text", "{% macro libm() %}"] + inner + ["{% endmacro %}"], midx)
            T["lib"] = lib_lines
            main, _ = self.template(r.randint(0, 2), None, 0)
            T["main"] = ["{% from 'lib' import libm %}"] + main + ["{{ libm() }}"]
            where = "lib"
        elif shape == "extends-child":
            self.max_depth = depth
            inner = self.body(depth, mlines, allow_block=False)
            child, mark = self.resolve(["{% extends 'parent' %}", "ignored text", "{% block content %}"] + inner + ["{% endblock %}"], midx)
            T["main"] = child
            p, _ = self.template(r.randint(0, 1), None, 0)
            T["parent"] = p + ["{% block content %}", "parent content", "{% endblock %}"] + ["tail"]
            where = "main"
        elif shape == "extends-parent":
            lines, mark = self.template(depth, mlines, midx)
            T["parent"] = ["{% block content %}", "parent content", "{% endblock %}"] + lines
            T["main"] = ["{% extends 'parent' %}", "{% block content %}", "child", "{% endblock %}"]
            where = "parent"
            mark = None if mark is None else mark + 3
        else:  # super
            self.max_depth = depth
            inner = self.body(depth, mlines, allow_block=False)
            parent, mark = self.resolve(["parent head", "{% block content %}"] + inner + ["{% endblock %}", "tail"], midx)
            T["parent"] = parent
            T["main"] = ["{% extends 'parent' %}", "{% block content %}", "child before", "{{ super() }}", "child after", "{% endblock %}"]
            where = "parent"
        nl = r.choice(["\n", "\n", "\r\n", "\r"])
        opts = self.opts
        srcs = {}
        for name, lines in T.items():
            if r.random() < 0.5:
                lines = self.modifiers(lines, None)
            srcs[name] = nl.join(lines) + (nl if r.random() < 0.7 else "")
        return {"templates": srcs, "options": opts, "newline": {"\n": "LF", "\r\n": "CRLF", "\r": "CR"}[nl], "kind": "rterror" if rterror else ("syntax" if syntax else "runtime"),
                "shape": shape, "where": where, "line": mark, "marker": mlines, "extra": self.extra,
                "nontrivial": self.depth_of_marker >= 1 or self.multiline_above}

    def resolve(self, raw, mark_index):
        lines, mark = [], None
        for ln in raw:
            if isinstance(ln, tuple):
                if mark is None:
                    mark = len(lines) + 1 + mark_index
                lines.append(ln[1])
            else:
                lines.append(ln)
        return lines, mark


# ------------------------------------------------------------------------------ real engine
EXTENSIONS = ["jinja2.ext.i18n", "jinja2.ext.do", "jinja2.ext.loopcontrols"]


def make_env(jinja2, case, recorder=None, bytecode_cache=None, loader=None):
    srcs = case["templates"]

    def load(name):
        if name in srcs:
            return srcs[name], "/tpl/" + name, lambda: True
        return None

    kind = case.get("extra", {}).get("env_class", "plain")
    if kind == "sandboxed":
        from jinja2.sandbox import SandboxedEnvironment as E
    elif kind == "immutable":
        from jinja2.sandbox import ImmutableSandboxedEnvironment as E
    elif kind == "native":
        from jinja2.nativetypes import NativeEnvironment as E
    else:
        E = jinja2.Environment
    env = E(loader=loader or jinja2.FunctionLoader(load), extensions=EXTENSIONS, bytecode_cache=bytecode_cache, **case["options"])
    env.install_null_translations(newstyle=False)
    env.globals["boom"] = boom      # a global: also visible inside imported macros
    if recorder is not None:
        env.code_generator_class = recorder
    return env


def memory_bytecode_cache(jinja2):
    class MemCache(jinja2.BytecodeCache):
        def __init__(self):
            self.store = {}

        def load_bytecode(self, bucket):
            if bucket.key in self.store:
                bucket.bytecode_from_string(self.store[bucket.key])

        def dump_bytecode(self, bucket):
            self.store[bucket.key] = bucket.bytecode_to_string()

    return MemCache()


def make_recorder(jinja2, store):
    from jinja2.compiler import CodeGenerator

    class Rec(CodeGenerator):
        def __init__(self, environment, name, filename, *a, **k):
            super().__init__(environment, name, filename, *a, **k)
            self._rec = []
            store.append((name, self._rec))

        def write(self, x):
            super().write(x)
            self._rec.append(("W", "\n" in x, self.code_lineno))

        def newline(self, node=None, extra=0):
            self._rec.append(("N", None if node is None else node.lineno, extra))
            super().newline(node, extra)

    return Rec


def run_entry(env, entry):
    import asyncio
    t = env.get_template("main")
    if entry == "generate":
        return "".join(str(x) for x in t.generate())
    if entry == "stream":
        return "".join(str(x) for x in t.stream())
    if entry == "module":
        if env.is_async:
            asyncio.run(t.make_module_async())
            return asyncio.run(t.render_async())
        t.make_module()
        return t.render()
    if entry == "render_async":
        return asyncio.run(t.render_async())
    if entry == "generate_async":
        async def collect():
            return "".join([str(x) async for x in t.generate_async()])
        return asyncio.run(collect())
    return t.render()


def observe(jinja2, case, recorder=None, env=None, root="/tpl/"):
    """-> dict(kind=..., template=..., line=..., tb=(file, line) or None); [root] = directory prefix of template files"""
    env = env or make_env(jinja2, case, recorder)
    try:
        out = run_entry(env, case.get("extra", {}).get("entry", "render"))
        return {"kind": "rendered", "text": str(out)[:60]}
    except Boom as e:
        frames = [f for f in traceback.extract_tb(e.__traceback__) if f.filename.startswith(root)]
        if not frames:
            return {"kind": "runtime", "tb": None}
        return {"kind": "runtime", "tb": (frames[-1].filename, frames[-1].lineno)}
    except jinja2.TemplateSyntaxError as e:
        frames = traceback.extract_tb(e.__traceback__)
        last = (frames[-1].filename, frames[-1].lineno) if frames else None
        return {"kind": "syntax", "name": e.name, "filename": e.filename, "line": e.lineno, "tb": last, "message": e.message}
    except Exception as e:  # noqa
        frames = [f for f in traceback.extract_tb(e.__traceback__) if f.filename.startswith(root)]
        return {"kind": "other:" + type(e).__name__, "message": str(e)[:100],
                "tb": (frames[-1].filename, frames[-1].lineno) if frames else None}


def observe_twin_directories(jinja2, case):
    """configuration + history with REAL files: the set is written, byte-identical, into two directories; two
    environments (FileSystemLoader on one directory each) share ONE bytecode cache; the first directory is rendered
    first.  Every error must name the file of the directory it was loaded from.  -> [(root, observation, filename ok)]"""
    import os
    import shutil
    import tempfile
    base = tempfile.mkdtemp(prefix="c35_twin_", dir=lib.BUILD)
    out = []
    try:
        bc = memory_bytecode_cache(jinja2)
        for d in ("dirA", "dirB"):
            root = os.path.join(base, d) + os.sep
            os.makedirs(root)
            for name, src in case["templates"].items():
                with open(root + name, "w", encoding="utf-8", newline="") as f:
                    f.write(src)
            env = make_env(jinja2, case, bytecode_cache=bc, loader=jinja2.FileSystemLoader(root))
            obs = observe(jinja2, case, env=env, root=root)
            names_ok = None
            try:
                names_ok = all(env.get_template(n).filename == root + n for n in case["templates"])
            except jinja2.TemplateSyntaxError:
                pass
            out.append((root, obs, names_ok))
    finally:
        shutil.rmtree(base, ignore_errors=True)
    return out


def observe_history(jinja2, case):
    """the same set observed after some history on the environment: a second render of the cached template, a
    template loaded from a shared bytecode cache by a second environment, an overlay of the environment"""
    h = case.get("extra", {}).get("history", "none")
    if h == "twice":
        env = make_env(jinja2, case)
        observe(jinja2, case, env=env)
        return observe(jinja2, case, env=env)
    if h == "bytecode-cache":
        bc = memory_bytecode_cache(jinja2)
        observe(jinja2, case, env=make_env(jinja2, case, bytecode_cache=bc))
        return observe(jinja2, case, env=make_env(jinja2, case, bytecode_cache=bc))
    if h == "overlay":
        env = make_env(jinja2, case)
        observe(jinja2, case, env=env)
        return observe(jinja2, case, env=env.overlay(cache_size=0))
    return None


def judge(case, obs, root="/tpl/"):
    want_file = root + case["where"]
    line = case["line"]
    if case["kind"] == "rterror":
        if obs["kind"] != "other:TemplateRuntimeError":
            return f"expected the construct to raise TemplateRuntimeError, observed {obs}"
        if obs["tb"] != (want_file, line):
            return f"TemplateRuntimeError is attributed to {obs['tb']}, the construct is at {(want_file, line)}"
        return None
    if case["kind"] == "runtime":
        if obs["kind"] != "runtime":
            return f"expected the marker call to raise, observed {obs}"
        if obs["tb"] != (want_file, line):
            return f"innermost template frame is {obs['tb']}, the raising construct is at {(want_file, line)}"
        return None
    if obs["kind"] == "other:TemplateRuntimeError" and any("nofilterhere" in m or "notesthere" in m for m in case["marker"]):
        # an unknown filter / test inside a branch that may never run is reported when (and where) it is reached
        if obs["tb"] != (want_file, line):
            return f"unknown filter/test reported at {obs['tb']}, the construct is at {(want_file, line)}"
        return None
    if obs["kind"] != "syntax":
        return f"expected a TemplateSyntaxError, observed {obs}"
    if obs["line"] != line or obs["name"] != case["where"]:
        return f"TemplateSyntaxError points at ({obs['name']}, line {obs['line']}), the offending token is at ({case['where']}, line {line})"
    if obs["tb"] != (want_file, line):
        return f"rewritten traceback of the syntax error ends at {obs['tb']}, expected {(want_file, line)}"
    return None


def signature(case):
    return "C35:%s:%s:%s:%s" % (case["kind"], case["shape"], case["newline"], "|".join(case["marker"]))


# ------------------------------------------------------------------------------ K-gen
def kgen_collect(acc, store, compiled_templates):
    """turn the recorded events of each template into a driver line (batched: one driver run per check)"""
    lines, items = acc
    for (name, rec), tmpl in zip(store, compiled_templates):
        evs, code_lines, node_writes = [], [], []
        pending_node = None
        bad_write = False
        first_write_done = False
        starts_line = False
        for r in rec:
            if r[0] == "N":
                evs.append("N:%s:%d" % ("-" if r[1] is None else r[1], r[2]))
                if r[1] is not None:
                    pending_node = r[1]
                starts_line = True
            else:
                evs.append("W")
                code_lines.append(r[2])
                bad_write = bad_write or r[1]
                if starts_line and first_write_done and pending_node is not None:
                    node_writes.append((r[2], pending_node))
                if starts_line:
                    first_write_done = True
                starts_line = False
        qs = sorted({c for c, _ in node_writes} | set(code_lines[-3:]))
        lines.append(" ".join(evs) + " | " + " ".join(map(str, qs)))
        items.append((name, tmpl, code_lines, node_writes, qs, bad_write))


def kgen_judge(ctx, acc):
    """replay the recorded events through the extracted model and compare"""
    lines, items = acc
    out = ctx.driver("dbg", lines) if lines else []
    for (name, tmpl, code_lines, node_writes, qs, bad_write), ln in zip(items, out):
        d, rest = ln[2:].split(" L ")
        l, c = rest.split(" C ")
        model_dbg = [tuple(map(int, x.split("="))) for x in d.split("&")] if d else []
        model_lines = [int(x) for x in l.split(",")] if l else []
        model_corr = dict(zip(qs, [int(x) for x in c.split(",")] if c else []))
        real_dbg = tmpl.debug_info
        real_corr = {q: tmpl.get_corresponding_lineno(q) for q in qs}
        case = {"template": name, "source": tmpl._verif_source}
        ctx.case(key=("kgen", tmpl._verif_source) if len(real_dbg) >= 3 else None,
                 sample={"template_source": tmpl._verif_source[:200], "debug_info": real_dbg[:8]} if len(real_dbg) >= 5 and len(ctx.samples) < 3 else None)
        ctx.count("kgen/template")
        # S on the real mapping: every statement written for a node maps back to its line
        why = None
        for cl, nodeline in node_writes:
            if real_corr[cl] != nodeline:
                why = f"code line {cl} was written for a node of template line {nodeline} but maps to {real_corr[cl]}"
                break
        if why:
            ctx.reject(dict(case, debug_info=real_dbg), why, "C35:kgen:" + tmpl._verif_source[:80])
        if bad_write:
            ctx.model_mismatch("hypothesis: write() argument contains a line break", case, "no line break", "line break", why)
        elif model_dbg != real_dbg or model_lines != code_lines or model_corr != real_corr:
            ctx.model_mismatch("K-gen line bookkeeping (model vs recorded generator / Template.debug_info)", case,
                               f"{model_dbg} {model_corr}", f"{real_dbg} {real_corr}", why)
        elif not why:
            ctx.validated()


def run(ctx):
    jinja2 = lib.use_repo_jinja()
    ctx.extra["rule"] = RULE
    ctx.assumptions += [
        "the strings handed to CodeGenerator.write contain no line break (checked on every recorded write)",
        "template line numbers are >= 1; the first write of a module is not made for a node (C35_first_write_refuted shows why it matters)",
        "debug.rewrite_traceback_stack / fake_traceback are not modelled: only the resulting traceback is compared",
    ]
    ctx.proof("C35")
    ctx.proof("C35lex")
    # T5 tie: the current source of write / newline / writeline / get_corresponding_lineno, translated into
    # Lib/DbgPy terms, is proved equal to the model functions for every state and argument
    import os
    import sys
    sys.path.insert(0, os.path.join(lib.ROOT, "gen"))
    import dbg_translate
    try:
        ok, out = ctx.coq_obligation("Gen_dbg", dbg_translate.emit(lib.SRC), n_obligations=5)
        if ok:
            ctx.trusted.append("Gen_dbg (source = model equations): " + " ".join(out.split()))
    except dbg_translate.Untranslatable as e:
        ctx.obligations += 5
        ctx.obligation_names.append("Gen_dbg (regenerated, 5)")
        ctx.broken.append(f"translator gen/dbg_translate.py: the bookkeeping source left the translatable vocabulary: {e}")
    import dbg_parse_translate
    try:
        ok, out = ctx.coq_obligation("Gen_dbgparse", dbg_parse_translate.emit(lib.SRC), n_obligations=2)
        if ok:
            ctx.trusted.append("Gen_dbgparse (expect / fail source = model equations): " + " ".join(out.split()))
    except dbg_parse_translate.Untranslatable as e:
        ctx.obligations += 2
        ctx.obligation_names.append("Gen_dbgparse (regenerated, 2)")
        ctx.broken.append(f"translator gen/dbg_parse_translate.py: TokenStream.expect / Parser.fail left the translatable vocabulary: {e}")
    n = ctx.size(2500, 25000)
    acc = ([], [])
    for idx in range(n):
        g = Gen(ctx.rng)
        case = g.case()
        store = []
        Rec = make_recorder(jinja2, store)
        try:
            obs = observe(jinja2, case, Rec)
        except Exception as e:  # noqa
            obs = {"kind": "harness-error:" + type(e).__name__, "message": str(e)[:100]}
        why = judge(case, obs)
        pub = {k: case[k] for k in ("templates", "options", "newline", "kind", "shape", "where", "line", "marker", "extra")}
        ctx.case(sample=dict(pub, observed=obs) if (case["nontrivial"] and len(ctx.samples) < 4 and idx % 97 == 0) else None,
                 key=("case", repr(sorted(case["templates"].items())), repr(sorted(case["options"].items()))) if case["nontrivial"] else None)
        ctx.count(f"{case['kind']}/{case['shape']}/{case['newline']}")
        ctx.count("env/" + case["extra"]["env_class"])
        ctx.count("entry/" + case["extra"]["entry"])
        if why:
            ctx.reject(dict(pub, observed=obs), why, signature(case))
        else:
            ctx.validated()
        try:
            obs2 = observe_history(jinja2, case)
        except Exception as e:  # noqa
            obs2 = {"kind": "harness-error:" + type(e).__name__, "message": str(e)[:100]}
        if case["extra"]["history"] == "twin-directories":
            try:
                twins = observe_twin_directories(jinja2, case)
            except Exception as e:  # noqa
                twins = [("?", {"kind": "harness-error:" + type(e).__name__, "message": str(e)[:100]}, None)]
            for root, obs_t, names_ok in twins:
                ctx.case(key=("twin", idx, root[-5:]))
                ctx.count("history/twin-directories")
                why_t = judge(case, obs_t, root) if root != "?" else str(obs_t)
                if not why_t and names_ok is False:
                    why_t = "Template.filename does not name the file the template was loaded from"
                if why_t and not why:
                    ctx.reject(dict(pub, observed=obs_t, history="twin-directories", directory=root[-5:]),
                               "same-name same-source templates in two directories sharing a bytecode cache: " + why_t.replace(root, "<" + root[-5:-1] + ">/"),
                               signature(case) + ":history:twin-directories")
                elif not why_t:
                    ctx.validated()
        if obs2 is not None:
            ctx.case(key=("history", case["extra"]["history"], idx))
            ctx.count("history/" + case["extra"]["history"])
            why2 = judge(case, obs2)
            if why2 and not why:
                ctx.reject(dict(pub, observed=obs2, history=case["extra"]["history"]), "after history: " + why2,
                           signature(case) + ":history:" + case["extra"]["history"])
            elif not why2:
                ctx.validated()
        # K-gen on every template of the set that was compiled
        env2 = make_env(jinja2, case, Rec)
        store.clear()
        tmpls = []
        for name in sorted(case["templates"]):
            k = len(store)
            try:
                t = env2.get_template(name)
            except jinja2.TemplateSyntaxError:
                del store[k:]
                continue
            t._verif_source = case["templates"][name]
            if len(store) == k + 1:
                tmpls.append(t)
            else:
                del store[k:]
        kgen_collect(acc, list(store), tmpls)
    kgen_judge(ctx, acc)


def replay(ctx, data):
    jinja2 = lib.use_repo_jinja()
    case = data.get("case")
    if data.get("kind") != "failing-input" or case is None or "templates" not in case:
        print("replay: names a broken theorem/correspondence:", data.get("broken"))
        return run(ctx)
    obs = observe(jinja2, case)
    why = judge(case, obs)
    if case.get("history") == "twin-directories" or case.get("extra", {}).get("history") == "twin-directories":
        for root, obs_t, names_ok in observe_twin_directories(jinja2, case):
            w = judge(case, obs_t, root) or (None if names_ok is not False else "Template.filename names another file")
            print("twin", root[-5:], obs_t, "->", w)
            why = why or w
    for name, src in case["templates"].items():
        print(f"--- {name}\n" + "\n".join(f"{i + 1:3d} {ln!r}" for i, ln in enumerate(__import__('re').split(r"\r\n|\r|\n", src))))
    print("expected:", (case["where"], case["line"]), "observed:", obs)
    ctx.case()
    if why:
        ctx.reject(case, why, signature(case))
