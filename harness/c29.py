"""C29 — rendering is repeatable and does not modify its inputs.

proof:  Properties/C29.v (frame_noninterference: inputs unchanged + every interleaving gives each
        render its isolated result; repeatable; order_independent; thread_independent; witness
        that an accumulate-into-argument step breaks it)
T3   :  gen/frames_footprint.py re-reads every attribute / subscript store, augmented assignment and
        mutator call of runtime / environment / filters / tests / async_utils / utils (and of the
        generated code of this run's templates) with the root of the access path classified ->
        obligation table_footprint_ok (vm_compute) + liveness of the allow-lists.
K-rt :  new_context's copying (shared / locals), Template._module filled once and reused.
O    :  deep snapshots of data / env.globals / template.globals before and after every render;
        repeated renders of a template set in random orders on one environment against the
        isolated render on a fresh environment; 8-16 threads with sys.setswitchinterval(1e-6).
"""
import asyncio
import random
import re
import sys
import threading
import time
import warnings

from . import lib
from . import frames_common as FC

RULE = ("template sets: (a) random compositions of state-carrying snippets (namespace, loop state, cycler / joiner, "
        "filters taking list / dict arguments incl. sum(start=list), imports with cached modules, includes, macros with "
        "mutable defaults) and (b) gen_templates.TGen sets; each set is rendered isolated on a fresh environment "
        "(reference), then 3 times in a random order among the other templates of its group on one shared environment, "
        "then by 8-16 threads at once, in sync, sandboxed and async mode; inputs are deep-snapshotted before and "
        "compared after every render. A case = (template, mode, phase); distinct non-trivial = the template's reference "
        "output is non-empty and the render touched at least one mutable input (list / dict valued name occurs in it)")

MODES = ["sync", "sandbox", "async", "sync-auto", "immutable", "native"]
ENTRY = ["render"]
CUR_MODE = ["sync"]


# regression groups run first (group 0 with template-level globals, group 1 with the module cache in use)
FIXED_GROUPS = [
    ["{% import 'lib2.html' as L2 %}{{ L2.show() }}{{ L2.tv }}|{{ tg.k }}", "{% set nsd = namespace(d) %}{% set nsd.k = 'changed' %}{{ nsd.k }}|{{ d|tojson }}",
     "{{ d|tojson(indent=2) }}|{{ lists|sum(start=acc) }}", "{% from 'lib2.html' import show %}{{ show() }}|{{ nested|tojson }}|{{ words|indent(2) if false else lines|indent(2) }}"],
    ["{% import 'mdef.html' as D %}{{ D.acc(1) }}{{ D.acc(2) }}{{ D.reg('k') }}", "{% from 'mdef.html' import acc %}{{ acc(5) }}",
     "{% for x in plaingen() %}{{ x }}{% endfor %}", "{{ legacy(2) }}{{ legacy(nums[0]) + 1 }}"],
    ["{% import 'lib3.html' as M %}{{ M.ft(zero) }}", "{% import 'lib3.html' as M %}{{ M.h(text) }}{{ M.ff(2) }}",
     "{% import 'cnt.html' as C %}{{ C.nxt() }}", "{% import 'lib.html' as L %}{{ L.m(nums) }}{{ L.v }}|{% include 'inc.html' %}"],
]


def make_env(jinja2, mode, templates, env_globals):
    from jinja2.sandbox import SandboxedEnvironment
    loader = jinja2.FunctionLoader(lambda n: (templates[n], n, lambda: True) if n in templates else None)
    from jinja2.nativetypes import NativeEnvironment
    from jinja2.sandbox import ImmutableSandboxedEnvironment
    cls = {"sandbox": SandboxedEnvironment, "immutable": ImmutableSandboxedEnvironment, "native": NativeEnvironment}.get(mode, jinja2.Environment)
    env = cls(loader=loader, enable_async=(mode == "async"), autoescape=(mode == "sync-auto"))
    env.globals.update(env_globals)
    return env


def env_state(env):
    """everything configurable on the environment that a render must leave alone: the names and identities of globals,
    filters, tests, and the (deep) content of the policies"""
    def ident(v):
        return repr(v) if isinstance(v, (str, int, float, bool, type(None), list, dict, tuple)) else "%s@%x" % (type(v).__name__, id(v))
    return (sorted((k, ident(v)) for k, v in env.globals.items()), sorted((k, id(v)) for k, v in env.filters.items()),
            sorted((k, id(v)) for k, v in env.tests.items()), repr(sorted((k, repr(v)) for k, v in env.policies.items())))


def env_state_diff(a, b):
    for label, x, y in zip(("env.globals", "env.filters", "env.tests", "env.policies"), a, b):
        if x != y:
            if isinstance(x, list):
                dx = [i for i in y if i not in x] + [i for i in x if i not in y]
                return f"{label}: {str(dx[:2])[:120]}"
            return label
    return None


def render(env, name, data, tpl_globals, variant=0):
    try:
        if variant and tpl_globals is not None:
            # a second template object of the same source whose template-level global tgv has another value
            t = env.from_string(env.loader.get_source(env, name)[0], globals=dict(tpl_globals, tgv="G%d" % variant))
        else:
            t = env.get_template(name, globals=tpl_globals)
        with warnings.catch_warnings():
            warnings.simplefilter("ignore")
            if ENTRY[0] == "generate":
                return "ok:" + "".join(map(str, t.generate(**data)))
            if ENTRY[0] == "module" and not env.is_async:
                return "ok:" + str(t.make_module(data))
            return "ok:" + str(t.render(**data))
    except Exception as e:  # noqa
        return "exc:" + type(e).__name__


def run(ctx):
    jinja2 = lib.use_repo_jinja()
    ctx.extra["rule"] = RULE
    ctx.assumptions += [
        "the theorem is about interleavings at step granularity of the model; CPython's pre-emption points and the "
        "atomicity of single dict / list operations under the GIL are assumptions",
        "every write the engine performs during a render is an instance of a row of the regenerated footprint table",
        "value functions of steps read shared state only through read-only regions and read-through caches (oblivious), "
        "probed by the snapshot / repeat / thread oracle",
        "data callables and Namespace objects handed in by the caller may of course be modified through their own methods",
    ]
    ctx.proof("C29")
    ctx.proof("C29exec")

    # ---------------- generate the template groups of this run
    n_groups = ctx.size(18, 260)
    groups = []
    for gi in range(n_groups):
        templates = dict(FC.AUX)
        names = []
        for j in range(4):
            nm = f"t{j}.html"
            templates[nm] = FC.gen_state_template(ctx.rng) if gi >= len(FIXED_GROUPS) else FIXED_GROUPS[gi][j]
            names.append(nm)
        tg_data = None
        if gi % 3 == 0:
            ts, tg_data = FC.tgen_set(ctx.rng)
            for k, v in ts.items():
                templates["g_" + k] = v.replace("'inc", "'g_inc").replace("'lib", "'g_lib").replace("'base.html'", "'g_base.html'") \
                    .replace("'nope.html'", "'nope.html'")
            names.append("g_main.html")
        groups.append((templates, names, tg_data))

    # ---------------- T3 obligation (source + generated code of all templates of the run)
    gen_sources = []
    for templates, names, _ in groups[: ctx.size(12, 60)]:
        for mode in ("sync", "async"):
            env = make_env(jinja2, mode, templates, {})
            for n, src in templates.items():
                try:
                    gen_sources.append((n, env.compile(src, n, n, raw=True)))
                except Exception:  # noqa
                    pass
    ok, bad = FC.t3_obligation(ctx, gen_sources)

    # ---------------- K-rt: new_context copying, module cache
    krt_new_context(ctx, jinja2)
    krt_module_cache(ctx, jinja2)

    thread_gate_probes(ctx, jinja2)
    exec_model_tie(ctx, jinja2)
    filter_test_sweep(ctx, jinja2)

    # ---------------- O
    sys_switch = sys.getswitchinterval()
    try:
        refs = {}
        for gi, (templates, names, tg_data) in enumerate(groups):
            for mode in MODES:
                refs[(gi, mode)] = oracle_group(ctx, jinja2, templates, names, tg_data, mode, gi)
        fresh_process_refs(ctx, groups, refs)
        # the isolated renders again, on fresh environments, after everything else ran in this process and in the
        # opposite order: state that leaks between environments (module-level / class-level) shows up here
        for gi in reversed(range(len(groups))):
            templates, names, tg_data = groups[gi]
            USE_TPL_GLOBALS[0] = (gi % 2 == 0)
            ENTRY[0] = ["render", "render", "generate", "module"][gi % 4]
            for mode in MODES:
                CUR_MODE[0] = mode
                for n in reversed(names):
                    data, eg, tg = inputs_for(tg_data)
                    out = render(make_env(jinja2, mode, templates, eg), n, data, tg)
                    ctx.case(key=(templates[n], mode, "late") if out.startswith("ok:") and len(out) > 3 else None)
                    if out != refs[(gi, mode)][n]:
                        ctx.reject({"templates": templates, "template": n, "mode": mode, "phase": "late isolated render",
                                    "tgen_data": repr(tg_data) if tg_data and n.startswith("g_") else None,
                                    "first": refs[(gi, mode)][n][:300], "late": out[:300]},
                                   "an isolated render on a fresh environment differs between the start and the end of the run "
                                   "(state leaks between environments)", FC.special_signature(templates[n]) or f"late isolated render differs: {mode}")
                    else:
                        ctx.validated()
    finally:
        sys.setswitchinterval(sys_switch)


FRESH_CODE = r"""
import json, sys
sys.path.insert(1, %r)
from harness import c29, frames_common as FC
import jinja2
job = json.loads(sys.stdin.read())
tg_data = eval(job["tg_data"]) if job["tg_data"] else None
c29.USE_TPL_GLOBALS[0] = job.get("use_tpl", True)
c29.ENTRY[0] = job.get("entry", "render")
c29.CUR_MODE[0] = job["mode"]
data, eg, tg = c29.inputs_for(tg_data)
print(json.dumps(c29.render(c29.make_env(jinja2, job["mode"], job["templates"], eg), job["name"], data, tg)))
"""


def fresh_process_refs(ctx, groups, refs):
    """a sample of the isolated renders repeated in a brand-new interpreter (one process per render): the only place
    where state shared by all environments of a process (module / class level) cannot hide"""
    import json
    jobs, prio = [], []
    for gi, (templates, names, tg_data) in enumerate(groups):
        for n in names:
            if "legacy(" in templates[n] or "plaingen(" in templates[n]:
                prio.append((gi, "async", n))          # process-wide memo tables of the async helpers
            elif "import" in templates[n] or "include" in templates[n] or "tojson" in templates[n] or n.startswith("g_"):
                jobs.append((gi, MODES[(gi + len(jobs)) % 3], n))
    ctx.rng.shuffle(jobs)
    jobs = prio[:6] + jobs
    for gi, mode, n in jobs[: ctx.size(14, 80)]:
        templates, names, tg_data = groups[gi]
        job = {"templates": templates, "mode": mode, "name": n, "tg_data": repr(tg_data) if tg_data else None, "use_tpl": gi % 2 == 0,
               "entry": ["render", "render", "generate", "module"][gi % 4]}
        try:
            rc, out, err = lib.impl_python(FRESH_CODE % lib.ROOT, inp=json.dumps(job), timeout=120)
        except Exception:  # noqa: an overloaded machine is not evidence about the property
            ctx.count("fresh_process_timeout")
            continue
        ctx.case(key=(templates[n], mode, "fresh-process"))
        try:
            got = json.loads(out)
        except Exception:  # noqa
            got = "harness-error:" + err[-200:]
        if got != refs[(gi, mode)][n]:
            ctx.reject({"templates": templates, "template": n, "mode": mode, "phase": "fresh process",
                        "tgen_data": repr(tg_data) if tg_data and n.startswith("g_") else None,
                        "in_process": refs[(gi, mode)][n][:300], "fresh_process": got[:300]},
                       "the isolated render in this process differs from the same render in a brand-new interpreter "
                       "(state leaks between renders at module / class level)", FC.special_signature(templates[n]) or f"fresh-process render differs: {mode}")
        else:
            ctx.validated()


def filter_test_sweep(ctx, jinja2):
    """every registered filter and test applied to every kind of input value (with no and with a few common arguments),
    in sync and async mode: the inputs must be untouched and a second application must print the same"""
    ENTRY[0] = "render"
    USE_TPL_GLOBALS[0] = True
    args = ["", "(2)", "('n')", "(attribute='n')", "(1, 'x')", "('a', 'b')", "(start=acc)", "(indent=2)", "(true)"]
    for mode in ("sync", "async"):
        data, eg, tg = FC.make_inputs()
        env = make_env(jinja2, mode, {}, eg)
        snap = (FC.snapshot(data), FC.snapshot(env.globals.get("gl")))
        names = sorted(data)
        for fname in sorted(env.filters):
            if fname in ("random", "pprint"):
                continue
            for vi, vname in enumerate(names):
                if ctx.tier != "thorough" and (vi + len(fname)) % 3:
                    continue            # quick tier: every third (filter, value) pair
                a = args[(vi + len(fname)) % len(args)]
                for src in ("{{ %s|%s%s }}" % (vname, fname, a), "{{ %s|%s }}" % (vname, fname), "{{ %s|%s%s|list }}" % (vname, fname, a)):
                    outs = []
                    for _ in range(2):
                        try:
                            with warnings.catch_warnings():
                                warnings.simplefilter("ignore")
                                outs.append("ok:" + env.from_string(src).render(**data))
                        except Exception as e:  # noqa
                            outs.append("exc:" + type(e).__name__)
                    ctx.case(key=("sweep", mode, src) if outs[0].startswith("ok:") else None)
                    ctx.count("sweep_filter_" + outs[0][:3])
                    case = {"krt": "sweep", "template": src, "mode": mode}
                    if repr(data) != snap[0][1] or repr(env.globals.get("gl")) != snap[1][1]:
                        where = FC.diff_path(snap[0][0], data, "data") or "env.globals"
                        ctx.reject(dict(case, before=snap[0][1][:300], after=repr(data)[:300]), f"a filter modified its input ({where})",
                                   f"input modified by filter {fname}")
                        data, eg, tg = FC.make_inputs()
                        snap = (FC.snapshot(data), snap[1])
                    elif re.sub(r" at 0x[0-9a-f]+", "", outs[0]) != re.sub(r" at 0x[0-9a-f]+", "", outs[1]):
                        ctx.reject(dict(case, first=outs[0][:200], second=outs[1][:200]), "the same filter application prints differently the second time",
                                   f"repeat differs: filter {fname}")
                    else:
                        ctx.validated()
        for tname in sorted(env.tests):
            for vname in names:
                src = "{{ %s is %s }}{{ %s is %s(2) }}" % (vname, tname, vname, tname)
                for s1 in (src.split("}}")[0] + "}}", "{{" + src.split("{{")[2]):
                    try:
                        env.from_string(s1).render(**data)
                    except Exception:  # noqa
                        pass
                ctx.case()
                if repr(data) != snap[0][1]:
                    ctx.reject({"krt": "sweep", "template": src, "mode": mode}, "a test modified its input", f"input modified by test {tname}")
                    data, eg, tg = FC.make_inputs()
                    snap = (FC.snapshot(data), snap[1])
                else:
                    ctx.validated()


# --------------------------------------------------------------------------- K: extracted FramesExec vs engine
LIB_EXEC = "{% set v = g0 + 1 %}{% macro f(x) %}{{ x + g1 }}{% endmacro %}"


def _gen_exp(rng, have_own, have_mod, depth=2):
    k = rng.random()
    if depth <= 0 or k < 0.45:
        choices = [("k", rng.randint(0, 9)), ("d", rng.randint(0, 1)), ("dx",), ("g", rng.randint(0, 1)), ("t",)]
        choices += [("o", c) for c in have_own]
        if have_mod:
            choices += [("mv",), ("mv",)]
        return rng.choice(choices)
    if k < 0.6 and have_mod:
        return ("mf", _gen_exp(rng, have_own, have_mod, depth - 1))
    return ("+", _gen_exp(rng, have_own, have_mod, depth - 1), _gen_exp(rng, have_own, have_mod, depth - 1))


def _exp_text(e):
    t = e[0]
    if t == "k":
        return str(e[1]), f"k{e[1]}"
    if t == "d":
        return f"d{e[1]}", f"rD.{e[1]}"
    if t == "dx":
        return "dd.x", "rD.2"
    if t == "g":
        return f"g{e[1]}", f"rE.{e[1]}"
    if t == "t":
        return "tg0", "rT.0"
    if t == "o":
        return f"p{e[1]}", f"o{e[1]}"
    if t == "mv":
        return "L.v", "tM.0"
    if t == "mf":
        a, b = _exp_text(e[1])
        return f"(L.f({a})|int)", f"{b}_rE.1_+"
    a1, b1 = _exp_text(e[1])
    a2, b2 = _exp_text(e[2])
    return f"({a1} + {a2})", f"{b1}_{b2}_+"


def _gen_render(rng):
    """-> (template source, groups) ; groups = list of lists of model steps, one group per advance of generate()"""
    src, groups, cur = "", [], []
    own, mod, nout = [], False, 0
    for _ in range(rng.randint(2, 6)):
        k = rng.random()
        if k < 0.2 and not mod:
            src += "{% import 'lib.html' as L %}"
            cur.append("f,M.0")
            mod = True
        elif k < 0.45:
            c = rng.randint(0, 2)
            a, b = _exp_text(_gen_exp(rng, own, mod))
            src += "{% set p" + str(c) + " = " + a + " %}"
            cur.append(f"p,{c},{b}")
            if c not in own:
                own.append(c)
        elif k < 0.55:
            c = rng.randint(0, 2)
            src += ("{% set n" + str(c) + " = namespace(dd) %}{% set n" + str(c) + ".x = n" + str(c) + ".x + 1 %}"
                    "{% set p" + str(c) + " = n" + str(c) + ".x %}")
            cur.append(f"p,{c},rD.2_k1_+")
            if c not in own:
                own.append(c)
        else:
            a, b = _exp_text(_gen_exp(rng, own, mod))
            while not any(ch.isalpha() for ch in a):         # a constant output would be folded into its neighbours
                a, b = _exp_text(("+", _gen_exp(rng, own, mod), ("d", rng.randint(0, 1))))
            src += "{{ " + a + " }}"
            cur.append(f"p,{100 + nout},{b}")
            nout += 1
            groups.append(cur)
            cur = []
    groups.append(cur)          # what runs when the generator is advanced past its last chunk
    return src, groups, nout


def exec_model_tie(ctx, jinja2):
    """the extracted concrete model (FramesExec.crun = FramesSched.run_sched on the denotation) against the engine:
    2-3 renders advanced chunk by chunk through Template.generate() in a random interleaving; per-render chunk values,
    final data / globals and the module cache cell must be what the model computes"""
    n = ctx.size(300, 3000)
    cases = []
    for ci in range(n):
        rng = ctx.rng
        nr = rng.choice([2, 2, 3])
        renders = [_gen_render(rng) for _ in range(nr)]
        vals = {"d0": rng.randint(0, 9), "d1": rng.randint(0, 9), "x": rng.randint(0, 9), "g0": rng.randint(0, 9),
                "g1": rng.randint(0, 9), "tg0": rng.randint(0, 9)}
        tokens = [r for r, (_, groups, _) in enumerate(renders) for _ in groups]
        rng.shuffle(tokens)
        cases.append((renders, vals, tokens))
    lines, reals = [], []
    for renders, vals, tokens in cases:
        # ---- model line
        pos = [0] * len(renders)
        sched = []
        for r in tokens:
            for st in renders[r][1][pos[r]]:
                sched.append(f"{r + 1}:{st}")
            pos[r] += 1
        init = f"D.0={vals['d0']} D.1={vals['d1']} D.2={vals['x']} E.0={vals['g0']} E.1={vals['g1']} T.0={vals['tg0']}"
        queries = []
        for r, (_, _, nout) in enumerate(renders):
            queries += [f"P{r + 1}.{100 + i}" for i in range(nout)]
        queries += ["D.0", "D.1", "D.2", "E.0", "E.1", "T.0", "M.0"]
        lines.append(init + " | " + " ".join(sched) + " | " + " ".join(queries))
        # ---- engine
        templates = {"lib.html": LIB_EXEC}
        for r, (src, _, _) in enumerate(renders):
            templates[f"r{r}.html"] = src
        env = jinja2.Environment(loader=jinja2.DictLoader(templates))
        env.globals.update(g0=vals["g0"], g1=vals["g1"])
        tglob = {"tg0": vals["tg0"]}
        lib_t = env.get_template("lib.html", globals=tglob)
        data = {"d0": vals["d0"], "d1": vals["d1"], "dd": {"x": vals["x"]}}
        outs = [[] for _ in renders]
        err = None
        try:
            gens = [env.get_template(f"r{r}.html", globals=tglob).generate(**data) for r in range(len(renders))]
            for r in tokens:
                try:
                    outs[r].append(int(next(gens[r])))
                except StopIteration:
                    pass
        except Exception as e:  # noqa
            err = type(e).__name__
        mod = lib_t._module
        final = [data["d0"], data["d1"], data["dd"]["x"], env.globals["g0"], env.globals["g1"], tglob["tg0"],
                 int(getattr(mod, "v")) if mod is not None else 0]
        reals.append((outs, final, err))
    preds = ctx.driver("framesexec", lines)
    for (renders, vals, tokens), line, pred, (outs, final, err) in zip(cases, lines, preds, reals):
        wf, *nums = pred.split()
        expect = [int(x) for x in nums]
        got = [v for o in outs for v in o] + final
        case = {"krt": "exec model", "templates": [r[0] for r in renders], "values": vals, "schedule": tokens, "model_line": line}
        imports = sum(1 for r in renders if "import" in r[0])
        ctx.case(key=("exec", line) if imports and len(set(tokens[:4])) > 1 else None,
                 sample=dict(case, engine=got, model=expect) if imports >= 2 and len(ctx.samples) < 6 else None)
        ctx.count("exec_model_cases")
        if wf != "wf=1":
            ctx.model_mismatch("K exec model: generated schedule is not well-formed", case, "wf=1", wf, None)
        elif err is not None or got != expect:
            inputs_changed = final[:6] != [vals["d0"], vals["d1"], vals["x"], vals["g0"], vals["g1"], vals["tg0"]]
            ctx.model_mismatch("K exec model (FramesExec.crun vs engine, chunk-level interleaving)", dict(case, engine=got, model=expect, error=err),
                               expect, got, "inputs modified by rendering" if inputs_changed else
                               ("interleaved renders differ from the model's (= isolated) results" if err is None else "render raised " + err),
                               "exec model: inputs modified" if inputs_changed else "exec model: interleaved result differs")
        else:
            ctx.validated()


def thread_gate_probes(ctx, jinja2):
    """deterministic overlap of two renders in two threads: render A is parked by a data / global callable at a chosen
    point while render B runs to completion (or parks too), then they are released in a fixed order; B's output must
    be its isolated output.  The points chosen are inside {% autoescape %} blocks, where the eval context is modified."""
    scenarios = [
        # (name, autoescape of the environment, templates, A, B, release order, signature if it fails)
        ("autoescape block in a template vs an eval-context filter in another",
         False, {}, "{% autoescape true %}{{ park('a') }}{{ html }}{% endautoescape %}{{ html }}",
         "{{ [html, '<m>'|safe]|join('-') }}{{ html }}", None),
        ("autoescape block vs macro call and urlize",
         True, {}, "{% autoescape false %}{{ park('a') }}{{ html }}{% endautoescape %}",
         "{% macro m(x) %}{{ x }}{% endmacro %}{{ m(html) }}{{ html|urlize }}{{ [html, '<m>'|safe]|join }}", None),
        ("two renders inside the autoescape block of a cached module's macro",
         True, {"lib4.html": "{% macro f4(x) %}{% autoescape false %}{{ gpark() }}{{ [x, '<m>'|safe]|join('-') }}{% endautoescape %}{% endmacro %}"},
         "{% import 'lib4.html' as L %}{{ L.f4(html) }}", "{% import 'lib4.html' as L %}{{ L.f4(html) }}{{ [html, '<m>'|safe]|join }}",
         FC.SIG_MODULE_EVALCTX),
    ]
    for name, auto, extra, src_a, src_b, sig in scenarios:
        def build():
            gates = {"A": threading.Event(), "B": threading.Event()}
            parked = {"A": threading.Event(), "B": threading.Event()}
            free = [False]

            def park(*_a):
                who = threading.current_thread().name
                if free[0] or who not in gates:
                    return ""
                parked[who].set()
                gates[who].wait(60)
                return ""

            templates = dict(extra, a=src_a, b=src_b)
            env = jinja2.Environment(loader=jinja2.DictLoader(templates), autoescape=auto)
            env.globals["gpark"] = park
            return env, gates, parked, free, park

        def one(env, tname, park, tid):
            try:
                return "ok:" + env.get_template(tname).render(html="<i>" + tid, park=park)
            except Exception as e:  # noqa
                return "exc:" + type(e).__name__

        env, gates, parked, free, park = build()
        free[0] = True
        iso_a, iso_b = one(env, "a", park, "A"), one(build()[0], "b", park, "B")
        env, gates, parked, free, park = build()
        out = {}
        ta = threading.Thread(target=lambda: out.__setitem__("A", one(env, "a", park, "A")), name="A")
        tb = threading.Thread(target=lambda: out.__setitem__("B", one(env, "b", park, "B")), name="B")
        ta.start()
        parked["A"].wait(60)
        tb.start()
        # B either finishes (it never parks) or parks inside the shared macro
        for _ in range(200):
            if parked["B"].is_set() or not tb.is_alive():
                break
            time.sleep(0.005)
        gates["A"].set()
        ta.join(60)
        gates["B"].set()
        tb.join(60)
        after = one(env, "b", lambda *_: "", "B")
        free[0] = True
        case = {"krt": "thread gate", "scenario": name, "A": src_a, "B": src_b, "templates": extra, "autoescape": auto}
        ctx.case(key=("thread-gate", name), sample=dict(case, outputs=out))
        ctx.count("thread_gate")
        if out.get("B") != iso_b or out.get("A") != iso_a:
            ctx.reject(dict(case, isolated={"A": iso_a, "B": iso_b}, overlapped=out),
                       "a render that overlaps another render parked inside an {% autoescape %} block differs from its isolated render",
                       sig or "thread overlap inside autoescape block: " + name)
        elif after != iso_b:
            ctx.reject(dict(case, isolated=iso_b, later=after),
                       "after two overlapping renders a later render on the same environment differs from the isolated render",
                       sig or "thread overlap leaves state: " + name)
        else:
            ctx.validated()


def krt_new_context(ctx, jinja2):
    from jinja2.runtime import new_context, missing
    env = jinja2.Environment()
    for shared in (False, True):
        for locals_ in (None, {"x": 1, "m": missing}, {"v": 5}):
            vars_ = {"v": [1], "w": 2}
            globs = {"g": [0]}
            before = (repr(vars_), repr(globs))
            c = new_context(env, None, {}, vars_, shared, globs, locals_)
            c.vars["new"] = 1
            after = (repr(vars_), repr(globs))
            case = {"krt": "new_context", "shared": shared, "locals": repr(locals_)}
            ctx.case(key=("new_context", shared, repr(locals_)))
            if before != after:
                ctx.reject(case, f"new_context modified the dict it was given: {before} -> {after}", "new_context modifies vars/globals")
            elif shared and not locals_ and c.parent is not vars_:
                ctx.model_mismatch("K-rt new_context (shared parent is the dict itself)", case, "parent is vars", "copy", None)
            else:
                ctx.validated()


def krt_module_cache(ctx, jinja2):
    env = jinja2.Environment(loader=jinja2.DictLoader({"lib": "{% macro m() %}x{{ gl }}{% endmacro %}{% set v = gl %}",
                                                        "a": "{% import 'lib' as L %}{{ L.m() }}{{ L.v }}"}))
    env.globals["gl"] = "G"
    lib_t = env.get_template("lib")
    outs = [env.get_template("a").render() for _ in range(3)]
    m1 = lib_t._module
    outs.append(env.get_template("a").render())
    case = {"krt": "module cache"}
    ctx.case(key="module-cache")
    if len(set(outs)) != 1 or outs[0] != "xGG":
        ctx.reject(case, f"renders through a cached module differ: {outs}", "module cache changes output")
    elif m1 is None or lib_t._module is not m1:
        ctx.model_mismatch("K-rt Template._module filled once", case, "filled once, reused", "refilled or never filled", None)
    else:
        ctx.validated()


# template-level globals are handed to get_template(globals=...) for every second group only: an importer with extra
# template globals never uses the module cache (Template._get_default_module renders a module per import then)
USE_TPL_GLOBALS = [True]


def inputs_for(tg_data, variant=0):
    FC.ASYNC_DATA[0] = (CUR_MODE[0] == "async")
    data, eg, tg = FC.make_inputs()
    if not USE_TPL_GLOBALS[0]:
        eg = dict(eg, **tg)
        tg = None
    if variant:
        data["tgv"] = "D%d" % variant          # render data shadows the template-level global of the same name
    if tg_data:
        for k, v in tg_data.items():
            data.setdefault(k, v)
    return data, eg, tg


def oracle_group(ctx, jinja2, templates, names, tg_data, mode, gi):
    USE_TPL_GLOBALS[0] = (gi % 2 == 0)
    ENTRY[0] = ["render", "render", "generate", "module"][gi % 4]
    CUR_MODE[0] = mode
    # reference: each template alone on a fresh environment with fresh inputs
    ref = {}
    for n in names:
        data, eg, tg = inputs_for(tg_data)
        env = make_env(jinja2, mode, templates, eg)
        ref[n] = render(env, n, data, tg)
        data, eg, tg = inputs_for(tg_data, 1)
        ref[(n, 1)] = render(make_env(jinja2, mode, templates, eg), n, data, tg, 1)
    # shared environment, shared inputs
    data, eg, tg = inputs_for(tg_data)
    data_v1 = dict(data, tgv="D1")            # same objects, one more name
    env = make_env(jinja2, mode, templates, eg)
    tg_obj = tg if tg is not None else {"tg": env.globals.get("tg"), "tgv": env.globals.get("tgv")}
    snap = (FC.snapshot(data), FC.snapshot(env.globals.get("gl")), FC.snapshot(tg_obj))

    state0 = env_state(env)

    def check_inputs(case, phase):
        dd = env_state_diff(state0, env_state(env))
        if dd:
            ctx.reject(dict(case, phase=phase, changed=dd), f"the environment's configuration was modified by rendering / loading ({dd})",
                       "environment modified: " + dd.split(":")[0])
            return False
        for label, (was, was_repr), now in (("data", snap[0], data), ("env.globals", snap[1], env.globals.get("gl")),
                                            ("template.globals", snap[2], tg_obj)):
            if repr(now) != was_repr:
                where = FC.diff_path(was, now, label) or label
                ctx.reject(dict(case, phase=phase, before=was_repr[:300], after=repr(now)[:300]),
                           f"{label} modified by rendering ({where})", f"input modified: {where}")
                return False
        return True

    if tg is not None and gi % 2 == 0:
        # inc.html was (or will be) cached without template globals by {% include %}; ask for it with globals now and again
        # later: get_template(name, globals=...) on a cached template is an operation of the history
        for aux in ("inc.html", "lib.html"):
            render(env, aux, data, None)
            render(env, aux, data, {"hist": 1, "tg": tg["tg"], "tgv": "T0"})
            check_inputs({"templates": templates, "template": aux, "mode": mode, "use_tpl": True, "entry": ENTRY[0]}, "get_template with globals on a cached template")
    order = [(n, v) for n in names for v in (0, 0, 1)]
    ctx.rng.shuffle(order)
    for n, variant in order:
        case = {"templates": templates, "template": n, "mode": mode, "variant": variant, "use_tpl": USE_TPL_GLOBALS[0], "entry": ENTRY[0],
                "tgen_data": repr(tg_data) if tg_data and n.startswith("g_") else None}
        out = render(env, n, data_v1 if variant else data, tg, variant)
        src = templates[n]
        refn = ref[(n, 1)] if variant else ref[n]
        nontriv = ref[n].startswith("ok:") and len(ref[n]) > 3 and any(w in src for w in ("acc", "lists", "nums", "words", "nested",
                                                                                           "recs", " d", "gl.", "tg.", "lib.html", "lib2.html", "lib3.html", "namespace("))
        ctx.case(sample={"template": src, "mode": mode, "output": out[:80]} if nontriv and ctx.evaluations % 301 == 0 else None,
                 key=(src, mode, "seq") if nontriv else None)
        ctx.count("seq_" + out[:3])
        good = check_inputs(case, "sequential")
        if out != refn:
            ctx.reject(dict(case, phase="sequential", isolated=refn[:300], got=out[:300]),
                       "a repeated / reordered render differs from the isolated render",
                       FC.special_signature(src) or f"repeat differs: {mode}")
            good = False
        if good:
            ctx.validated()
    # an overlay of the environment shares its globals and (a copy of) its cache: renders through it and again through
    # the original must still give the isolated outputs and leave the inputs alone
    if gi % 3 == 0 and mode != "native":
        ov = env.overlay()
        for e2 in (ov, env):
            for n in names:
                out = render(e2, n, data, tg)
                ctx.case(key=(templates[n], mode, "overlay") if ref[n].startswith("ok:") and len(ref[n]) > 3 else None)
                ok_in = check_inputs({"templates": templates, "template": n, "mode": mode, "use_tpl": USE_TPL_GLOBALS[0]}, "overlay")
                if out != ref[n]:
                    ctx.reject({"templates": templates, "template": n, "mode": mode, "phase": "overlay", "use_tpl": USE_TPL_GLOBALS[0],
                                "isolated": ref[n][:300], "got": out[:300]},
                               "a render through an overlay of the environment (or after one) differs from the isolated render",
                               FC.special_signature(templates[n]) or f"overlay render differs: {mode}")
                elif ok_in:
                    ctx.validated()
    # threads
    if gi % 2 == 0 and (gi < 8 or mode in ("sync", "async") or ctx.tier == "thorough"):
        n_threads = ctx.rng.choice([8, 12, 16])
        results = [None] * n_threads
        plan = [ctx.rng.choice(names) for _ in range(n_threads)]
        start = threading.Barrier(n_threads)

        def work(i):
            start.wait()
            outs = []
            for _ in range(3):
                outs.append(render(env, plan[i], data, tg))
            results[i] = outs

        sys.setswitchinterval(1e-6)
        th = [threading.Thread(target=work, args=(i,)) for i in range(n_threads)]
        for t in th:
            t.start()
        for t in th:
            t.join()
        sys.setswitchinterval(0.005)
        for i in range(n_threads):
            case = {"templates": templates, "template": plan[i], "mode": mode, "threads": n_threads}
            for out in results[i] or ["exc:thread died"]:
                src = templates[plan[i]]
                ctx.case(key=(src, mode, "threads") if ref[plan[i]].startswith("ok:") and len(ref[plan[i]]) > 3 else None)
                ctx.count("thr_" + out[:3])
                if out != ref[plan[i]]:
                    ctx.reject(dict(case, phase="threads", isolated=ref[plan[i]][:300], got=out[:300]),
                               "a render in one of several concurrent threads differs from the isolated render",
                               FC.special_signature(src) or f"thread render differs: {mode}")
                else:
                    ctx.validated()
        check_inputs({"templates": templates, "template": ",".join(sorted(set(plan))), "mode": mode}, "threads")
    return ref


def replay(ctx, data):
    jinja2 = lib.use_repo_jinja()
    case = data.get("case")
    if data.get("kind") != "failing-input" or case is None:
        print("replay: names a broken theorem / obligation / correspondence:", data.get("broken"))
        return run(ctx)
    if case.get("krt") == "sweep":
        filter_test_sweep(ctx, jinja2)
        return
    if case.get("krt") == "exec model":
        exec_model_tie(ctx, jinja2)
        return
    if case.get("krt") == "thread gate":
        thread_gate_probes(ctx, jinja2)
        return
    if "krt" in case:
        krt_new_context(ctx, jinja2)
        krt_module_cache(ctx, jinja2)
        return
    templates, mode = case["templates"], case["mode"]
    USE_TPL_GLOBALS[0] = case.get("use_tpl", True)
    ENTRY[0] = case.get("entry", "render")
    CUR_MODE[0] = mode
    names = case["template"].split(",")
    if case.get("phase") == "fresh process":
        import json
        tg_data0 = eval(case["tgen_data"]) if case.get("tgen_data") else None  # noqa
        for other in sorted(templates):          # the history that may have left state behind in this process
            if other.startswith("t") or other == "g_main.html":
                d9, eg9, tg9 = inputs_for(tg_data0)
                render(make_env(jinja2, mode, templates, eg9), other, d9, tg9)
        d0, eg, tg = inputs_for(tg_data0)
        here = render(make_env(jinja2, mode, templates, eg), names[0], d0, tg)
        job = {"templates": templates, "mode": mode, "name": names[0], "tg_data": case.get("tgen_data")}
        rc, out, err = lib.impl_python(FRESH_CODE % lib.ROOT, inp=json.dumps(job), timeout=60)
        print("this process :", here[:200], "\nfresh process:", out.strip()[:200], "\nrecorded in-process result:", case.get("in_process"))
        if json.loads(out) != here:
            ctx.reject(case, "render after other renders in this process differs from the same render in a brand-new interpreter")
        return
    tg_data = eval(case["tgen_data"]) if case.get("tgen_data") else None  # noqa: data written by this harness
    for n in names:
        d0, eg, tg = inputs_for(tg_data)
        iso = render(make_env(jinja2, mode, templates, eg), n, d0, tg)
        d1, eg1, tg1 = inputs_for(tg_data)
        env = make_env(jinja2, mode, templates, eg1)
        before = (repr(d1), repr(env.globals.get("gl")), repr(tg1))
        outs = [render(env, n, d1, tg1) for _ in range(3)]
        after = (repr(d1), repr(env.globals.get("gl")), repr(tg1))
        print("template:", n, "\nisolated:", iso[:200], "\nrepeated:", [o[:80] for o in outs])
        if before != after:
            print("inputs before:", before, "\ninputs after :", after)
            ctx.reject(case, "inputs modified by rendering")
        elif any(o != iso for o in outs):
            ctx.reject(case, "a repeated render differs from the isolated render")
