"""C29 — rendering is repeatable and does not modify its inputs.

proof:  Properties/C29.v (frame_noninterference: inputs unchanged + every interleaving gives each
        render its isolated result; repeatable; order_independent; thread_independent; witness
        that an accumulate-into-argument step breaks it)
T3   :  gen/frames_footprint.py re-reads every attribute / subscript store, augmented assignment and
        mutator call of runtime / environment / filters / tests / async_utils / utils (and of the
        generated code of this run's templates) with the root of the access path classified ->
        obligation table_footprint_ok (vm_compute) + liveness of the allow-lists.
K-rt :  new_context's copying (shared / locals), Template._module filled once and reused.
O    :  deep snapshots of data / env.globals / template.globals before and after every render;
        repeated renders of a template set in random orders on one environment against the
        isolated render on a fresh environment; 8-16 threads with sys.setswitchinterval(1e-6).
"""
import asyncio
import random
import sys
import threading
import warnings

from . import lib
from . import frames_common as FC

RULE = ("template sets: (a) random compositions of state-carrying snippets (namespace, loop state, cycler / joiner, "
        "filters taking list / dict arguments incl. sum(start=list), imports with cached modules, includes, macros with "
        "mutable defaults) and (b) gen_templates.TGen sets; each set is rendered isolated on a fresh environment "
        "(reference), then 3 times in a random order among the other templates of its group on one shared environment, "
        "then by 8-16 threads at once, in sync, sandboxed and async mode; inputs are deep-snapshotted before and "
        "compared after every render. A case = (template, mode, phase); distinct non-trivial = the template's reference "
        "output is non-empty and the render touched at least one mutable input (list / dict valued name occurs in it)")

MODES = ["sync", "sandbox", "async"]


def make_env(jinja2, mode, templates, env_globals):
    from jinja2.sandbox import SandboxedEnvironment
    loader = jinja2.FunctionLoader(lambda n: (templates[n], n, lambda: True) if n in templates else None)
    cls = SandboxedEnvironment if mode == "sandbox" else jinja2.Environment
    env = cls(loader=loader, enable_async=(mode == "async"))
    env.globals.update(env_globals)
    return env


def render(env, name, data, tpl_globals):
    try:
        t = env.get_template(name, globals=tpl_globals)
        with warnings.catch_warnings():
            warnings.simplefilter("ignore")
            return "ok:" + t.render(**data)
    except Exception as e:  # noqa
        return "exc:" + type(e).__name__


def run(ctx):
    jinja2 = lib.use_repo_jinja()
    ctx.extra["rule"] = RULE
    ctx.assumptions += [
        "the theorem is about interleavings at step granularity of the model; CPython's pre-emption points and the "
        "atomicity of single dict / list operations under the GIL are assumptions",
        "every write the engine performs during a render is an instance of a row of the regenerated footprint table",
        "value functions of steps read shared state only through read-only regions and read-through caches (oblivious), "
        "probed by the snapshot / repeat / thread oracle",
        "data callables and Namespace objects handed in by the caller may of course be modified through their own methods",
    ]
    ctx.proof("C29")

    # ---------------- generate the template groups of this run
    n_groups = ctx.size(110, 700)
    groups = []
    for gi in range(n_groups):
        templates = dict(FC.AUX)
        names = []
        for j in range(4):
            nm = f"t{j}.html"
            templates[nm] = FC.gen_state_template(ctx.rng)
            names.append(nm)
        tg_data = None
        if gi % 3 == 0:
            ts, tg_data = FC.tgen_set(ctx.rng)
            for k, v in ts.items():
                templates["g_" + k] = v.replace("'inc", "'g_inc").replace("'lib", "'g_lib").replace("'base.html'", "'g_base.html'") \
                    .replace("'nope.html'", "'nope.html'")
            names.append("g_main.html")
        groups.append((templates, names, tg_data))

    # ---------------- T3 obligation (source + generated code of all templates of the run)
    gen_sources = []
    for templates, names, _ in groups[: ctx.size(12, 60)]:
        for mode in ("sync", "async"):
            env = make_env(jinja2, mode, templates, {})
            for n, src in templates.items():
                try:
                    gen_sources.append((n, env.compile(src, n, n, raw=True)))
                except Exception:  # noqa
                    pass
    ok, bad = FC.t3_obligation(ctx, gen_sources)

    # ---------------- K-rt: new_context copying, module cache
    krt_new_context(ctx, jinja2)
    krt_module_cache(ctx, jinja2)

    # ---------------- O
    sys_switch = sys.getswitchinterval()
    try:
        refs = {}
        for gi, (templates, names, tg_data) in enumerate(groups):
            for mode in MODES:
                refs[(gi, mode)] = oracle_group(ctx, jinja2, templates, names, tg_data, mode, gi)
        fresh_process_refs(ctx, groups, refs)
        # the isolated renders again, on fresh environments, after everything else ran in this process and in the
        # opposite order: state that leaks between environments (module-level / class-level) shows up here
        for gi in reversed(range(len(groups))):
            templates, names, tg_data = groups[gi]
            for mode in MODES:
                for n in reversed(names):
                    data, eg, tg = inputs_for(tg_data)
                    out = render(make_env(jinja2, mode, templates, eg), n, data, tg)
                    ctx.case(key=(templates[n], mode, "late") if out.startswith("ok:") and len(out) > 3 else None)
                    if out != refs[(gi, mode)][n]:
                        ctx.reject({"templates": templates, "template": n, "mode": mode, "phase": "late isolated render",
                                    "tgen_data": repr(tg_data) if tg_data and n.startswith("g_") else None,
                                    "first": refs[(gi, mode)][n][:300], "late": out[:300]},
                                   "an isolated render on a fresh environment differs between the start and the end of the run "
                                   "(state leaks between environments)", f"late isolated render differs: {mode}")
                    else:
                        ctx.validated()
    finally:
        sys.setswitchinterval(sys_switch)


FRESH_CODE = r"""
import json, sys
sys.path.insert(1, %r)
from harness import c29, frames_common as FC
import jinja2
job = json.loads(sys.stdin.read())
tg_data = eval(job["tg_data"]) if job["tg_data"] else None
data, eg, tg = c29.inputs_for(tg_data)
print(json.dumps(c29.render(c29.make_env(jinja2, job["mode"], job["templates"], eg), job["name"], data, tg)))
"""


def fresh_process_refs(ctx, groups, refs):
    """a sample of the isolated renders repeated in a brand-new interpreter (one process per render): the only place
    where state shared by all environments of a process (module / class level) cannot hide"""
    import json
    jobs = []
    for gi, (templates, names, tg_data) in enumerate(groups):
        for n in names:
            if "import" in templates[n] or "include" in templates[n] or n.startswith("g_"):
                jobs.append((gi, MODES[(gi + len(jobs)) % 3], n))
    ctx.rng.shuffle(jobs)
    for gi, mode, n in jobs[: ctx.size(14, 80)]:
        templates, names, tg_data = groups[gi]
        job = {"templates": templates, "mode": mode, "name": n, "tg_data": repr(tg_data) if tg_data else None}
        rc, out, err = lib.impl_python(FRESH_CODE % lib.ROOT, inp=json.dumps(job), timeout=60)
        ctx.case(key=(templates[n], mode, "fresh-process"))
        try:
            got = json.loads(out)
        except Exception:  # noqa
            got = "harness-error:" + err[-200:]
        if got != refs[(gi, mode)][n]:
            ctx.reject({"templates": templates, "template": n, "mode": mode, "phase": "fresh process",
                        "tgen_data": repr(tg_data) if tg_data and n.startswith("g_") else None,
                        "in_process": refs[(gi, mode)][n][:300], "fresh_process": got[:300]},
                       "the isolated render in this process differs from the same render in a brand-new interpreter "
                       "(state leaks between renders at module / class level)", f"fresh-process render differs: {mode}")
        else:
            ctx.validated()


def krt_new_context(ctx, jinja2):
    from jinja2.runtime import new_context, missing
    env = jinja2.Environment()
    for shared in (False, True):
        for locals_ in (None, {"x": 1, "m": missing}, {"v": 5}):
            vars_ = {"v": [1], "w": 2}
            globs = {"g": [0]}
            before = (repr(vars_), repr(globs))
            c = new_context(env, None, {}, vars_, shared, globs, locals_)
            c.vars["new"] = 1
            after = (repr(vars_), repr(globs))
            case = {"krt": "new_context", "shared": shared, "locals": repr(locals_)}
            ctx.case(key=("new_context", shared, repr(locals_)))
            if before != after:
                ctx.reject(case, f"new_context modified the dict it was given: {before} -> {after}", "new_context modifies vars/globals")
            elif shared and not locals_ and c.parent is not vars_:
                ctx.model_mismatch("K-rt new_context (shared parent is the dict itself)", case, "parent is vars", "copy", None)
            else:
                ctx.validated()


def krt_module_cache(ctx, jinja2):
    env = jinja2.Environment(loader=jinja2.DictLoader({"lib": "{% macro m() %}x{{ gl }}{% endmacro %}{% set v = gl %}",
                                                        "a": "{% import 'lib' as L %}{{ L.m() }}{{ L.v }}"}))
    env.globals["gl"] = "G"
    lib_t = env.get_template("lib")
    outs = [env.get_template("a").render() for _ in range(3)]
    m1 = lib_t._module
    outs.append(env.get_template("a").render())
    case = {"krt": "module cache"}
    ctx.case(key="module-cache")
    if len(set(outs)) != 1 or outs[0] != "xGG":
        ctx.reject(case, f"renders through a cached module differ: {outs}", "module cache changes output")
    elif m1 is None or lib_t._module is not m1:
        ctx.model_mismatch("K-rt Template._module filled once", case, "filled once, reused", "refilled or never filled", None)
    else:
        ctx.validated()


def inputs_for(tg_data):
    data, eg, tg = FC.make_inputs()
    if tg_data:
        for k, v in tg_data.items():
            data.setdefault(k, v)
    return data, eg, tg


def oracle_group(ctx, jinja2, templates, names, tg_data, mode, gi):
    # reference: each template alone on a fresh environment with fresh inputs
    ref = {}
    for n in names:
        data, eg, tg = inputs_for(tg_data)
        env = make_env(jinja2, mode, templates, eg)
        ref[n] = render(env, n, data, tg)
    # shared environment, shared inputs
    data, eg, tg = inputs_for(tg_data)
    env = make_env(jinja2, mode, templates, eg)
    snap = (FC.snapshot(data), FC.snapshot(env.globals.get("gl")), FC.snapshot(tg))

    def check_inputs(case, phase):
        for label, (was, was_repr), now in (("data", snap[0], data), ("env.globals", snap[1], env.globals.get("gl")),
                                            ("template.globals", snap[2], tg)):
            if repr(now) != was_repr:
                where = FC.diff_path(was, now, label) or label
                ctx.reject(dict(case, phase=phase, before=was_repr[:300], after=repr(now)[:300]),
                           f"{label} modified by rendering ({where})", f"input modified: {where}")
                return False
        return True

    order = [n for n in names for _ in range(3)]
    ctx.rng.shuffle(order)
    for n in order:
        case = {"templates": templates, "template": n, "mode": mode, "tgen_data": repr(tg_data) if tg_data and n.startswith("g_") else None}
        out = render(env, n, data, tg)
        src = templates[n]
        nontriv = ref[n].startswith("ok:") and len(ref[n]) > 3 and any(w in src for w in ("acc", "lists", "nums", "words", "nested",
                                                                                           "recs", " d", "gl.", "tg.", "lib.html"))
        ctx.case(sample={"template": src, "mode": mode, "output": out[:80]} if nontriv and ctx.evaluations % 301 == 0 else None,
                 key=(src, mode, "seq") if nontriv else None)
        ctx.count("seq_" + out[:3])
        good = check_inputs(case, "sequential")
        if out != ref[n]:
            ctx.reject(dict(case, phase="sequential", isolated=ref[n][:300], got=out[:300]),
                       "a repeated / reordered render differs from the isolated render", f"repeat differs: {mode}")
            good = False
        if good:
            ctx.validated()
    # threads
    if gi % 2 == 0:
        n_threads = ctx.rng.choice([8, 12, 16])
        results = [None] * n_threads
        plan = [ctx.rng.choice(names) for _ in range(n_threads)]
        start = threading.Barrier(n_threads)

        def work(i):
            start.wait()
            outs = []
            for _ in range(3):
                outs.append(render(env, plan[i], data, tg))
            results[i] = outs

        sys.setswitchinterval(1e-6)
        th = [threading.Thread(target=work, args=(i,)) for i in range(n_threads)]
        for t in th:
            t.start()
        for t in th:
            t.join()
        sys.setswitchinterval(0.005)
        for i in range(n_threads):
            case = {"templates": templates, "template": plan[i], "mode": mode, "threads": n_threads}
            for out in results[i] or ["exc:thread died"]:
                src = templates[plan[i]]
                ctx.case(key=(src, mode, "threads") if ref[plan[i]].startswith("ok:") and len(ref[plan[i]]) > 3 else None)
                ctx.count("thr_" + out[:3])
                if out != ref[plan[i]]:
                    ctx.reject(dict(case, phase="threads", isolated=ref[plan[i]][:300], got=out[:300]),
                               "a render in one of several concurrent threads differs from the isolated render",
                               f"thread render differs: {mode}")
                else:
                    ctx.validated()
        check_inputs({"templates": templates, "template": ",".join(sorted(set(plan))), "mode": mode}, "threads")
    return ref


def replay(ctx, data):
    jinja2 = lib.use_repo_jinja()
    case = data.get("case")
    if data.get("kind") != "failing-input" or case is None:
        print("replay: names a broken theorem / obligation / correspondence:", data.get("broken"))
        return run(ctx)
    if "krt" in case:
        krt_new_context(ctx, jinja2)
        krt_module_cache(ctx, jinja2)
        return
    templates, mode = case["templates"], case["mode"]
    names = case["template"].split(",")
    if case.get("phase") == "fresh process":
        import json
        tg_data0 = eval(case["tgen_data"]) if case.get("tgen_data") else None  # noqa
        for other in sorted(templates):          # the history that may have left state behind in this process
            if other.startswith("t") or other == "g_main.html":
                d9, eg9, tg9 = inputs_for(tg_data0)
                render(make_env(jinja2, mode, templates, eg9), other, d9, tg9)
        d0, eg, tg = inputs_for(tg_data0)
        here = render(make_env(jinja2, mode, templates, eg), names[0], d0, tg)
        job = {"templates": templates, "mode": mode, "name": names[0], "tg_data": case.get("tgen_data")}
        rc, out, err = lib.impl_python(FRESH_CODE % lib.ROOT, inp=json.dumps(job), timeout=60)
        print("this process :", here[:200], "\nfresh process:", out.strip()[:200], "\nrecorded in-process result:", case.get("in_process"))
        if json.loads(out) != here:
            ctx.reject(case, "render after other renders in this process differs from the same render in a brand-new interpreter")
        return
    tg_data = eval(case["tgen_data"]) if case.get("tgen_data") else None  # noqa: data written by this harness
    for n in names:
        d0, eg, tg = inputs_for(tg_data)
        iso = render(make_env(jinja2, mode, templates, eg), n, d0, tg)
        d1, eg1, tg1 = inputs_for(tg_data)
        env = make_env(jinja2, mode, templates, eg1)
        before = (repr(d1), repr(env.globals.get("gl")), repr(tg1))
        outs = [render(env, n, d1, tg1) for _ in range(3)]
        after = (repr(d1), repr(env.globals.get("gl")), repr(tg1))
        print("template:", n, "\nisolated:", iso[:200], "\nrepeated:", [o[:80] for o in outs])
        if before != after:
            print("inputs before:", before, "\ninputs after :", after)
            ctx.reject(case, "inputs modified by rendering")
        elif any(o != iso for o in outs):
            ctx.reject(case, "a repeated render differs from the isolated render")
