"""C32 — static template introspection over-approximates runtime behaviour.

proof : Properties/C32.v — resolves_subset_undeclared_partial (every resolve() a completed render
        executes is reported by find_undeclared_variables or is a global; all programs without
        macro calls), static_resolves_reported (all programs, static), referenced_templates_cover.
tie   : K-meta  model meta_undeclared == real meta.find_undeclared_variables (set equality) on
                generated statement trees (C03 generator, all constructs);
        K-log   model resolve log == the names recorded by a recording Context subclass
                (resolve_or_missing) on completed renders;
        K-ref   model referenced == real list(meta.find_referenced_templates(ast)) (exact, ordered)
                for extends / include / import / from-import with constant, list, tuple,
                conditional, dynamic and non-string names; model requested == the names a
                recording loader was asked for.
oracle: inclusion on the real engine: recorded lookups <= reported undeclared + globals (also
        for renders that end in an error); recorded loader requests are reported or None is.
"""
import json

from . import lib
from . import scope_gen as G
from . import scope_ref as R

RULE = ("undeclared: statement trees (C03 generator, size <= 12 / 25, all constructs) x 2 data assignments; distinct = "
        "(source, data); non-trivial = at least one context lookup happened and at least one name of the template is "
        "NOT looked up (bound by the template). referenced: one reference node per template, kinds extends / include / "
        "import / from-import x name forms {constant, list, tuple, conditional, dynamic, non-string, constant tuple "
        "(AST)} x data; non-trivial = at least one loader request.")

RULE += (" Round 7: (a) statement trees over the extended C03 syntax (tuple targets, recursive loops, break / continue, "
         "filtered block sets) on render arguments of many Python kinds, oracle only; (b) template SETS of the shared "
         "generator (extends + blocks + super, include with / without context / ignore missing / lists, import / from "
         "import with / without context, macros, call blocks, filters, tests, subscripts, conditional expressions, "
         "plus trans / do / debug / loop controls snippets and dynamic include names), rendered under the configurations "
         "sync / async / sandboxed / unoptimized / autoescape / overlay / bytecode cache, each environment used for a "
         "second render on other data (template cache warm): every recorded lookup must be reported for the template "
         "whose context did it (for the whole inheritance chain when the set uses extends), every loader request must be "
         "reported by some template of the set or None must be.")

SET_CONFIGS = ["sync", "async", "sandbox", "unoptimized", "autoescape", "overlay", "bccache", "async_sandbox", "autoescape_select",
               "i18n_noinstall"]


class Lookups(list):
    """lookups made by template code; .by_callables: made by context-passing callables on their own account"""
    def __init__(self):
        super().__init__()
        self.by_callables = []
SET_EXTS = ["jinja2.ext.i18n", "jinja2.ext.do", "jinja2.ext.loopcontrols", "jinja2.ext.debug"]
SNIPPETS = [
    "{% trans %}T {{ a }} and {{ b }}{% endtrans %}",
    "{% trans n=c|default(1)|int %}one {{ x }}{% pluralize %}{{ n }} of {{ y }}{% endtrans %}",
    "{% trans u=x|string %}U {{ u }} {{ y }}{% endtrans %}",
    "{% do [a, y] %}",
    "{% for q in [1, 2, 3] %}{% if q == b %}{% break %}{% endif %}{{ q }}{% if x %}{% continue %}{% endif %}{{ y }}{% endfor %}",
    "{% for q, w in [(1, a), (2, c)] %}{{ q }}{{ w }}{% endfor %}",
    "{% for q in [[1, [2]], [3]] recursive %}{% if q is iterable %}{{ loop(q) }}{% else %}{{ q }}{{ c }}{% endif %}{% endfor %}",
    "{% set q | default(y) %}{{ x }}{% endset %}{{ q }}",
    "{% set ns = namespace(v=a) %}{% for q in [1] %}{% set ns.v = b %}{% endfor %}{{ ns.v }}",
    "{% for q in a %}{{ q }}{% else %}no {{ loop }}{% endfor %}",
    "{% for q in [1, 2] if loop %}{{ q }}{% endfor %}{{ loop }}",
    "{{ varargs }}{{ kwargs }}{{ caller }}",
    "{% macro sp() %}{{ loop }}{{ super }}{% endmacro %}{{ sp() }}",
    "{{ _('hello') }}{{ gettext('x') if gettext is defined else '' }}",
    "{% include dyn ignore missing %}",
    "{% include [dyn, 'nope.html'] ignore missing %}",
    "{% include ('inc1.html' if a else dyn) ignore missing %}",
    "{% macro mm(p, q=x) %}{{ p }}{{ q }}{{ y }}{{ caller() if caller else '' }}{% endmacro %}{% call mm(a) %}{{ b }}{% endcall %}",
    "{{ [q for q in []] if false else a }}" if False else "{{ (a if b else c) }}",
    "{{ self }}"[:0] + "{% with a = y, q = a %}{{ a }}{{ q }}{% endwith %}",
]


SPECIAL = ["loop", "caller", "kwargs", "varargs", "super", "self"]
CONTAINERS = [
    ("{% set w0 %}", "{% endset %}{{ w0 }}"),
    ("{% set w0 | upper %}", "{% endset %}{{ w0 }}"),
    ("{% autoescape true %}", "{% endautoescape %}"),
    ("{% autoescape false %}", "{% endautoescape %}"),
    ("{% filter upper %}", "{% endfilter %}"),
    ("{% with %}", "{% endwith %}"),
    ("{% with w0 = 1 %}", "{% endwith %}"),
    ("{% if true %}", "{% endif %}"),
    ("{% if false %}{% else %}", "{% endif %}"),
    ("{% for w0 in [1] %}", "{% endfor %}"),
    ("{% for w0 in [] %}{% else %}", "{% endfor %}"),
    ("{% macro w0() %}", "{% endmacro %}{{ w0() }}"),
    ("{% macro w1() %}{{ caller() }}{% endmacro %}{% call w1() %}", "{% endcall %}"),
]


SPECIAL_NAMES = ["p/Q&A.html", "p/Q&amp;A.html", "o'x.txt", "o&#39;x.txt", "a<b", "a&lt;b", "plain.html"]


def const_name_snippet(rng):
    """a reference whose template name is a CONSTANT EXPRESSION (concatenation, |safe-marked operands, filters,
    conditional expression over constants): evaluated under the eval context in force where it stands"""
    parts = rng.choice([("p/", "Q&A.html"), ("o'", "x.txt"), ("a<", "b"), ("pla", "in.html"), ("inc", "1.html")])
    ops = []
    for x in parts:
        lit = '"' + x + '"'
        ops.append(lit + rng.choice(["", "", "|safe", "|string", "|lower"]))
    name = "(" + " ~ ".join(ops) + ")"
    k = rng.random()
    if k < 0.2:
        name = "(" + name + " if true else 'nope.html')"
    elif k < 0.3:
        name = "[" + name + ", 'nope.html']"
    kind = rng.random()
    if kind < 0.6:
        ref = "{% include " + name + " ignore missing %}"
    elif kind < 0.8:
        ref = "{% import " + name + " as cq %}"
    else:
        ref = "{% from " + name + " import zz %}"
    ae = rng.choice(["", "", "true", "false"])
    return "{% autoescape " + ae + " %}" + ref + "{% endautoescape %}" if ae else ref


def wrap(rng, src):
    """the whole template body inside 1-2 randomly chosen statement containers"""
    for _ in range(rng.randint(1, 2)):
        a, b = rng.choice(CONTAINERS)
        src = a + src + b
    return src


_CTX_METHODS = ("resolve", "get", "__getitem__", "__contains__", "resolve_or_missing")


def set_env(jinja2, cfg, templates, lookups, requests):
    from jinja2.runtime import Context
    from jinja2.sandbox import SandboxedEnvironment

    class RecLoader(jinja2.DictLoader):
        def get_source(self, environment, template):
            requests.append(template)
            return super().get_source(environment, template)

    import sys

    class RecContext(Context):
        def resolve_or_missing(self, key):
            # who asks?  Generated template code calls this method directly (its namespace has no __name__).
            # A context-passing callable that the TEMPLATE invoked (a @pass_context global / filter such as the i18n
            # alias `_`) asks through Context.resolve / get / __getitem__: its lookups are its own — the statement is
            # about names the template looks up, find_undeclared_variables analyses the template's AST.  Everything
            # else (the engine's own machinery: get_exported, module construction, ...) is judged like template code.
            f = sys._getframe(1)
            while f is not None and f.f_code.co_name in _CTX_METHODS and f.f_globals.get("__name__") == "jinja2.runtime":
                f = f.f_back
            own = False
            if f is not None and "__name__" in f.f_globals:
                up = f.f_back
                while up is not None and up.f_globals.get("__name__") == "jinja2.runtime" and up.f_code.co_name in ("call", "_invoke"):
                    up = up.f_back
                own = up is not None and "__name__" not in up.f_globals
            if own:
                by_callables.append((self.name, key))
            else:
                lookups.append((self.name, key))
            return super().resolve_or_missing(key)

    by_callables = lookups.by_callables if hasattr(lookups, "by_callables") else []
    kw = dict(loader=RecLoader(templates), extensions=SET_EXTS)
    if cfg in ("async", "async_sandbox"):
        kw["enable_async"] = True
    if cfg == "unoptimized":
        kw["optimized"] = False
    if cfg == "autoescape":
        kw["autoescape"] = True
    if cfg == "autoescape_select":
        kw["autoescape"] = jinja2.select_autoescape(["html"], default_for_string=False)
    if cfg == "bccache":
        from jinja2.bccache import BytecodeCache

        class DictBC(BytecodeCache):
            store = {}

            def load_bytecode(self, bucket):
                if bucket.key in self.store:
                    bucket.bytecode_from_string(self.store[bucket.key])

            def dump_bytecode(self, bucket):
                self.store[bucket.key] = bucket.bytecode_to_string()
        DictBC.store = {}
        kw["bytecode_cache"] = DictBC()
    env = (SandboxedEnvironment if "sandbox" in cfg else jinja2.Environment)(**kw)
    env.context_class = RecContext
    if cfg == "overlay":
        env = env.overlay(cache_size=7, optimized=False)
    if cfg != "i18n_noinstall":      # there `_` resolves gettext from the render arguments at run time
        env.install_null_translations(newstyle=cfg in ("async", "autoescape"))
    return env


def exotic(rng, d):
    """some render arguments of other Python kinds"""
    for k in list(d):
        j = rng.random()
        if j < 0.06:
            d[k] = R.make_value(("markup", "<m>"))
        elif j < 0.12:
            d[k] = tuple(d[k]) if isinstance(d[k], list) else bool(d[k])
        elif j < 0.16:
            d[k] = R.make_value(("gen", [1, 2]))
        elif j < 0.2:
            d[k] = R.make_value(rng.choice([("gio", [1]), ("io", [2, 3]), ("substr", "ss"), ("plain", 1.5), ("ar",)]))
    return d


def part_sets(ctx, jinja2):
    from jinja2 import meta
    from .gen_templates import TGen
    rng = ctx.rng
    for i in range(ctx.size(450, 4000)):
        g = TGen(rng, depth=rng.randint(1, 3))
        ts, main = g.template_set()
        for _ in range(rng.randint(0, 2)):
            sn = rng.choice(SNIPPETS)
            if "{% block" in ts[main] and ("{% include" in sn or "{% macro" in sn):
                tgt = rng.choice([k for k in ts if k != main] or [main])
            else:
                tgt = rng.choice(list(ts))
            if "{% extends" in ts[tgt] or (tgt == "inc1.html" and "inc1.html" in sn):
                continue
            ts[tgt] = ts[tgt] + sn if rng.random() < 0.5 else sn + ts[tgt]
        # template names that are constant expressions (and loader entries whose names need escaping)
        if rng.random() < 0.3:
            for n in SPECIAL_NAMES:
                ts.setdefault(n, "{% macro zz() %}z{% endmacro %}S")
            tgt = rng.choice([k for k in ts if "{% extends" not in ts[k] and k not in SPECIAL_NAMES])
            ts[tgt] = ts[tgt] + const_name_snippet(rng)
        # every statement under every kind of container
        for name in list(ts):
            if rng.random() < 0.3 and "{% block" not in ts[name] and "{% extends" not in ts[name]:
                ts[name] = wrap(rng, ts[name])
        cfg = SET_CONFIGS[i % len(SET_CONFIGS)]
        lookups, requests = Lookups(), []
        env = set_env(jinja2, cfg, ts, lookups, requests)
        globals_ = set(env.globals)
        und, ref, bad = {}, {}, False
        for name, src in ts.items():
            try:
                ast = env.parse(src)
                und[name] = set(meta.find_undeclared_variables(ast))
                ref[name] = list(meta.find_referenced_templates(ast))
            except Exception as e:  # noqa
                bad = True
        if bad:
            ctx.count("sets_syntax_error")
            continue
        uses_extends = any("{% extends" in s_ for s_ in ts.values())
        all_und = set().union(*und.values())
        all_ref = [r for v in ref.values() for r in v]
        datas = [exotic(rng, g.data()) for _ in range(2)]
        for k, d in enumerate(datas):
            if rng.random() < 0.5:
                # (never a template that includes `dyn` itself: unbounded self-inclusion only burns time)
                d["dyn"] = rng.choice([t for t in ts if "dyn" not in ts[t]] + ["nope.html", 3]
                                      + ([["inc1.html"]] if "dyn" not in ts.get("inc1.html", "") else []))
            del lookups[:], requests[:], lookups.by_callables[:]
            if cfg == "i18n_noinstall" and rng.random() < 0.7:
                d["gettext"] = str.upper
                d["ngettext"] = lambda a, b, n: a if n == 1 else b      # noqa
            try:
                env.get_template(main).render(**d)
                status = "ok"
            except RecursionError:
                status = "Fuel"
            except Exception as e:  # noqa
                status = type(e).__name__
            seen = sorted(set(lookups), key=repr)
            asked = [r for r in requests if isinstance(r, str)]
            if asked[:1] == [main]:
                asked = asked[1:]       # the harness's own get_template(main)
            case = {"templates": ts, "main": main, "data": {a: repr(b) for a, b in d.items()}, "config": cfg,
                    "render": k, "kind": "set"}
            bound = all_und and len({n for _, n in seen}) < len(all_und | {n for _, n in seen}) or True
            ctx.case(key=("set", json.dumps(ts, sort_keys=True), repr(sorted(case["data"].items())), cfg, k) if seen and len(ts) > 1 else None,
                     sample={"templates": ts, "config": cfg, "lookups": [list(x) for x in seen][:12], "requests": asked}
                     if len(ts) > 2 and i % 50 == 3 and k == 0 else None)
            ctx.count("sets_" + cfg + "_" + ("ok" if status == "ok" else "error"))
            if lookups.by_callables:
                ctx.count("sets_lookups_made_by_context_callables", len(lookups.by_callables))
            extra = [(t, n) for t, n in seen if n not in globals_ and n not in (all_und if uses_extends or t not in und else und[t])]
            if extra:
                ctx.reject(case, f"context lookups {extra} (template, name) are not reported by find_undeclared_variables "
                                 f"{ {t: sorted(v) for t, v in und.items()} }", None)
                continue
            missing = [r for r in asked if r not in all_ref]
            if missing and None not in all_ref:
                ctx.reject(case, f"templates {missing} were requested from the loader but find_referenced_templates "
                                 f"reports {ref}", None)
                continue
            ctx.validated()


def part_extended(ctx, jinja2):
    """oracle only: the extended C03 syntax and render arguments of many kinds"""
    from jinja2 import meta
    resolves = []
    env = G.make_env(jinja2, resolves=resolves)
    env.add_extension("jinja2.ext.loopcontrols")
    globals_ = sorted(env.globals)
    rng = ctx.rng
    for i in range(ctx.size(800, 6000)):
        g = R.EGen(rng, size=rng.randint(3, ctx.size(14, 22)))
        p = g.program()
        ds = g.dspec()
        if i % 3 == 0:
            # identifiers the compiler treats specially in SOME positions, used as ordinary variables
            m = dict(zip(rng.sample(["a", "b", "c", "n"], 2), rng.sample(SPECIAL, 2)))
            p = R.rename2(p, m)
            ds = {m.get(x, x): v for x, v in ds.items()}
        src = R.p2_src(p)
        # C32 is indifferent to the C03 read-before-write finding: all names may be supplied
        try:
            real_und = sorted(meta.find_undeclared_variables(env.parse(src)))
            t = env.from_string(src)
        except Exception as e:  # noqa
            ctx.count("ext_compile_" + type(e).__name__)
            continue
        if R.Ref(R.make_data(ds)).render(p)[0] == "skip":
            ctx.count("ext_skipped_budget")      # the text explodes (a loop doubling a string): not rendered
            continue
        del resolves[:]
        try:
            t.render(**R.make_data(ds))
            status = "ok"
        except Exception as e:  # noqa
            status = type(e).__name__
        seen = sorted(set(resolves))
        ctx.case(key=("ext", src, repr(sorted(ds.items()))) if seen else None)
        ctx.count("ext_render_" + ("ok" if status == "ok" else "error"))
        extra = [x for x in seen if x not in real_und and x not in globals_]
        if extra:
            ctx.reject({"src": src, "dspec_repr": repr(ds), "kind": "ext"},
                       f"context lookups {extra} are not reported by find_undeclared_variables {real_und}", None)
        else:
            ctx.validated()


TEMPLATES = {"a": "{% macro z() %}Za{% endmacro %}A", "b": "{% macro z() %}Zb{% endmacro %}B",
             "c": "{% macro z() %}Zc{% endmacro %}C"}


def und_line(p, N, globals_):
    prog = " ".join(G.s_sx(s, N) for s in p)
    return "(und (globals " + " ".join(str(N.id(g)) for g in globals_) + f") (prog {prog}))"


def part_undeclared(ctx, jinja2):
    from jinja2 import meta
    resolves = []
    env = G.make_env(jinja2, resolves=resolves)
    globals_ = sorted(env.globals)
    rng = ctx.rng
    nprog = ctx.size(1200, 10000)
    size = ctx.size(12, 25)
    cases, lines = [], []
    for i in range(nprog):
        g = G.SGen(rng, size=rng.randint(3, size))
        p = g.program()
        N = G.Names()
        datas = [g.data() for _ in range(2)]
        first = len(lines)
        lines.append(und_line(p, N, globals_))
        for d in datas:
            lines.append(G.run_line(p, d, N))
        cases.append((p, N, datas, first))
    st = {}
    out = G.run_driver(lines, stats=st)
    if st.get("skipped"):
        ctx.count("skipped_model_did_not_finish", st["skipped"])
    bad_meta, bad_log = [], []
    for p, N, datas, first in cases:
        if any(o is None for o in out[first:first + 1 + len(datas)]):
            continue
        src = G.p_src(p)
        mu, nocall = out[first].split(" | ")
        model_und = sorted(N.rev[int(x)] for x in mu.split(",") if x)
        try:
            ast = env.parse(src)
            real_und = sorted(meta.find_undeclared_variables(ast))
        except Exception as e:  # noqa
            real_und = ["<" + type(e).__name__ + ">"]
        ctx.count("kmeta")
        case0 = {"src": src, "prog": p}
        if model_und != real_und:
            bad_meta.append((len(src), case0, model_und, real_und))
        else:
            ctx.validated()
        names = {x for x in G.Names().ids} | set(N.ids)
        for k, d in enumerate(datas):
            f, s, model_log, guards = G.parse_run(out[first + 1 + k], N)
            del resolves[:]
            try:
                t = env.from_string(src)
                try:
                    t.render(**d)
                    status = "ok"
                except RecursionError:
                    status = "Fuel"
                except Exception as e:  # noqa
                    status = type(e).__name__
            except Exception as e:  # noqa
                status = "compile:" + type(e).__name__
            seen = sorted(set(resolves))
            bound = [x for x in N.ids if x not in seen and x not in G.RESERVED]
            nontriv = bool(seen) and bool(bound)
            ctx.case(sample={"src": src, "data": d, "lookups": seen, "reported": real_und} if nontriv and len(src) > 50 else None,
                     key=(src, json.dumps(d, sort_keys=True)) if nontriv else None)
            ctx.count("render_" + status.split(":")[0] + ("_nocall" if nocall == "1" else "_calls"))
            case = dict(case0, data=d)
            # oracle: inclusion
            extra = [x for x in seen if x not in real_und and x not in globals_]
            if extra:
                ctx.reject(case, f"context lookups {extra} are not reported by find_undeclared_variables {real_und}", None)
                continue
            # K-log on completed renders (the model keeps the log of completed runs only)
            if status == "ok" and f[0] == "ok":
                if model_log != seen:
                    bad_log.append((len(src), case, model_log, seen))
                else:
                    ctx.validated()
    for _, case, m, r in sorted(bad_meta, key=lambda t: t[0])[:5]:
        ctx.model_mismatch("K-meta find_undeclared_variables", case, m, r, None)
    for _, case, m, r in sorted(bad_log, key=lambda t: t[0])[:5]:
        ctx.model_mismatch("K-log resolve calls of a completed render", case, m, r, None)


# ------------------------------------------------------------------ referenced templates
def name_sx(s):
    return "(s" + "".join(f" {ord(c)}" for c in s) + ")"


class RefGen:
    def __init__(self, rng):
        self.r = rng

    def tname(self):
        return self.r.choice(["a", "b", "c", "nope", "q"])

    def texpr(self):
        """returns (source text, s-expression, AST patch or None)"""
        r = self.r
        k = r.random()
        if k < 0.2:
            n = self.tname()
            return f'"{n}"', f"(c {name_sx(n)})", None
        if k < 0.45:
            items = []
            for _ in range(r.randint(0, 3)):
                j = r.random()
                if j < 0.5:
                    n = self.tname()
                    items.append((f'"{n}"', f"(ic {name_sx(n)})"))
                elif j < 0.85:
                    x = r.choice(["x", "y"])
                    items.append((x, f"(id {{{x}}})"))
                else:
                    items.append((str(r.randint(0, 9)), "(ic other)"))
            br = r.choice(["[]", "()"])
            inner = ", ".join(i[0] for i in items)
            if br == "()" and len(items) == 1:
                inner += ","
            if br == "()" and not items:
                br = "[]"
            return br[0] + inner + br[1], "(seq " + " ".join(i[1] for i in items) + ")", None
        if k < 0.65:
            x = r.choice(["x", "y"])
            return x, f"(dyn {{{x}}})", None
        if k < 0.8:
            # conditional name: each branch is a constant or a variable
            def branch():
                if r.random() < 0.6:
                    n = self.tname()
                    return f'"{n}"', f"(ic {name_sx(n)})"
                x = r.choice(["x", "y"])
                return x, f"(id {{{x}}})"
            (sa, xa), (sb, xb) = branch(), branch()
            return f"{sa} if t else {sb}", f"(cond {{t}} {xa} {xb})", None
        if k < 0.9:
            return str(r.randint(0, 9)), "(c other)", None
        # a constant tuple: only reachable through the AST (optimizer / extensions)
        ns = [self.tname() for _ in range(r.randint(0, 3))]
        return '"a"', "(c (q " + " ".join(name_sx(n) for n in ns) + "))", tuple(ns)

    def data(self):
        r = self.r
        d = {}
        for x in ("x", "y"):
            k = r.random()
            if k < 0.5:
                d[x] = self.tname()
            elif k < 0.8:
                d[x] = [self.tname() for _ in range(r.randint(0, 2))]
        d["t"] = r.random() < 0.5
        return d


def part_referenced(ctx, jinja2):
    from jinja2 import meta, nodes
    requests = []

    class RecLoader(jinja2.DictLoader):
        def get_source(self, environment, template):
            requests.append(template)
            return super().get_source(environment, template)

    env = jinja2.Environment(loader=RecLoader(TEMPLATES), cache_size=0)
    env.globals.clear()
    rng = ctx.rng
    gen = RefGen(rng)
    N = G.Names()
    ids = {v: N.id(v) for v in ("x", "y", "t")}
    n = ctx.size(1500, 12000)
    cases, lines = [], []
    for i in range(n):
        kind = rng.choice("eimf")
        src_e, sx, patch = gen.texpr()
        sx = sx.format(**{k: str(v) for k, v in ids.items()})
        if kind == "e":
            src = "{% extends " + src_e + " %}"
        elif kind == "i":
            src = "{% include " + src_e + (" ignore missing" if rng.random() < 0.4 else "") + " %}"
        elif kind == "m":
            src = "{% import " + src_e + " as q %}{{ q.z() }}"
        else:
            src = "{% from " + src_e + " import z %}{{ z() }}"
        d = gen.data()
        dv = " ".join("(" + str(ids[x]) + " " + " ".join(name_sx(v) for v in ([d[x]] if isinstance(d[x], str) else d[x])) + ")"
                      for x in ("x", "y") if x in d)
        truth = str(ids["t"]) if d["t"] else ""
        have = " ".join(name_sx(k) for k in TEMPLATES)
        lines.append(f"(ref {kind} {sx})")
        lines.append(f"(req {kind} {sx} (dv {dv}) (truth {truth}) (have {have}))")
        cases.append((kind, src, sx, patch, d))
    out = G.run_driver(lines)
    bad_ref, bad_req = [], []
    for i, (kind, src, sx, patch, d) in enumerate(cases):
        mref = [None if x == "N" else G.expand_text(x[1:], N) for x in out[2 * i].split(";") if x]
        mreq = [G.expand_text(x, N) for x in out[2 * i + 1].split(";")] if out[2 * i + 1] else []
        case = {"src": src, "data": d, "kind": kind, "const_tuple": list(patch) if patch is not None else None, "sx": sx}
        try:
            ast = env.parse(src)
            if patch is not None:
                node = next(ast.find_all((nodes.Extends, nodes.Include, nodes.Import, nodes.FromImport)))
                node.template = nodes.Const(patch)
            real_ref = list(meta.find_referenced_templates(ast))
        except Exception as e:  # noqa
            real_ref = ["<" + type(e).__name__ + ">"]
            ast = None
        ctx.count("kref_" + kind)
        if mref != real_ref:
            bad_ref.append((len(src), case, mref, real_ref))
        else:
            ctx.validated()
        # run it
        del requests[:]
        status = "ok"
        try:
            t = env.from_string(ast if ast is not None else src)
            t.render(**d)
        except Exception as e:  # noqa
            status = type(e).__name__
        asked = [r for r in requests if isinstance(r, str)]
        ctx.case(sample={"src": src, "data": d, "reported": real_ref, "loader_requests": list(asked)} if asked and len(ctx.samples) < 6 and i % 7 == 0 else None,
                 key=(src, json.dumps(d, sort_keys=True), str(patch)) if asked else None)
        ctx.count("ref_render_" + status)
        missing = [r for r in asked if r not in real_ref]
        if missing and None not in real_ref:
            ctx.reject(case, f"templates {missing} were requested from the loader but find_referenced_templates reports {real_ref}", None)
            continue
        # K-req: the runtime model of the requests (string-valued names)
        strvalued = all(isinstance(r, str) for r in requests)
        simple = kind == "i" or sx.startswith("(c (s") or sx.startswith("(cond") or (sx.startswith("(dyn") and isinstance(d.get("x" if str(ids["x"]) in sx else "y", ""), str))
        if strvalued and simple and status in ("ok", "TemplateNotFound", "TemplatesNotFound", "UndefinedError"):
            if asked != mreq:
                bad_req.append((len(src), case, mreq, asked))
            else:
                ctx.validated()
    for _, case, m, r in sorted(bad_ref, key=lambda t: t[0])[:5]:
        ctx.model_mismatch("K-ref find_referenced_templates", case, m, r, None)
    for _, case, m, r in sorted(bad_req, key=lambda t: t[0])[:5]:
        ctx.model_mismatch("K-req loader requests", case, m, r, None)


def run(ctx):
    jinja2 = lib.use_repo_jinja()
    ctx.extra["rule"] = RULE
    ctx.assumptions += [
        "generated code reaches the context only through resolve = context.resolve_or_missing (recorded by a Context subclass)",
        "the model keeps the resolve log of completed renders; renders ending in an error are judged by the oracle (inclusion) only",
        "template names are strings; loader requests are recorded in get_source with the template cache disabled",
    ]
    import time
    t0 = time.time()
    ph = ctx.extra.setdefault("phase_seconds", {})
    ctx.proof("C32")
    ph["proof"] = round(time.time() - t0, 1)
    part_undeclared(ctx, jinja2)
    ph["undeclared"] = round(time.time() - t0, 1)
    part_referenced(ctx, jinja2)
    ph["referenced"] = round(time.time() - t0, 1)
    import resource
    soft, hard = resource.getrlimit(resource.RLIMIT_AS)
    try:
        # generated programs can double a string in nested loops: a MemoryError (an ordinary failed render) instead
        # of the kernel's OOM killer, should one get past the size vetting
        with open("/proc/self/statm") as f:
            cur = int(f.read().split()[0]) * resource.getpagesize()
        lim = cur + (4 << 30)
        resource.setrlimit(resource.RLIMIT_AS, (lim if hard == resource.RLIM_INFINITY else min(lim, hard), hard))
        part_extended(ctx, jinja2)
        ph["extended"] = round(time.time() - t0, 1)
        import warnings
        with warnings.catch_warnings():
            # {{ loop }} in async mode: LoopContext.__repr__ reads the async property `length` without awaiting it
            # (cosmetic, outside this property; reported to the coordinator)
            warnings.filterwarnings("ignore", message="coroutine .* was never awaited", category=RuntimeWarning)
            part_sets(ctx, jinja2)
        ph["sets"] = round(time.time() - t0, 1)
    finally:
        resource.setrlimit(resource.RLIMIT_AS, (soft, hard))


def replay(ctx, data):
    jinja2 = lib.use_repo_jinja()
    case = data.get("case")
    if data.get("kind") != "failing-input" or not isinstance(case, dict):
        print("replay: this file names a broken theorem / correspondence, not an input:", data.get("broken"))
        return run(ctx)
    from jinja2 import meta, nodes
    if case.get("kind") == "set":
        import ast as pyast
        lookups, requests = [], []
        ts = case["templates"]
        env = set_env(jinja2, case["config"], ts, lookups, requests)
        d = {}
        for k, v in case["data"].items():
            if k in ("gettext", "ngettext"):
                d[k] = str.upper if k == "gettext" else (lambda a, b, n: a if n == 1 else b)
                continue
            try:
                d[k] = pyast.literal_eval(v)
            except Exception:  # noqa
                d[k] = R.make_value(("markup", "<m>")) if v.startswith("Markup") else R.make_value(("gen", [1, 2]))
        und = {n: sorted(meta.find_undeclared_variables(env.parse(s_))) for n, s_ in ts.items()}
        ref = {n: list(meta.find_referenced_templates(env.parse(s_))) for n, s_ in ts.items()}
        try:
            env.get_template(case["main"]).render(**d)
            status = "ok"
        except Exception as e:  # noqa
            status = type(e).__name__
        print("templates:", ts, "\ndata:", d, "\nundeclared:", und, "\nreferenced:", ref, "\nlookups:", sorted(set(lookups)),
              "\nrequests:", requests, status)
        uses_extends = any("{% extends" in s_ for s_ in ts.values())
        all_und = set().union(*map(set, und.values()))
        extra = [(t, n) for t, n in set(lookups) if n not in env.globals and n not in (all_und if uses_extends or t not in und else und[t])]
        all_ref = [r for v in ref.values() for r in v]
        missing = [r for r in requests[1:] if isinstance(r, str) and r not in all_ref]
        if extra:
            ctx.reject(case, f"context lookups {extra} are not reported by find_undeclared_variables {und}", None)
        elif missing and None not in all_ref:
            ctx.reject(case, f"templates {missing} requested but not reported {ref}", None)
        return
    if case.get("kind") == "ext":
        import ast as pyast
        resolves = []
        env = G.make_env(jinja2, resolves=resolves)
        env.add_extension("jinja2.ext.loopcontrols")
        src, ds = case["src"], pyast.literal_eval(case["dspec_repr"])
        real_und = sorted(meta.find_undeclared_variables(env.parse(src)))
        try:
            env.from_string(src).render(**R.make_data(ds))
            status = "ok"
        except Exception as e:  # noqa
            status = type(e).__name__
        seen = sorted(set(resolves))
        print("template:", src, "\ndata:", ds, "\nreported:", real_und, "\nlookups:", seen, status)
        extra = [x for x in seen if x not in real_und and x not in env.globals]
        if extra:
            ctx.reject(case, f"context lookups {extra} are not reported by find_undeclared_variables {real_und}", None)
        return
    src, d = case["src"], case.get("data", {})
    if "kind" in case:
        requests = []

        class RecLoader(jinja2.DictLoader):
            def get_source(self, environment, template):
                requests.append(template)
                return super().get_source(environment, template)
        env = jinja2.Environment(loader=RecLoader(TEMPLATES), cache_size=0)
        ast = env.parse(src)
        if case.get("const_tuple") is not None:
            node = next(ast.find_all((nodes.Extends, nodes.Include, nodes.Import, nodes.FromImport)))
            node.template = nodes.Const(tuple(case["const_tuple"]))
        real_ref = list(meta.find_referenced_templates(ast))
        try:
            env.from_string(ast).render(**d)
            status = "ok"
        except Exception as e:  # noqa
            status = type(e).__name__
        asked = [r for r in requests if isinstance(r, str)]
        print("template:", src, "\ndata:", d, "\nreported:", real_ref, "\nrequested:", asked, status)
        missing = [r for r in asked if r not in real_ref]
        if missing and None not in real_ref:
            ctx.reject(case, f"templates {missing} requested but not reported {real_ref}", None)
        return
    resolves = []
    env = G.make_env(jinja2, resolves=resolves)
    real_und = sorted(meta.find_undeclared_variables(env.parse(src)))
    try:
        env.from_string(src).render(**d)
        status = "ok"
    except Exception as e:  # noqa
        status = type(e).__name__
    seen = sorted(set(resolves))
    print("template:", src, "\ndata:", d, "\nreported:", real_und, "\nlookups:", seen, status)
    extra = [x for x in seen if x not in real_und and x not in env.globals]
    if extra:
        ctx.reject(case, f"context lookups {extra} are not reported by find_undeclared_variables {real_und}", None)
