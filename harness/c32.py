"""C32 — static template introspection over-approximates runtime behaviour.

proof : Properties/C32.v — resolves_subset_undeclared_partial (every resolve() a completed render
        executes is reported by find_undeclared_variables or is a global; all programs without
        macro calls), static_resolves_reported (all programs, static), referenced_templates_cover.
tie   : K-meta  model meta_undeclared == real meta.find_undeclared_variables (set equality) on
                generated statement trees (C03 generator, all constructs);
        K-log   model resolve log == the names recorded by a recording Context subclass
                (resolve_or_missing) on completed renders;
        K-ref   model referenced == real list(meta.find_referenced_templates(ast)) (exact, ordered)
                for extends / include / import / from-import with constant, list, tuple,
                conditional, dynamic and non-string names; model requested == the names a
                recording loader was asked for.
oracle: inclusion on the real engine: recorded lookups <= reported undeclared + globals (also
        for renders that end in an error); recorded loader requests are reported or None is.
"""
import json

from . import lib
from . import scope_gen as G

RULE = ("undeclared: statement trees (C03 generator, size <= 12 / 25, all constructs) x 2 data assignments; distinct = "
        "(source, data); non-trivial = at least one context lookup happened and at least one name of the template is "
        "NOT looked up (bound by the template). referenced: one reference node per template, kinds extends / include / "
        "import / from-import x name forms {constant, list, tuple, conditional, dynamic, non-string, constant tuple "
        "(AST)} x data; non-trivial = at least one loader request.")

TEMPLATES = {"a": "{% macro z() %}Za{% endmacro %}A", "b": "{% macro z() %}Zb{% endmacro %}B",
             "c": "{% macro z() %}Zc{% endmacro %}C"}


def und_line(p, N, globals_):
    prog = " ".join(G.s_sx(s, N) for s in p)
    return "(und (globals " + " ".join(str(N.id(g)) for g in globals_) + f") (prog {prog}))"


def part_undeclared(ctx, jinja2):
    from jinja2 import meta
    resolves = []
    env = G.make_env(jinja2, resolves=resolves)
    globals_ = sorted(env.globals)
    rng = ctx.rng
    nprog = ctx.size(1200, 10000)
    size = ctx.size(12, 25)
    cases, lines = [], []
    for i in range(nprog):
        g = G.SGen(rng, size=rng.randint(3, size))
        p = g.program()
        N = G.Names()
        datas = [g.data() for _ in range(2)]
        first = len(lines)
        lines.append(und_line(p, N, globals_))
        for d in datas:
            lines.append(G.run_line(p, d, N))
        cases.append((p, N, datas, first))
    st = {}
    out = G.run_driver(lines, stats=st)
    if st.get("skipped"):
        ctx.count("skipped_model_did_not_finish", st["skipped"])
    bad_meta, bad_log = [], []
    for p, N, datas, first in cases:
        if any(o is None for o in out[first:first + 1 + len(datas)]):
            continue
        src = G.p_src(p)
        mu, nocall = out[first].split(" | ")
        model_und = sorted(N.rev[int(x)] for x in mu.split(",") if x)
        try:
            ast = env.parse(src)
            real_und = sorted(meta.find_undeclared_variables(ast))
        except Exception as e:  # noqa
            real_und = ["<" + type(e).__name__ + ">"]
        ctx.count("kmeta")
        case0 = {"src": src, "prog": p}
        if model_und != real_und:
            bad_meta.append((len(src), case0, model_und, real_und))
        else:
            ctx.validated()
        names = {x for x in G.Names().ids} | set(N.ids)
        for k, d in enumerate(datas):
            f, s, model_log, guards = G.parse_run(out[first + 1 + k], N)
            del resolves[:]
            try:
                t = env.from_string(src)
                try:
                    t.render(**d)
                    status = "ok"
                except RecursionError:
                    status = "Fuel"
                except Exception as e:  # noqa
                    status = type(e).__name__
            except Exception as e:  # noqa
                status = "compile:" + type(e).__name__
            seen = sorted(set(resolves))
            bound = [x for x in N.ids if x not in seen and x not in G.RESERVED]
            nontriv = bool(seen) and bool(bound)
            ctx.case(sample={"src": src, "data": d, "lookups": seen, "reported": real_und} if nontriv and len(src) > 50 else None,
                     key=(src, json.dumps(d, sort_keys=True)) if nontriv else None)
            ctx.count("render_" + status.split(":")[0] + ("_nocall" if nocall == "1" else "_calls"))
            case = dict(case0, data=d)
            # oracle: inclusion
            extra = [x for x in seen if x not in real_und and x not in globals_]
            if extra:
                ctx.reject(case, f"context lookups {extra} are not reported by find_undeclared_variables {real_und}", None)
                continue
            # K-log on completed renders (the model keeps the log of completed runs only)
            if status == "ok" and f[0] == "ok":
                if model_log != seen:
                    bad_log.append((len(src), case, model_log, seen))
                else:
                    ctx.validated()
    for _, case, m, r in sorted(bad_meta, key=lambda t: t[0])[:5]:
        ctx.model_mismatch("K-meta find_undeclared_variables", case, m, r, None)
    for _, case, m, r in sorted(bad_log, key=lambda t: t[0])[:5]:
        ctx.model_mismatch("K-log resolve calls of a completed render", case, m, r, None)


# ------------------------------------------------------------------ referenced templates
def name_sx(s):
    return "(s" + "".join(f" {ord(c)}" for c in s) + ")"


class RefGen:
    def __init__(self, rng):
        self.r = rng

    def tname(self):
        return self.r.choice(["a", "b", "c", "nope", "q"])

    def texpr(self):
        """returns (source text, s-expression, AST patch or None)"""
        r = self.r
        k = r.random()
        if k < 0.2:
            n = self.tname()
            return f'"{n}"', f"(c {name_sx(n)})", None
        if k < 0.45:
            items = []
            for _ in range(r.randint(0, 3)):
                j = r.random()
                if j < 0.5:
                    n = self.tname()
                    items.append((f'"{n}"', f"(ic {name_sx(n)})"))
                elif j < 0.85:
                    x = r.choice(["x", "y"])
                    items.append((x, f"(id {{{x}}})"))
                else:
                    items.append((str(r.randint(0, 9)), "(ic other)"))
            br = r.choice(["[]", "()"])
            inner = ", ".join(i[0] for i in items)
            if br == "()" and len(items) == 1:
                inner += ","
            if br == "()" and not items:
                br = "[]"
            return br[0] + inner + br[1], "(seq " + " ".join(i[1] for i in items) + ")", None
        if k < 0.65:
            x = r.choice(["x", "y"])
            return x, f"(dyn {{{x}}})", None
        if k < 0.8:
            # conditional name: each branch is a constant or a variable
            def branch():
                if r.random() < 0.6:
                    n = self.tname()
                    return f'"{n}"', f"(ic {name_sx(n)})"
                x = r.choice(["x", "y"])
                return x, f"(id {{{x}}})"
            (sa, xa), (sb, xb) = branch(), branch()
            return f"{sa} if t else {sb}", f"(cond {{t}} {xa} {xb})", None
        if k < 0.9:
            return str(r.randint(0, 9)), "(c other)", None
        # a constant tuple: only reachable through the AST (optimizer / extensions)
        ns = [self.tname() for _ in range(r.randint(0, 3))]
        return '"a"', "(c (q " + " ".join(name_sx(n) for n in ns) + "))", tuple(ns)

    def data(self):
        r = self.r
        d = {}
        for x in ("x", "y"):
            k = r.random()
            if k < 0.5:
                d[x] = self.tname()
            elif k < 0.8:
                d[x] = [self.tname() for _ in range(r.randint(0, 2))]
        d["t"] = r.random() < 0.5
        return d


def part_referenced(ctx, jinja2):
    from jinja2 import meta, nodes
    requests = []

    class RecLoader(jinja2.DictLoader):
        def get_source(self, environment, template):
            requests.append(template)
            return super().get_source(environment, template)

    env = jinja2.Environment(loader=RecLoader(TEMPLATES), cache_size=0)
    env.globals.clear()
    rng = ctx.rng
    gen = RefGen(rng)
    N = G.Names()
    ids = {v: N.id(v) for v in ("x", "y", "t")}
    n = ctx.size(1500, 12000)
    cases, lines = [], []
    for i in range(n):
        kind = rng.choice("eimf")
        src_e, sx, patch = gen.texpr()
        sx = sx.format(**{k: str(v) for k, v in ids.items()})
        if kind == "e":
            src = "{% extends " + src_e + " %}"
        elif kind == "i":
            src = "{% include " + src_e + (" ignore missing" if rng.random() < 0.4 else "") + " %}"
        elif kind == "m":
            src = "{% import " + src_e + " as q %}{{ q.z() }}"
        else:
            src = "{% from " + src_e + " import z %}{{ z() }}"
        d = gen.data()
        dv = " ".join("(" + str(ids[x]) + " " + " ".join(name_sx(v) for v in ([d[x]] if isinstance(d[x], str) else d[x])) + ")"
                      for x in ("x", "y") if x in d)
        truth = str(ids["t"]) if d["t"] else ""
        have = " ".join(name_sx(k) for k in TEMPLATES)
        lines.append(f"(ref {kind} {sx})")
        lines.append(f"(req {kind} {sx} (dv {dv}) (truth {truth}) (have {have}))")
        cases.append((kind, src, sx, patch, d))
    out = G.run_driver(lines)
    bad_ref, bad_req = [], []
    for i, (kind, src, sx, patch, d) in enumerate(cases):
        mref = [None if x == "N" else G.expand_text(x[1:], N) for x in out[2 * i].split(";") if x]
        mreq = [G.expand_text(x, N) for x in out[2 * i + 1].split(";")] if out[2 * i + 1] else []
        case = {"src": src, "data": d, "kind": kind, "const_tuple": list(patch) if patch is not None else None, "sx": sx}
        try:
            ast = env.parse(src)
            if patch is not None:
                node = next(ast.find_all((nodes.Extends, nodes.Include, nodes.Import, nodes.FromImport)))
                node.template = nodes.Const(patch)
            real_ref = list(meta.find_referenced_templates(ast))
        except Exception as e:  # noqa
            real_ref = ["<" + type(e).__name__ + ">"]
            ast = None
        ctx.count("kref_" + kind)
        if mref != real_ref:
            bad_ref.append((len(src), case, mref, real_ref))
        else:
            ctx.validated()
        # run it
        del requests[:]
        status = "ok"
        try:
            t = env.from_string(ast if ast is not None else src)
            t.render(**d)
        except Exception as e:  # noqa
            status = type(e).__name__
        asked = [r for r in requests if isinstance(r, str)]
        ctx.case(sample={"src": src, "data": d, "reported": real_ref, "loader_requests": list(asked)} if asked and len(ctx.samples) < 6 and i % 7 == 0 else None,
                 key=(src, json.dumps(d, sort_keys=True), str(patch)) if asked else None)
        ctx.count("ref_render_" + status)
        missing = [r for r in asked if r not in real_ref]
        if missing and None not in real_ref:
            ctx.reject(case, f"templates {missing} were requested from the loader but find_referenced_templates reports {real_ref}", None)
            continue
        # K-req: the runtime model of the requests (string-valued names)
        strvalued = all(isinstance(r, str) for r in requests)
        simple = kind == "i" or sx.startswith("(c (s") or sx.startswith("(cond") or (sx.startswith("(dyn") and isinstance(d.get("x" if str(ids["x"]) in sx else "y", ""), str))
        if strvalued and simple and status in ("ok", "TemplateNotFound", "TemplatesNotFound", "UndefinedError"):
            if asked != mreq:
                bad_req.append((len(src), case, mreq, asked))
            else:
                ctx.validated()
    for _, case, m, r in sorted(bad_ref, key=lambda t: t[0])[:5]:
        ctx.model_mismatch("K-ref find_referenced_templates", case, m, r, None)
    for _, case, m, r in sorted(bad_req, key=lambda t: t[0])[:5]:
        ctx.model_mismatch("K-req loader requests", case, m, r, None)


def run(ctx):
    jinja2 = lib.use_repo_jinja()
    ctx.extra["rule"] = RULE
    ctx.assumptions += [
        "generated code reaches the context only through resolve = context.resolve_or_missing (recorded by a Context subclass)",
        "the model keeps the resolve log of completed renders; renders ending in an error are judged by the oracle (inclusion) only",
        "template names are strings; loader requests are recorded in get_source with the template cache disabled",
    ]
    ctx.proof("C32")
    part_undeclared(ctx, jinja2)
    part_referenced(ctx, jinja2)


def replay(ctx, data):
    jinja2 = lib.use_repo_jinja()
    case = data.get("case")
    if data.get("kind") != "failing-input" or not isinstance(case, dict):
        print("replay: this file names a broken theorem / correspondence, not an input:", data.get("broken"))
        return run(ctx)
    from jinja2 import meta, nodes
    src, d = case["src"], case.get("data", {})
    if "kind" in case:
        requests = []

        class RecLoader(jinja2.DictLoader):
            def get_source(self, environment, template):
                requests.append(template)
                return super().get_source(environment, template)
        env = jinja2.Environment(loader=RecLoader(TEMPLATES), cache_size=0)
        ast = env.parse(src)
        if case.get("const_tuple") is not None:
            node = next(ast.find_all((nodes.Extends, nodes.Include, nodes.Import, nodes.FromImport)))
            node.template = nodes.Const(tuple(case["const_tuple"]))
        real_ref = list(meta.find_referenced_templates(ast))
        try:
            env.from_string(ast).render(**d)
            status = "ok"
        except Exception as e:  # noqa
            status = type(e).__name__
        asked = [r for r in requests if isinstance(r, str)]
        print("template:", src, "\ndata:", d, "\nreported:", real_ref, "\nrequested:", asked, status)
        missing = [r for r in asked if r not in real_ref]
        if missing and None not in real_ref:
            ctx.reject(case, f"templates {missing} requested but not reported {real_ref}", None)
        return
    resolves = []
    env = G.make_env(jinja2, resolves=resolves)
    real_und = sorted(meta.find_undeclared_variables(env.parse(src)))
    try:
        env.from_string(src).render(**d)
        status = "ok"
    except Exception as e:  # noqa
        status = type(e).__name__
    seen = sorted(set(resolves))
    print("template:", src, "\ndata:", d, "\nreported:", real_und, "\nlookups:", seen, status)
    extra = [x for x in seen if x not in real_und and x not in env.globals]
    if extra:
        ctx.reject(case, f"context lookups {extra} are not reported by find_undeclared_variables {real_und}", None)
