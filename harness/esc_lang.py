"""The template language T of Model/EscLang.v on the python side: generator, printer to Jinja
source, serialiser for build/bin/esc, and the real engine run on the printed program.

Programs are nested tuples mirroring the Coq constructors:
  expr: ("V",x) ("L",s) ("C",a,b) ("F",fid,a,[args]) ("Q",c,a,b) ("M",m,[args]) ("K",)
  stmt: ("T",s) ("O",e) ("I",c,[t],[f]) ("R",x,l,[body]) ("S",x,e) ("B",x,[body])
        ("D",m,[params],[body]) ("A",m,[args],[body]) ("X",fid,[args],[body]) ("E",a,[body])
names are ints, printed n<int>; a in {"0","1","f"}.

Naming discipline (see EscLang.v): every set / loop / parameter / macro name is fresh, and an
expression only refers to names that are visible at that point.
"""
from __future__ import annotations

FILTERS = ["string", "lower", "upper", "safe", "escape", "forceescape", "default", "replace"]
F_STRING, F_LOWER, F_UPPER, F_SAFE, F_ESCAPE, F_FORCE, F_DEFAULT, F_REPLACE = range(8)
NEUTRAL = [F_STRING, F_LOWER, F_DEFAULT]
FLAG_NAME = "ae_flag"
FUEL = 400


# ------------------------------------------------------------------ serialisation
def enc(s):
    return ".".join(str(ord(c)) for c in s) if s else "-"


def dec(t):
    return "" if t == "-" else "".join(chr(int(x)) for x in t.split("."))


def ser_e(e, out):
    k = e[0]
    if k == "V":
        out += ["V", str(e[1])]
    elif k == "L":
        out += ["L", enc(e[1])]
    elif k == "C":
        out.append("C"); ser_e(e[1], out); ser_e(e[2], out)
    elif k == "F":
        out += ["F", str(e[1])]; ser_e(e[2], out); out.append(str(len(e[3])))
        for a in e[3]:
            ser_e(a, out)
    elif k == "Q":
        out.append("Q"); ser_e(e[1], out); ser_e(e[2], out); ser_e(e[3], out)
    elif k == "M":
        out += ["M", str(e[1]), str(len(e[2]))]
        for a in e[2]:
            ser_e(a, out)
    elif k == "K":
        out.append("K")
    else:
        raise ValueError(k)


def ser_body(ss, out):
    out.append(str(len(ss)))
    for s in ss:
        ser_s(s, out)


def ser_s(s, out):
    k = s[0]
    if k == "T":
        out += ["T", enc(s[1])]
    elif k == "O":
        out.append("O"); ser_e(s[1], out)
    elif k == "I":
        out.append("I"); ser_e(s[1], out); ser_body(s[2], out); ser_body(s[3], out)
    elif k == "R":
        out += ["R", str(s[1]), str(s[2])]; ser_body(s[3], out)
    elif k == "S":
        out += ["S", str(s[1])]; ser_e(s[2], out)
    elif k == "B":
        out += ["B", str(s[1])]; ser_body(s[2], out)
    elif k == "D":
        out += ["D", str(s[1]), str(len(s[2]))] + [str(p) for p in s[2]]; ser_body(s[3], out)
    elif k == "A":
        out += ["A", str(s[1]), str(len(s[2]))]
        for a in s[2]:
            ser_e(a, out)
        ser_body(s[3], out)
    elif k == "X":
        out += ["X", str(s[1]), str(len(s[2]))]
        for a in s[2]:
            ser_e(a, out)
        ser_body(s[3], out)
    elif k == "E":
        out += ["E", s[1]]; ser_body(s[2], out)
    else:
        raise ValueError(k)


def ser_prog(t):
    out = []
    ser_body(t, out)
    return out


def render_line(b0, flag, t, d, dl, fuel=FUEL):
    out = ["R", "1" if b0 else "0", "1" if flag else "0", str(fuel), str(len(dl))]
    for nm, items in dl.items():
        out += [str(nm), str(len(items))] + [enc(x) for x in items]
    out.append(str(len(d)))
    for nm, s in d.items():
        out += [str(nm), enc(s)]
    return " ".join(out + ser_prog(t))


def pred_line(b0, t):
    return " ".join(["P", "1" if b0 else "0"] + ser_prog(t))


def parse_render(line):
    """driver output -> None | str"""
    if line == "N":
        return None
    if line.startswith("O "):
        return dec(line[2:])
    raise RuntimeError("driver esc: " + line)


# ------------------------------------------------------------------ printer
def lit(s):
    return '"' + s.replace("\\", "\\\\").replace('"', '\\"').replace("\n", "\\n") + '"'


def pr_e(e):
    k = e[0]
    if k == "V":
        return f"n{e[1]}"
    if k == "L":
        return lit(e[1])
    if k == "C":
        return f"({pr_e(e[1])} ~ {pr_e(e[2])})"
    if k == "F":
        name = FILTERS[e[1]]
        args = [pr_e(a) for a in e[3]]
        if e[1] == F_DEFAULT:
            args.append("true")
        return f"(({pr_e(e[2])})|{name}" + ("(" + ", ".join(args) + ")" if args else "") + ")"
    if k == "Q":
        return f"({pr_e(e[2])} if {pr_e(e[1])} else {pr_e(e[3])})"
    if k == "M":
        return f"n{e[1]}(" + ", ".join(pr_e(a) for a in e[2]) + ")"
    if k == "K":
        return "caller()"
    raise ValueError(k)


def pr_body(ss):
    return "".join(pr_s(s) for s in ss)


def pr_s(s):
    k = s[0]
    if k == "T":
        return s[1]
    if k == "O":
        return "{{ " + pr_e(s[1]) + " }}"
    if k == "I":
        return "{% if " + pr_e(s[1]) + " %}" + pr_body(s[2]) + "{% else %}" + pr_body(s[3]) + "{% endif %}"
    if k == "R":
        return "{% for n" + str(s[1]) + " in n" + str(s[2]) + " %}" + pr_body(s[3]) + "{% endfor %}"
    if k == "S":
        return "{% set n" + str(s[1]) + " = " + pr_e(s[2]) + " %}"
    if k == "B":
        return "{% set n" + str(s[1]) + " %}" + pr_body(s[2]) + "{% endset %}"
    if k == "D":
        return ("{% macro n" + str(s[1]) + "(" + ", ".join(f"n{p}" for p in s[2]) + ") %}" + pr_body(s[3])
                + "{% endmacro %}")
    if k == "A":
        return ("{% call n" + str(s[1]) + "(" + ", ".join(pr_e(a) for a in s[2]) + ") %}" + pr_body(s[3])
                + "{% endcall %}")
    if k == "X":
        name = FILTERS[s[1]]
        args = [pr_e(a) for a in s[2]]
        if s[1] == F_DEFAULT:
            args.append("true")
        return ("{% filter " + name + ("(" + ", ".join(args) + ")" if args else "") + " %}" + pr_body(s[3])
                + "{% endfilter %}")
    if k == "E":
        a = {"0": "false", "1": "true", "f": FLAG_NAME}[s[1]]
        return "{% autoescape " + a + " %}" + pr_body(s[2]) + "{% endautoescape %}"
    raise ValueError(k)


# ------------------------------------------------------------------ real engine
def real_render(jinja2, b0, flag, t, d, dl, src=None):
    """None for any exception (model: None), else the rendered text."""
    src = pr_body(t) if src is None else src
    ctx = {f"n{k}": v for k, v in d.items()}
    ctx.update({f"n{k}": list(v) for k, v in dl.items()})
    ctx[FLAG_NAME] = flag
    try:
        env = jinja2.Environment(autoescape=b0)
        return env.from_string(src).render(ctx)
    except RecursionError:
        return None
    except Exception:
        return None


# ------------------------------------------------------------------ generator
TEXT_SAFE = ["", "t", " ", "txt ", "[", "]", ";", "T1", "-", "amp;", "lt;", "x=1", "a b", "#34;", ". "]
TEXT_FIN = ["TXa ", "TXb;", "[TXc]", "TXd"]      # recognisable template text (finalize stream of C15)
TEXT_META = ["<b>", "</b>", "<p class=\"c\">", "'", "<i>x</i> "]
TEXT_AMP = ["&", "&amp;", "&lt;", "&#39;", "& ", "&amp;lt;", "&unknown;", "&#x3c;", "&lt"]
WORDS = ["foo", "Bar", "b a z", "x1", "", "Hello World", "q", "amp;", "lt;b", "A;B"]
METAS = ["<b>", "&", "\"q\"", "'s", "<i>x</i>", "&amp;", ">", "<", "&lt;", "&#39;", "a&b<c", "<script>", "&amp;amp;",
         "\"", "'"]


class LGen:
    """Generator of T programs.

    neutral : only neutral filters (C16);  safe_ok : |safe may appear;  text : which template
    text pools may be used ("safe" | "meta" | "amp", a set);  ae : allowed {% autoescape %}
    arguments (subset of "01f").
    """

    def __init__(self, rng, *, neutral=False, safe_ok=False, text=("safe",), ae="f", depth=3, marker=None):
        self.r = rng
        self.neutral = neutral
        self.safe_ok = safe_ok
        self.text_pools = text
        self.ae = ae
        self.depth = depth
        self.marker = marker     # when set, every data string / literal carries this payload
        self.fresh = 100
        self.data_names = [1, 2, 3, 4]
        self.list_names = [11, 12]
        self.stats = {}

    def count(self, k):
        self.stats[k] = self.stats.get(k, 0) + 1

    def new(self):
        self.fresh += 1
        return self.fresh

    def word(self):
        r = self.r
        w = r.choice(WORDS)
        if r.random() < 0.65:
            w += r.choice(METAS)
        if r.random() < 0.2:
            w = r.choice(METAS) + w
        if self.marker and w:
            w = w + self.marker
        return w

    def data(self):
        r = self.r
        d = {}
        for n in self.data_names:
            if r.random() < 0.85:
                d[n] = self.word()
        dl = {}
        for n in self.list_names:
            if r.random() < 0.9:
                dl[n] = [self.word() for _ in range(r.randint(0, 3))]
        return d, dl

    def text(self):
        if "fin" in self.text_pools:
            return self.r.choice(TEXT_FIN)
        pool = list(TEXT_SAFE)
        if "meta" in self.text_pools:
            pool += TEXT_META
        if "amp" in self.text_pools:
            pool += TEXT_AMP
        return self.r.choice(pool)

    # scope = (vars visible, macros visible [(name, nparams, uses_caller)], in_macro_with_caller)
    def expr(self, sc, d=2):
        r = self.r
        vs, ms, has_caller = sc
        k = r.random()
        if d <= 0 or k < 0.28:
            if r.random() < 0.7 and vs:
                return ("V", r.choice(vs))
            return ("L", self.word())
        if k < 0.45:
            self.count("concat")
            return ("C", self.expr(sc, d - 1), self.expr(sc, d - 1))
        if k < 0.65:
            fs = NEUTRAL if self.neutral else [F_STRING, F_LOWER, F_UPPER, F_ESCAPE, F_FORCE, F_DEFAULT, F_REPLACE] + (
                [F_SAFE] if self.safe_ok else [])
            f = r.choice(fs)
            self.count("filter:" + FILTERS[f])
            nargs = {F_DEFAULT: 1, F_REPLACE: 2}.get(f, 0)
            a = self.expr(sc, d - 1)
            if f in (F_SAFE, F_ESCAPE, F_FORCE) and is_const(a):
                # a constant Markup inside a constant `~` is folded by Concat.as_const with a plain
                # str join (property C08's finding, not modelled here): keep the operand non-constant
                a = ("V", r.choice(vs))
            return ("F", f, a, [self.expr(sc, d - 1) for _ in range(nargs)])
        if k < 0.75:
            return ("Q", self.expr(sc, d - 1), self.expr(sc, d - 1), self.expr(sc, d - 1))
        if k < 0.92 and ms:
            cands = [m for m in ms if not m[2]]
            if cands:
                m = r.choice(cands)
                self.count("macro_call")
                return ("M", m[0], [self.expr(sc, d - 1) for _ in range(r.randint(max(0, m[1] - 1), m[1]))])
        if has_caller and k < 0.97:
            self.count("caller")
            return ("K",)
        return ("V", r.choice(vs)) if vs else ("L", self.word())

    def body(self, sc, d, n=None):
        vs, ms, hc = list(sc[0]), list(sc[1]), sc[2]
        out = []
        n = n if n is not None else self.r.randint(1, 3)
        for _ in range(n):
            s, vs, ms = self.stmt((vs, ms, hc), d)
            out.append(s)
        return out, vs, ms

    def stmt(self, sc, d):
        r = self.r
        vs, ms, hc = sc
        kinds = ["T", "O", "O", "O"]
        if d > 0:
            kinds += ["I", "R", "S", "B", "B", "D", "D", "A", "A", "X", "E"]
        k = r.choice(kinds)
        if k == "A" and not [m for m in ms if m[2]]:
            k = "D"
        if k == "E" and not self.ae:
            k = "B"
        if k == "T":
            return ("T", self.text()), vs, ms
        if k == "O":
            return ("O", self.expr(sc)), vs, ms
        if k == "I":
            c = self.expr(sc, 1)
            # names defined in only one branch may be undefined afterwards: fine (renders "")
            t, vt, mt = self.body(sc, d - 1)
            f, vf, mf = self.body(sc, d - 1, 1)
            # after the if: only names defined before it are certainly visible; keep it simple
            return ("I", c, t, f), vs, ms
        if k == "R":
            x = self.new()
            self.count("for")
            b, _, _ = self.body((vs + [x], ms, hc), d - 1)
            return ("R", x, r.choice(self.list_names), b), vs, ms
        if k == "S":
            x = self.new()
            return ("S", x, self.expr(sc)), vs + [x], ms
        if k == "B":
            x = self.new()
            self.count("setblock")
            b, _, _ = self.body(sc, d - 1, 2)
            return ("B", x, b), vs + [x], ms
        if k == "D":
            m = self.new()
            np_ = r.randint(0, 2)
            ps = [self.new() for _ in range(np_)]
            uses_caller = r.random() < 0.45
            self.count("macro")
            b, _, _ = self.body((vs + ps, ms, uses_caller), d - 1, 2)
            if uses_caller:
                b.append(("O", ("K",)))          # the name `caller` occurs directly in the body
            return ("D", m, ps, b), vs, ms + [(m, np_, uses_caller)]
        if k == "A":
            m = r.choice([m for m in ms if m[2]])
            self.count("callblock")
            args = [self.expr(sc, 1) for _ in range(r.randint(max(0, m[1] - 1), m[1]))]
            b, _, _ = self.body((vs, ms, False), d - 1, 2)    # `caller` is not available in a call block body
            return ("A", m[0], args, b), vs, ms
        if k == "X":
            fs = [F_STRING, F_LOWER, F_DEFAULT] if self.neutral else [F_STRING, F_LOWER, F_UPPER, F_ESCAPE, F_FORCE,
                                                                     F_DEFAULT, F_REPLACE]
            f = r.choice(fs)
            self.count("filterblock:" + FILTERS[f])
            nargs = {F_DEFAULT: 1, F_REPLACE: 2}.get(f, 0)
            args = [self.expr(sc, 1) for _ in range(nargs)]
            b, _, _ = self.body(sc, d - 1, 2)
            return ("X", f, args, b), vs, ms
        if k == "E":
            a = r.choice(self.ae)
            self.count("autoescape:" + a)
            b, _, _ = self.body(sc, d - 1, 2)
            return ("E", a, b), vs, ms
        raise ValueError(k)

    def program(self, wrap_flag=False):
        self.fresh = 100
        sc = (list(self.data_names), [], False)
        b, _, _ = self.body(sc, self.depth, self.r.randint(2, 5))
        if wrap_flag:
            b = [("E", "f", b)]
        return b


def is_const(e):
    k = e[0]
    if k == "L":
        return True
    if k == "C":
        return is_const(e[1]) and is_const(e[2])
    if k == "F":
        return is_const(e[2]) and all(is_const(a) for a in e[3])
    if k == "Q":
        return is_const(e[1]) and is_const(e[2]) and is_const(e[3])
    return False


def features(t):
    """set of construct kinds used by a program (for the non-triviality rule)"""
    out = set()

    def fe(e):
        out.add("e" + e[0])
        if e[0] == "C":
            fe(e[1]); fe(e[2])
        elif e[0] == "F":
            out.add("f" + FILTERS[e[1]]); fe(e[2])
            for a in e[3]:
                fe(a)
        elif e[0] == "Q":
            fe(e[1]); fe(e[2]); fe(e[3])
        elif e[0] == "M":
            for a in e[2]:
                fe(a)

    def fs(s):
        out.add("s" + s[0])
        k = s[0]
        if k == "O":
            fe(s[1])
        elif k == "I":
            fe(s[1]); [fs(x) for x in s[2]]; [fs(x) for x in s[3]]
        elif k == "R":
            [fs(x) for x in s[3]]
        elif k == "S":
            fe(s[2])
        elif k == "B":
            [fs(x) for x in s[2]]
        elif k == "D":
            [fs(x) for x in s[3]]
        elif k in ("A", "X"):
            [fe(a) for a in s[2]]; [fs(x) for x in s[3]]
            if k == "X":
                out.add("xf" + FILTERS[s[1]])
        elif k == "E":
            out.add("ae" + s[1]); [fs(x) for x in s[2]]

    for s in t:
        fs(s)
    return out
