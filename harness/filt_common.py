"""Helpers shared by the filter-contract checks C22 / C23 / C24 (encoding of Python values
for the extracted models, canonical results, running real filters in sync and async
environments, argument-unmodified bookkeeping)."""
import asyncio
import copy
import inspect


# ------------------------------------------------------------------ value <-> token text
def cps(s):
    return ",".join(str(ord(c)) for c in s) if s else "-"


def uncps(t):
    return "" if t == "-" else "".join(chr(int(x)) for x in t.split(","))


class Undef:
    """stands for a jinja Undefined in generated inputs / expected outputs"""
    def __repr__(self):
        return "Undef"

    def __eq__(self, o):
        return isinstance(o, Undef)

    def __hash__(self):
        return 7


def enc(v):
    """Python value -> token text of the model drivers."""
    from jinja2.runtime import Undefined
    if isinstance(v, bool):
        raise ValueError("bool outside the encoded domain")
    if isinstance(v, int):
        return f"I {v}"
    if isinstance(v, str):
        return "S " + cps(str(v))
    if v is None:
        return "N"
    if isinstance(v, (Undef, Undefined)):
        return "U"
    if isinstance(v, (list, tuple)):
        return " ".join([f"L {len(v)}"] + [enc(x) for x in v])
    if isinstance(v, dict):
        out = [f"D {len(v)}"]
        for k, x in v.items():
            out.append(("ks" + cps(k)) if isinstance(k, str) else f"ki{k}")
            out.append(enc(x))
        return " ".join(out)
    raise ValueError(f"cannot encode {type(v).__name__}")


def dec(text):
    """inverse of enc (Undefined comes back as Undef)"""
    toks = text.split()
    pos = [0]

    def nxt():
        t = toks[pos[0]]
        pos[0] += 1
        return t

    def val():
        t = nxt()
        if t == "I":
            return int(nxt())
        if t == "S":
            return uncps(nxt())
        if t == "N":
            return None
        if t == "U":
            return Undef()
        if t == "L":
            return [val() for _ in range(int(nxt()))]
        if t == "D":
            d = {}
            for _ in range(int(nxt())):
                k = nxt()
                key = uncps(k[2:]) if k.startswith("ks") else int(k[2:])
                d[key] = val()
            return d
        raise ValueError("bad token " + t)

    v = val()
    if pos[0] != len(toks):
        raise ValueError("trailing tokens")
    return v


def enc_opt(v, f=enc):
    return "?" if v is None else "! " + f(v)


def enc_attr(a):
    if a is None:
        return "a-"
    if isinstance(a, int):
        return f"ai{a}"
    return "as" + cps(a)


def materialize(v):
    """Real filter result -> plain data (generators, reversed iterators, group tuples -> lists).
    Plain lists / dicts that need no conversion are returned as the same object, so that an
    oracle can recognise the caller's items by identity."""
    from jinja2.runtime import Undefined
    if isinstance(v, (str, int, float, type(None), Undefined)):
        return v
    if type(v) is dict:
        new = {k: materialize(x) for k, x in v.items()}
        return v if all(new[k] is v[k] for k in v) else new
    if type(v) is list:
        new = [materialize(x) for x in v]
        return v if all(a is b for a, b in zip(new, v)) else new
    if isinstance(v, (list, tuple)):
        return [materialize(x) for x in v]
    if hasattr(v, "__next__") or inspect.isgenerator(v):
        return [materialize(x) for x in v]
    return v


def exn_name(e):
    n = type(e).__name__
    return n if n in ("ZeroDivisionError", "TypeError", "UndefinedError", "FilterArgumentError",
                      "ValueError", "OverflowError", "KeyError", "IndexError", "AttributeError") else "X:" + n


# ------------------------------------------------------------------ running real filters
async def _collect(v):
    from jinja2.runtime import Undefined
    if isinstance(v, Undefined):
        return v
    if hasattr(v, "__aiter__"):
        return [await _collect(x) async for x in v]
    if inspect.isawaitable(v):
        return await _collect(await v)
    return v


class AsyncRunner:
    """one event loop for all async cases of a check"""
    def __init__(self):
        self.loop = asyncio.new_event_loop()

    def run(self, coro):
        return self.loop.run_until_complete(coro)

    def call(self, env, ctx, name, value, args, kwargs):
        async def go():
            r = env.call_filter(name, value, args, kwargs, context=ctx)
            return await _collect(r)
        return self.run(go())

    def close(self):
        try:
            self.loop.run_until_complete(self.loop.shutdown_asyncgens())
        finally:
            self.loop.close()


def as_generator(xs):
    return (x for x in xs)


def as_async_generator(xs):
    async def g():
        for x in xs:
            yield x
    return g()


def snapshot(*objs):
    return copy.deepcopy(objs)


def jinja_literal(v):
    """Jinja source text of a literal argument (ASCII letters / digits only in strings)."""
    if v is None:
        return "none"
    if v is True:
        return "true"
    if v is False:
        return "false"
    if isinstance(v, int):
        return str(v) if v >= 0 else f"({v})"
    if isinstance(v, str):
        if "'" in v or "\\" in v or "\n" in v or "\r" in v:
            raise ValueError("string not representable as a simple jinja literal")
        return "'" + v + "'"
    if isinstance(v, list):
        return "[" + ", ".join(jinja_literal(x) for x in v) + "]"
    raise ValueError(type(v).__name__)


def merge_modules(parts):
    """One generated .v file out of several (module name, text) parts: the Require / Import / Open Scope
    lines are hoisted to the top (a Require inside a module is not allowed), each part's remaining text
    goes into its own Module so that equal helper names do not clash.  One coqc run instead of several."""
    head, bodies = [], []
    for mod, text in parts:
        body = []
        for line in text.splitlines():
            st = line.strip()
            if st.startswith(("From ", "Import ", "Open Scope", "Require ")) and st.endswith("."):
                for piece in [x.strip() + "." for x in st.split(". ") if x.strip()]:
                    piece = piece.replace("..", ".")
                    if piece not in head:
                        head.append(piece)
            else:
                body.append(line)
        bodies.append(f"Module {mod}.\n" + "\n".join(body) + f"\nEnd {mod}.\n")
    return "\n".join(head) + "\n\n" + "\n".join(bodies)


class Background:
    """run the coqc part of a check (proof re-check + regenerated obligations) while the Python side
    runs the correspondence; join() re-raises what the thread raised"""
    def __init__(self, fn):
        import threading
        self.err = None

        def go():
            try:
                fn()
            except BaseException as e:  # noqa: BLE001
                self.err = e
        self.t = threading.Thread(target=go, daemon=True)
        self.t.start()

    def join(self):
        self.t.join()
        if self.err is not None:
            raise self.err


def guarded(ctx, name, fn, *args):
    """run one stream of a check; an exception escaping it (possible only when the tree under test
    behaves in a way the stream's own code did not anticipate) is reported as a broken tie instead of
    crashing the whole check"""
    import traceback
    try:
        return fn(*args)
    except Exception as e:  # noqa: BLE001
        tb = traceback.extract_tb(e.__traceback__)[-1]
        ctx.broken.append(f"stream {name} could not complete: {type(e).__name__}: {str(e)[:120]} "
                          f"(at {tb.filename.split('/')[-1]}:{tb.lineno})")
        return None
