"""C18 — a sandboxed template never calls a callable the sandbox deems unsafe.

proof : Properties/C18.v  calls_gated (every Call node, wherever nested and in every statement
        position, compiles to environment.call; gates in bijection with Call nodes),
        call_gate_sound / rejected_never_runs / unsafe_never_runs / refused_is_last (event-log
        semantics of the generated code, for every safety predicate and every world behaviour)
tie   : T5     gen/sbx_translate.py: current source of is_safe_callable / call as terms of Lib/PySbx.v;
               build/C18/Gen_sbx_src.v proves  source term = is_safe_callable_default / sandbox_call
        T1     pinned shape of compiler.visit_Call
        K-gen  Model/SbxGen.show (gen m e) == routing skeleton of the real generated Python; scan of
               the real generated code of generated templates for context.call( / direct calls of
               template values; environment.call sites counted against the parser's Call nodes
        K-rt   extracted gate (sandbox_call) == SandboxedEnvironment.call on recording callables of
               six kinds x {unsafe_callable, alters_data} markers x {default, overridden} predicate
oracle: recording callables that the predicate in force rejects never ran; reaching one raises
        SecurityError — 42 call shapes x 9 callable expressions x {sync, async} x {default, overridden}
"""
import itertools

from . import lib
from . import c17 as shared
from . import sbx_src_tie

RULE = ("K-rt: callable kinds {function, lambda, bound method, callable instance, class, functools.partial} x marker "
        "subsets of {unsafe_callable, alters_data, forbidden} x predicate {default, overridden}. Render: 42 template "
        "shapes placing a call in every syntactic position (direct, args / kwargs / * / **, set / with alias, macro "
        "argument / default, call block, caller, loop iterable / filter / variable / recursive, filter and test arguments, "
        "dict / list containers, conditionals, blocks, include expression, attr filter, nested calls) x 9 callable "
        "expressions x {sync, async} x {default, overridden}; distinct = the tuple; non-trivial = the callable is "
        "rejected by the predicate in force. K-gen: as C17, non-trivial = the expression contains a Call node.")


class Rec:
    """records invocations of the callables it hands out"""

    def __init__(self):
        self.ran = []

    def function(self, tag, ret="R"):
        def fn(*a, **k):
            self.ran.append(tag)
            return ret
        fn.__name__ = tag
        return fn

    def mark(self, f, unsafe=False, alters=False, forbidden=False):
        if unsafe:
            f.unsafe_callable = True
        if alters:
            f.alters_data = True
        if forbidden:
            f.forbidden = True
        return f


def make_callable(rec, kind, unsafe, alters, forbidden):
    import functools
    tag = f"{kind}:{int(unsafe)}{int(alters)}{int(forbidden)}"
    if kind == "function":
        return rec.mark(rec.function(tag), unsafe, alters, forbidden)
    if kind == "lambda":
        return rec.mark(lambda *a, **k: rec.ran.append(tag), unsafe, alters, forbidden)
    if kind == "method":
        class K:
            def meth(self, *a, **k):
                rec.ran.append(tag)
                return "R"
        rec.mark(K.meth, unsafe, alters, forbidden)       # markers live on the function, seen through the method
        return K().meth
    if kind == "instance":
        class CI:
            def __call__(self, *a, **k):
                rec.ran.append(tag)
                return "R"
        return rec.mark(CI(), unsafe, alters, forbidden)
    if kind == "class":
        class KC:
            def __init__(self, *a, **k):
                rec.ran.append(tag)
        return rec.mark(KC, unsafe, alters, forbidden)
    if kind == "partial":
        p = functools.partial(rec.function(tag), 1)
        return rec.mark(p, unsafe, alters, forbidden)
    if kind == "partial-of-partial-outer-marked":
        # markers on the OUTER wrapper object of a chain of wrappers
        p = functools.partial(functools.partial(rec.function(tag), 1), k2=2)
        return rec.mark(p, unsafe, alters, forbidden)
    if kind == "partial-subclass-call-marked":
        # a functools.partial subclass whose __call__ carries the markers on the class
        class Action(functools.partial):
            def __call__(self, *a, **k):
                return super().__call__(*a, **k)
        rec.mark(Action.__call__, unsafe, alters, forbidden)
        return Action(rec.function(tag), 1)
    if kind == "proxy-marked-itself":
        # a forwarding proxy that carries the markers ITSELF (the wrapped function is unmarked)
        class MarkedProxy:
            def __init__(self, f):
                self._f = f

            def __call__(self, *a, **k):
                return self._f(*a, **k)

            def __getattr__(self, name):
                if name in ("unsafe_callable", "alters_data", "forbidden"):
                    raise AttributeError(name)
                return getattr(self._f, name)
        return rec.mark(MarkedProxy(rec.function(tag)), unsafe, alters, forbidden)
    if kind == "instance-call-marked":
        # the markers sit on the class's __call__ method, not on the instance
        class CM:
            def __call__(self, *a, **k):
                rec.ran.append(tag)
                return "R"
        rec.mark(CM.__call__, unsafe, alters, forbidden)
        return CM()
    if kind in ("pass_context", "pass_environment", "pass_eval_context"):
        import jinja2
        deco = getattr(jinja2, kind)

        def injected(first, *a, **k):
            rec.ran.append(tag)
            return "R"
        return rec.mark(deco(injected), unsafe, alters, forbidden)
    if kind == "coroutine-function":
        async def coro(*a, **k):
            rec.ran.append(tag)
            return "R"
        return rec.mark(coro, unsafe, alters, forbidden)
    if kind == "generator-function":
        def genf(*a, **k):
            rec.ran.append(tag)          # runs only when iterated: calling it creates the generator
            yield "R"
        return rec.mark(genf, unsafe, alters, forbidden)
    if kind == "classmethod":
        class KC2:
            @classmethod
            def cm(cls, *a, **k):
                rec.ran.append(tag)
                return "R"
        rec.mark(KC2.__dict__["cm"].__func__, unsafe, alters, forbidden)
        return KC2().cm
    if kind == "staticmethod":
        class KS:
            @staticmethod
            def sm(*a, **k):
                rec.ran.append(tag)
                return "R"
        rec.mark(KS.__dict__["sm"].__func__, unsafe, alters, forbidden)
        return KS().sm
    if kind == "truthy-marker-values":
        f = rec.function(tag)
        if unsafe:
            f.unsafe_callable = 1
        if alters:
            f.alters_data = "yes"
        if forbidden:
            f.forbidden = [0]
        return f
    if kind == "falsy-marker-values":
        # markers present but falsy: the callable counts as unmarked (the predicate reads truthiness)
        f = rec.function(tag)
        f.unsafe_callable = 0
        f.alters_data = ""
        f.forbidden = None
        return f
    if kind == "proxy-forwarding-getattr":
        # a class-based decorator / proxy: the markers live on the wrapped function and are forwarded by __getattr__
        inner = rec.mark(rec.function(tag), unsafe, alters, forbidden)

        class Proxy:
            def __init__(self, f):
                self._f = f

            def __call__(self, *a, **k):
                return self._f(*a, **k)

            def __getattr__(self, name):
                return getattr(self._f, name)
        return Proxy(inner)
    if kind == "instance-level-call":
        # Context.call swaps to obj.__call__ (instance lookup) when that is pass_context-decorated
        import jinja2

        class CI2:
            def __call__(self, *a, **k):
                return "class-level"

        def swapped(ctx, *a, **k):
            rec.ran.append(tag)
            return "R"
        o = CI2()
        o.__call__ = rec.mark(jinja2.pass_context(swapped), unsafe, alters, forbidden)
        return o
    if kind == "repr-raises":
        class RR:
            def __call__(self, *a, **k):
                rec.ran.append(tag)
                return "R"

            def __repr__(self):
                raise RuntimeError("repr of the callable raises")
        return rec.mark(RR(), unsafe, alters, forbidden)
    if kind == "macro-object":
        # a Macro of another template's module, marked by the application
        from jinja2.sandbox import SandboxedEnvironment
        m = SandboxedEnvironment().from_string("{% macro mm(a=0, k=0) %}{{ probe() }}{% endmacro %}").make_module({"probe": rec.function(tag)}).mm
        return rec.mark(m, unsafe, alters, forbidden)
    if kind == "partial-of-marked":
        # the markers sit on the function a functools.partial wraps
        return functools.partial(rec.mark(rec.function(tag), unsafe, alters, forbidden), 1)
    raise AssertionError(kind)


def make_envs():
    from jinja2.sandbox import SandboxedEnvironment

    class Overridden(SandboxedEnvironment):
        """an application-specific predicate: only objects marked `forbidden` are refused"""
        def is_safe_callable(self, obj):
            return not getattr(obj, "forbidden", False)

    from jinja2 import DictLoader
    from jinja2.sandbox import ImmutableSandboxedEnvironment

    class OverriddenImmutable(ImmutableSandboxedEnvironment):
        def is_safe_callable(self, obj):
            return not getattr(obj, "forbidden", False)

    lib = {"lib": "{% macro callit(f) %}{{ f() }}{% endmacro %}{% macro callkw(f) %}{{ f(k=1) }}{% endmacro %}",
           "inc": "{{ cf() }}", "base": "[{% block b %}{% endblock %}]{% block c %}{{ cf2() if cf2 is defined else '' }}{% endblock %}"}
    ext = ["jinja2.ext.do", "jinja2.ext.i18n", "jinja2.ext.loopcontrols"]
    envs = {}
    for pol, cls, icls in (("default", SandboxedEnvironment, ImmutableSandboxedEnvironment), ("overridden", Overridden, OverriddenImmutable)):
        for mode in ("sync", "async"):
            kw = dict(enable_async=(mode == "async"), loader=DictLoader(lib), extensions=ext)
            base = cls(**kw)
            variants = {"": base, "immutable": icls(**kw), "overlay": base.overlay(trim_blocks=True),
                        "noopt": cls(optimized=False, **kw), "autoescape": cls(autoescape=True, **kw)}
            for cfg, e in variants.items():
                e.install_null_translations()
                envs[(pol, mode) if cfg == "" else (pol, mode, cfg)] = (e, {})
    return envs


CONFIGS = ("", "", "immutable", "overlay", "noopt", "autoescape")
ENTRIES = ("render", "generate", "stream", "render_async", "make_module")
PLACES = ("context", "env-globals", "template-globals")


def spec_rejected(pol, unsafe, alters, forbidden):
    """the property's reading of 'the sandbox deems unsafe' (independent of the implementation)"""
    return (unsafe or alters) if pol == "default" else forbidden


# ------------------------------------------------------------------ K-rt on the gate
def k_rt_gate(ctx, envs):
    from jinja2.exceptions import SecurityError
    cases = []
    for kind, unsafe, alters, forbidden, pol, cls in itertools.product(
            ("function", "lambda", "method", "instance", "class", "partial", "instance-call-marked", "partial-of-marked",
             "pass_context", "pass_environment", "pass_eval_context", "coroutine-function", "generator-function", "classmethod",
             "staticmethod", "truthy-marker-values", "falsy-marker-values", "proxy-forwarding-getattr", "instance-level-call",
             "repr-raises", "macro-object", "partial-of-partial-outer-marked", "partial-subclass-call-marked",
             "proxy-marked-itself"),
            (0, 1), (0, 1), (0, 1), ("default", "overridden"), ("", "immutable")):
        # every case on BOTH environment classes (the immutable class has its own is_safe_callable)
        cases.append((kind, bool(unsafe), bool(alters), bool(forbidden), pol, cls))
    lines = []
    for kind, u, a, f, pol, cls in cases:
        polarg = "default" if pol == "default" else ("0" if f else "1")
        if kind == "falsy-marker-values":
            u = a = f = False
            polarg = "default" if pol == "default" else "1"
        if pol == "overridden" and kind in ("instance-call-marked", "partial-of-marked", "instance-level-call", "partial-subclass-call-marked"):
            polarg = "1"          # the example override looks at the object itself, which carries no marker
        if kind in ("instance-call-marked", "partial-subclass-call-marked"):
            lines.append(f"gate 0 0 0 {polarg} {int(u)} {int(a)}")               # markers on type(obj).__call__
        elif kind == "instance-level-call":
            lines.append(f"gate 0 0 0 {polarg} 0 0 {int(u)} {int(a)}")           # markers on the instance's own __call__ attribute
        else:
            # functools.partial of a marked function is seen through by the default predicate (6689262)
            lines.append(f"gate {int(u)} {int(a)} 0 {polarg}")
    out = ctx.driver("sbx", lines)
    for gi, ((kind, u, a, f, pol, cls), model) in enumerate(zip(cases, out)):
        env = envs[(pol, "sync") if cls == "" else (pol, "sync", cls)][0]
        rec = Rec()
        try:
            obj = make_callable(rec, kind, u, a, f)
        except (AttributeError, TypeError):
            continue
        context = env.from_string("").new_context({})
        try:
            rv = env.call(context, obj, 1, k=2)
            if hasattr(rv, "close"):
                rv.close()
            outcome = "value"
        except SecurityError:
            outcome = "SecurityError"
        except Exception as e:  # noqa: BLE001
            outcome = "error:" + type(e).__name__
        real = ("check:1 invoke" if rec.ran else "check:0") + " | " + outcome
        case = {"kind": "gate", "callable": kind, "unsafe_callable": u, "alters_data": a, "forbidden": f, "policy": pol, "class": cls}
        rejected = spec_rejected(pol, u, a, f)
        if kind == "falsy-marker-values":
            rejected = False          # a falsy marker value is no marker
        if kind in ("generator-function", "coroutine-function"):
            # the function itself is what the template calls; its body runs on iteration / when awaited only
            real = real.replace("check:0 | value", "check:1 invoke | value") if outcome == "value" else real
        if pol == "overridden" and kind in ("instance-call-marked", "partial-of-marked", "instance-level-call", "partial-subclass-call-marked"):
            rejected = False      # the example override looks at the object itself only
        ctx.case(sample=case if rejected and kind == "method" else None, key=("gate", kind, u, a, f, pol, cls) if rejected else None)
        ctx.count("k_rt_gate")
        if rejected and rec.ran:
            shared.reject_once(ctx, case, f"{'Immutable' if cls else ''}SandboxedEnvironment.call ran a {kind} the {pol} predicate rejects",
                               f"C18:gate:{kind}:{pol}" + (":immutable" if cls else ""))
        elif real != model:
            ctx.model_mismatch("K-rt SandboxedEnvironment.call", case, model, real, None)
        else:
            ctx.validated()


def k_rt_gate_format(ctx, envs):
    """a bound str.format / format_map / Markup.format handed to call() is run by the sandboxed
    formatter (model: check, then EvFormat), never natively"""
    from markupsafe import Markup

    class Secret:
        pub = "PUB"

        def __init__(self):
            self._secret = "S3CR3T"
    bound = {"str.format": ("{0._secret}|{0.pub}".format, (Secret(),)),
             "str.format_map": ("{x._secret}|{x.pub}".format_map, ({"x": Secret()},)),
             "Markup.format": (Markup("{0._secret}|{0.pub}").format, (Secret(),))}
    pols = ("default", "overridden")
    out = ctx.driver("sbx", ["gate 0 0 1 " + ("default" if pol == "default" else "1") for _ in bound for pol in pols])
    i = 0
    for name, (fn, args) in bound.items():
        for pol in pols:
            model = out[i]
            i += 1
            env = envs[(pol, "sync")][0]
            try:
                r = env.call(env.from_string("").new_context({}), fn, *args)
                real = ("check:1 invoke" if "S3CR3T" in str(r) else "check:1 format") + " | value"
            except Exception as e:  # noqa: BLE001
                r, real = None, "error:" + type(e).__name__
            case = {"kind": "gate-format", "callable": name, "policy": pol}
            ctx.case(sample=case, key=("gate-format", name, pol))
            ctx.count("k_rt_gate_format")
            if r is not None and "S3CR3T" in str(r):
                shared.reject_once(ctx, case, f"SandboxedEnvironment.call ran a bound {name} natively (private attribute read)",
                                   f"C18:gate-format:{name}")
            elif real != model:
                ctx.model_mismatch("K-rt SandboxedEnvironment.call on bound format methods", case, model, real, None)
            else:
                ctx.validated()


def precompiled_by_plain_environment(ctx):
    """templates precompiled with Environment.compile_templates by a NON-sandboxed environment and served to a
    SandboxedEnvironment through ModuleLoader: same class as the shared bytecode cache (the sandbox runs code that was
    not generated in sandboxed mode); recorded under its own signature"""
    import shutil
    import tempfile
    from jinja2 import DictLoader, Environment, ModuleLoader
    from jinja2.exceptions import SecurityError
    from jinja2.sandbox import SandboxedEnvironment
    for mode in ("sync", "async"):
        d = tempfile.mkdtemp(prefix="c18_mod_", dir=lib.BUILD)
        try:
            rec = Rec()
            f = rec.mark(rec.function("f"), unsafe=True)
            Environment(loader=DictLoader({"t": "{{ f() }}{% for x in [1] %}{{ f(x) }}{% endfor %}"}),
                        enable_async=(mode == "async")).compile_templates(d, zip=None, log_function=lambda *_: None)
            env = SandboxedEnvironment(loader=ModuleLoader(d), enable_async=(mode == "async"))
            try:
                env.get_template("t").render(f=f)
                outcome = "ok"
            except SecurityError:
                outcome = "SecurityError"
            except Exception as e:  # noqa: BLE001
                outcome = "exc:" + type(e).__name__
            case = {"kind": "precompiled-by-plain-environment", "mode": mode, "outcome": outcome, "ran": list(rec.ran)}
            ctx.case(sample=case if mode == "sync" else None, key=("precompiled", mode))
            ctx.count("precompiled_by_plain_environment")
            if rec.ran:
                shared.reject_once(ctx, case, "a SandboxedEnvironment serving templates that a plain Environment precompiled "
                                              "(ModuleLoader) ran an unsafe callable", "C18:precompiled-by-plain-environment")
            else:
                ctx.validated()
        finally:
            shutil.rmtree(d, ignore_errors=True)


def policy_override_stream(ctx):
    """subclasses overriding is_safe_callable (allow-list, deny-all, deny-macros) x every callee kind incl. Macro objects,
    caller(), imported macros, loop.cycle, namespace(): the predicate in force decides for EVERY callee"""
    from jinja2 import DictLoader
    from jinja2.exceptions import SecurityError
    from jinja2.runtime import Macro
    from jinja2.sandbox import ImmutableSandboxedEnvironment, SandboxedEnvironment

    calls = []

    def mk(base, rule):
        class Env(base):
            def is_safe_callable(self, obj):
                verdict = rule(self, obj)
                calls.append((type(obj).__name__, verdict))
                return verdict
        return Env

    rules = {"deny-all": lambda self, obj: False,
             "allow-list": lambda self, obj: getattr(obj, "__name__", None) in ("ok",),
             "deny-macros": lambda self, obj: not isinstance(obj, Macro),
             "allow-all": lambda self, obj: True}
    lib = {"lib": "{% macro lm() %}LM{% endmacro %}"}
    templates = {
        "macro-call": "{% macro m() %}M{% endmacro %}{{ m() }}",
        "call-block": "{% macro m() %}{{ caller() }}{% endmacro %}{% call m() %}x{% endcall %}",
        "caller-only": "{% macro m() %}[{{ caller() }}]{% endmacro %}{% call m() %}{{ ok() }}{% endcall %}",
        "imported-macro": "{% from 'lib' import lm %}{{ lm() }}",
        "module-macro-as-data": "{{ dm() }}",
        "plain-function": "{{ ok() }}{{ other() }}",
        "loop-cycle": "{% for x in [1] %}{{ loop.cycle('a', 'b') }}{% endfor %}",
        "namespace-global": "{% set ns = namespace(a=1) %}{{ ns.a }}",
        "recursive-loop": "{% for x in [[1]] recursive %}{{ loop(x) if x is iterable else x }}{% endfor %}",
        "super-block": "{% extends 'base2' %}{% block b %}{{ super() }}{% endblock %}",
    }
    lib["base2"] = "{% block b %}B{% endblock %}"
    for (rname, rule), (bname, base), mode in itertools.product(rules.items(), (("sandboxed", SandboxedEnvironment), ("immutable", ImmutableSandboxedEnvironment)),
                                                                ("sync", "async")):
        env = mk(base, rule)(loader=DictLoader(lib), enable_async=(mode == "async"))
        for tname, src in templates.items():
            rec = Rec()
            ok_fn, other = rec.function("ok"), rec.function("other")
            ok_fn.__name__, other.__name__ = "ok", "other"
            dm = SandboxedEnvironment().from_string("{% macro dm() %}{{ probe() }}{% endmacro %}").make_module({"probe": rec.function("dm-body")}).dm
            del calls[:]
            try:
                env.from_string(src).render(ok=ok_fn, other=other, dm=dm)
                outcome = "ok"
            except SecurityError:
                outcome = "SecurityError"
            except Exception as e:  # noqa: BLE001
                outcome = "exc:" + type(e).__name__
            case = {"kind": "policy-override", "rule": rname, "env": bname, "mode": mode, "template": tname, "source": src,
                    "outcome": outcome, "verdicts": list(calls)[:8], "ran": list(rec.ran)}
            refused_any = any(not v for _, v in calls)
            ctx.case(sample=case if rname == "deny-macros" and tname == "call-block" else None,
                     key=("policy", rname, bname, mode, tname) if refused_any else None)
            ctx.count("policy_override")
            # oracle: whatever ran was accepted by the rule; every Call node consulted the predicate (deny-all: nothing runs at all)
            bad = None
            if rname == "deny-all" and (rec.ran or (outcome == "ok" and tname != "namespace-global" and not calls)):
                bad = "a callee ran (or no check was made) although the overridden predicate refuses everything"
            elif rname == "allow-list" and ("other" in rec.ran or "dm-body" in rec.ran):
                bad = "a callee outside the allow-list ran"
            elif rname == "deny-macros" and "dm-body" in rec.ran:
                bad = "a Macro object ran although the overridden predicate refuses macros"
            elif rname in ("deny-all", "deny-macros") and tname in ("macro-call", "call-block", "imported-macro", "module-macro-as-data") and outcome != "SecurityError":
                bad = f"calling a Macro did not raise SecurityError under {rname} ({outcome})"
            elif refused_any and outcome != "SecurityError":
                bad = f"the predicate refused a callee but the render did not raise SecurityError ({outcome})"
            if bad:
                shared.reject_once(ctx, case, f"{bad}: template {tname} ({bname}, {mode})", f"C18:policy-override:{rname}:{tname}")
            else:
                ctx.validated()


def history_stream(ctx):
    """the verdict is taken at EVERY call (the model's gate is a function of the predicate in force and the object,
    evaluated per call): a callable that was allowed before and is rejected now must not run — the marker was set
    after the first call, the overridden predicate depends on environment state, or on the instance a shared
    function is bound to"""
    from jinja2.exceptions import SecurityError
    from jinja2.sandbox import SandboxedEnvironment

    class Doc:
        def __init__(self, locked, rec, tag):
            self.locked, self.rec, self.tag = locked, rec, tag

        def archive(self):
            self.rec.ran.append(self.tag)
            return "A"

    class StatefulEnv(SandboxedEnvironment):
        frozen = False

        def is_safe_callable(self, obj):
            if self.frozen:
                return False
            owner = getattr(obj, "__self__", None)
            if isinstance(owner, Doc) and owner.locked:
                return False
            return super().is_safe_callable(obj)

    def run(env, src, data):
        try:
            env.from_string(src).render(**data)
            return "ok"
        except SecurityError:
            return "SecurityError"
        except Exception as e:  # noqa: BLE001
            return "exc:" + type(e).__name__

    for cls_name, cls in (("default", SandboxedEnvironment), ("stateful-override", StatefulEnv)):
        for mode in ("sync", "async"):
            scenarios = []
            # 1. marker set between two renders of the same environment
            for marker in ("unsafe_callable", "alters_data"):
                for shape in ("{{ f() }}", "{% set g = f %}{{ g(1) }}", "{% for x in [1] %}{{ d.f(x) }}{% endfor %}"):
                    scenarios.append(("marker-set-later:" + marker, shape, marker))
            # 2. one template: allowed instance first, locked instance second (same underlying function)
            if cls is StatefulEnv:
                scenarios.append(("instance-dependent", "{{ a.archive() }}|{{ b.archive() }}", None))
                scenarios.append(("instance-dependent-loop", "{% for o in [a, b] %}{{ o.archive() }}{% endfor %}", None))
                scenarios.append(("frozen-later", "{{ f() }}", None))
            for name, shape, marker in scenarios:
                env = cls(enable_async=(mode == "async"))
                rec = Rec()
                case = {"kind": "history", "scenario": name, "template": shape, "env": cls_name, "mode": mode}
                ran_rejected = False
                if name.startswith("marker-set-later"):
                    f = rec.function("f")
                    first = run(env, shape, {"f": f, "d": {"f": f}})
                    n1 = len(rec.ran)
                    setattr(f, marker, True)
                    second = run(env, shape, {"f": f, "d": {"f": f}})
                    ran_rejected = len(rec.ran) > n1
                    expected = ("ok", "SecurityError")
                    if cls is StatefulEnv:
                        pass
                    observed = (first, second)
                elif name.startswith("instance-dependent"):
                    a, b_ = Doc(False, rec, "free"), Doc(True, rec, "locked")
                    observed = (run(env, shape, {"a": a, "b": b_}),)
                    ran_rejected = "locked" in rec.ran
                    expected = ("SecurityError",)
                else:
                    f = rec.function("f")
                    first = run(env, shape, {"f": f})
                    n1 = len(rec.ran)
                    env.frozen = True
                    second = run(env, shape, {"f": f})
                    ran_rejected = len(rec.ran) > n1
                    observed, expected = (first, second), ("ok", "SecurityError")
                case["observed"] = list(observed)
                ctx.case(sample=case if name == "instance-dependent" else None, key=("history", name, shape, cls_name, mode))
                ctx.count("history_" + name.split(":")[0])
                if ran_rejected:
                    shared.reject_once(ctx, case, f"a callable that was allowed earlier ran although the predicate in force rejects it now "
                                                  f"({name}, {cls_name}, {mode}, {shape!r})", f"C18:history:{name.split(':')[0]}")
                elif tuple(observed) != expected:
                    ctx.model_mismatch("K-rt the gate is evaluated at every call", case, list(expected), list(observed), None)
                else:
                    ctx.validated()


def shared_bytecode_cache(ctx):
    """a plain and a sandboxed environment that share one bytecode cache and one loader: the sandboxed
    environment must still gate calls (root cause: the cache key ignores the environment's code-generation
    options — C27's recorded finding; the consequence for C18 is recorded under its own signature)"""
    from jinja2 import DictLoader, Environment
    from jinja2.bccache import BytecodeCache
    from jinja2.exceptions import SecurityError
    from jinja2.sandbox import SandboxedEnvironment

    class MemCache(BytecodeCache):
        def __init__(self):
            self.d = {}

        def load_bytecode(self, bucket):
            if bucket.key in self.d:
                bucket.bytecode_from_string(self.d[bucket.key])

        def dump_bytecode(self, bucket):
            self.d[bucket.key] = bucket.bytecode_to_string()

    for order in ("plain-first", "sandboxed-first"):
        for mode in ("sync", "async"):
            bc = MemCache()
            loader = DictLoader({"t": "{{ f() }}{% for x in [1] %}{{ g(x) }}{% endfor %}"})
            rec = Rec()
            f = rec.mark(rec.function("f"), unsafe=True)
            g = rec.mark(rec.function("g"), alters=True)
            plain = Environment(loader=loader, bytecode_cache=bc, enable_async=(mode == "async"))
            sandboxed = SandboxedEnvironment(loader=loader, bytecode_cache=bc, enable_async=(mode == "async"))
            outcome = "?"
            try:
                if order == "plain-first":
                    plain.get_template("t").render(f=f, g=g)
                    rec.ran.clear()
                sandboxed.get_template("t").render(f=f, g=g)
                outcome = "ok"
            except SecurityError:
                outcome = "SecurityError"
            except Exception as e:  # noqa: BLE001
                outcome = "exc:" + type(e).__name__
            case = {"kind": "shared-bytecode-cache", "order": order, "mode": mode, "outcome": outcome, "ran": list(rec.ran)}
            ctx.case(sample=case if order == "plain-first" else None, key=("bcc", order, mode))
            ctx.count("shared_bytecode_cache")
            if rec.ran:
                shared.reject_once(ctx, case, "a SandboxedEnvironment that shares a bytecode cache with a plain Environment ran "
                                              "the plain environment's code: an unsafe callable executed", "C18:shared-bytecode-cache")
            else:
                ctx.validated()


# ------------------------------------------------------------------ render oracle
# %(c)s = an expression whose value is the callable under test
SHAPES = {
    "direct": "{{ %(c)s() }}",
    "args": "{{ %(c)s(1, 'a') }}",
    "kwargs": "{{ %(c)s(k=2) }}",
    "star": "{{ %(c)s(*[1, 2]) }}",
    "dstar": "{{ %(c)s(**{'k': 1}) }}",
    "set-alias": "{%% set f = %(c)s %%}{{ f() }}",
    "with-alias": "{%% with f = %(c)s %%}{{ f() }}{%% endwith %%}",
    "macro-arg": "{%% macro m(f) %%}{{ f() }}{%% endmacro %%}{{ m(%(c)s) }}",
    "macro-default": "{%% macro m(x=%(c)s()) %%}{{ x }}{%% endmacro %%}{{ m() }}",
    "macro-body": "{%% macro m() %%}{{ %(c)s() }}{%% endmacro %%}{{ m() }}",
    "call-block-body": "{%% macro m() %%}{{ caller() }}{%% endmacro %%}{%% call m() %%}{{ %(c)s() }}{%% endcall %%}",
    "call-block-callee": "{%% call %(c)s() %%}x{%% endcall %%}",
    "call-block-arg": "{%% macro m(v) %%}{{ v }}{%% endmacro %%}{%% call m(%(c)s()) %%}x{%% endcall %%}",
    "caller-arg": "{%% macro m() %%}{{ caller(%(c)s) }}{%% endmacro %%}{%% call(f) m() %%}{{ f() }}{%% endcall %%}",
    "loop-iterable": "{%% for x in %(c)s() %%}{{ x }}{%% endfor %%}",
    "loop-filter": "{%% for x in [1] if %(c)s() %%}{{ x }}{%% endfor %%}",
    "loop-var": "{%% for f in [%(c)s] %%}{{ f() }}{%% endfor %%}",
    "loop-body": "{%% for x in [1, 2] %%}{{ %(c)s(loop.index) }}{%% endfor %%}",
    "loop-recursive": "{%% for x in [[1]] recursive %%}{{ %(c)s() }}{{ loop(x) if x is iterable else '' }}{%% endfor %%}",
    "loop-else": "{%% for x in [] %%}{%% else %%}{{ %(c)s() }}{%% endfor %%}",
    "filter-arg": "{{ none|default(%(c)s()) }}",
    "filter-kwarg": "{{ [1, 2]|join(d=%(c)s()) }}",
    "filter-subject": "{{ %(c)s()|string }}",
    "filter-block": "{%% filter upper %%}{{ %(c)s() }}{%% endfilter %%}",
    "test-arg": "{{ 1 is sameas(%(c)s()) }}",
    "test-subject": "{{ %(c)s() is defined }}",
    "nested-arg": "{{ s(%(c)s()) }}",
    "nested-kwarg": "{{ s(k=%(c)s()) }}",
    "callee-of-result": "{{ s()(%(c)s()) }}",
    "dict-container": "{{ {'f': %(c)s}.f() }}",
    "dict-item": "{{ {'f': %(c)s}['f']() }}",
    "list-container": "{{ [%(c)s][0]() }}",
    "tuple-unpack": "{%% set f, g = %(c)s, 1 %%}{{ f() }}",
    "if-test": "{%% if %(c)s() %%}y{%% endif %%}",
    "cond-expr": "{{ 1 if %(c)s() else 2 }}",
    "operand": "{{ 1 + %(c)s()|int }}",
    "subscript-index": "{{ [1, 2][%(c)s()|int] }}",
    "slice-bound": "{{ [1, 2][:%(c)s()|int] }}",
    "block": "{%% block b %%}{{ %(c)s() }}{%% endblock %%}",
    "include-expr": "{%% include %(c)s() ignore missing %%}",
    "set-block": "{%% set v %%}{{ %(c)s() }}{%% endset %%}{{ v }}",
    "namespace": "{%% set ns = namespace(f=%(c)s) %%}{{ ns.f() }}",
    # the special names of macro bodies filled by the caller of the macro
    "explicit-caller-kw": "{%% macro w() %%}{{ caller() }}{%% endmacro %%}{{ w(caller=%(c)s) }}",
    "explicit-caller-kw-args": "{%% macro w() %%}{{ caller(1, k=2) }}{%% endmacro %%}{{ w(caller=%(c)s) }}",
    "kwargs-special": "{%% macro w() %%}{{ kwargs.f() }}{%% endmacro %%}{{ w(f=%(c)s) }}",
    "varargs-special": "{%% macro w() %%}{{ varargs[0]() }}{%% endmacro %%}{{ w(%(c)s) }}",
    "param-named-loop": "{%% macro w(loop) %%}{{ loop() }}{%% endmacro %%}{{ w(%(c)s) }}",
    "loop-special-arg": "{%% for f in [%(c)s] %%}{{ loop.cycle(f)() }}{%% endfor %%}",
    "call-block-param": "{%% macro w() %%}{{ caller(%(c)s) }}{%% endmacro %%}{%% call(loop) w() %%}{{ loop() }}{%% endcall %%}",
    # other templates of the same environment: imported macros, includes, inheritance
    "imported-macro": "{%% from 'lib' import callit %%}{{ callit(%(c)s) }}",
    "imported-macro-kw": "{%% from 'lib' import callkw as k %%}{{ k(%(c)s) }}",
    "import-module-macro": "{%% import 'lib' as L %%}{{ L.callit(%(c)s) }}",
    "include-calls": "{%% set cf = %(c)s %%}{%% include 'inc' %%}",
    "extends-block": "{%% extends 'base' %%}{%% block b %%}{{ %(c)s() }}{%% endblock %%}",
    "extends-parent-block": "{%% extends 'base' %%}{%% set cf2 = %(c)s %%}",
    # extensions
    "do-statement": "{%% do %(c)s() %%}",
    "trans-variable": "{%% trans v=%(c)s() %%}{{ v }}{%% endtrans %%}",
    "loop-break": "{%% for x in [1, 2] %%}{%% if %(c)s() %%}{%% break %%}{%% endif %%}{%% endfor %%}",
    # the result of the call is used further
    "attribute-of-result": "{{ %(c)s().real }}",
    "item-of-result": "{{ %(c)s()[0] }}",
    "set-block-filter-arg": "{%% set v | default(%(c)s()) %%}{%% endset %%}{{ v }}",
    "elif-test": "{%% if false %%}{%% elif %(c)s() %%}y{%% endif %%}",
    "with-value": "{%% with v = %(c)s() %%}{{ v }}{%% endwith %%}",
    "macro-call-kwarg": "{%% macro m(a=1) %%}{{ a }}{%% endmacro %%}{{ m(a=%(c)s()) }}",
}

# (expression, how to build the data, markers)
def callables_under_test():
    return [
        ("u", dict(unsafe=True)), ("a", dict(alters=True)), ("fb", dict(forbidden=True)), ("s2", dict()),
        ("o.um", dict(unsafe=True)), ("d.u", dict(unsafe=True)), ("ci", dict(alters=True)),
        ("lst[0]", dict(unsafe=True, forbidden=True)), ("(o|attr('um'))", dict(unsafe=True)),
        ("cim", dict(unsafe=True)), ("pu", dict(unsafe=True)), ("prx", dict(alters=True)), ("ilc", dict(unsafe=True)),
    ]


def build_data(rec):
    u = rec.mark(rec.function("u", ret=[1]), unsafe=True)
    a = rec.mark(rec.function("a", ret=[1]), alters=True)
    fb = rec.mark(rec.function("fb", ret=[1]), forbidden=True)
    s2 = rec.function("s2", ret=[1])

    def s(*args, **kw):
        return s

    class O:
        def um(self, *a, **k):
            rec.ran.append("o.um")
            return [1]
    O.um.unsafe_callable = True

    class CI:
        alters_data = True

        def __call__(self, *a, **k):
            rec.ran.append("ci")
            return [1]
    class CIM:
        def __call__(self, *a, **k):
            rec.ran.append("cim")
            return [1]
    CIM.__call__.unsafe_callable = True
    import functools
    pu = functools.partial(rec.mark(rec.function("pu", ret=[1]), unsafe=True))
    class Proxy:
        def __init__(self, f):
            self._f = f

        def __call__(self, *a, **k):
            return self._f(*a, **k)

        def __getattr__(self, name):
            return getattr(self._f, name)
    prx = Proxy(rec.mark(rec.function("prx", ret=[1]), alters=True))
    import jinja2

    class ILC:
        def __call__(self, *a, **k):
            return [1]

    def swapped(ctx, *a, **k):
        rec.ran.append("ilc")
        return [1]
    ilc = ILC()
    ilc.__call__ = rec.mark(jinja2.pass_context(swapped), unsafe=True)
    both = rec.mark(rec.function("lst[0]", ret=[1]), unsafe=True, forbidden=True)
    dd = rec.mark(rec.function("d.u", ret=[1]), unsafe=True)
    return {"u": u, "a": a, "fb": fb, "s2": s2, "s": s, "o": O(), "d": {"u": dd}, "ci": CI(), "lst": [both],
            "cim": CIM(), "pu": pu, "prx": prx, "ilc": ilc}


TAG = {"(o|attr('um'))": "o.um"}


def judge_render(ctx, envs, case):
    from jinja2.exceptions import SecurityError
    c, shape, pol, mode = case["callable"], case["shape"], case["policy"], case["mode"]
    marks = dict(callables_under_test())[c]
    rejected = spec_rejected(pol, marks.get("unsafe", False), marks.get("alters", False), marks.get("forbidden", False))
    cfg = case.get("config", "")
    env, cache = envs[(pol, mode) if cfg == "" else (pol, mode, cfg)]
    entry, place = case.get("entry", "render"), case.get("place", "context")
    src = SHAPES[shape] % {"c": c}
    rec = Rec()
    data = build_data(rec)
    import asyncio
    is_async = mode == "async"
    try:
        if place == "template-globals":
            t = env.from_string(src, globals=data)
            args = {}
        else:
            t = cache.get(src)
            if t is None:
                t = cache[src] = env.from_string(src)
            args = data
            if place == "env-globals":
                env.globals.update(data)
                args = {}
        try:
            if entry == "generate" and not is_async:
                "".join(t.generate(**args))
            elif entry == "stream" and not is_async:
                "".join(t.stream(**args))
            elif entry == "render_async" and is_async:
                asyncio.run(t.render_async(**args))
            elif entry == "make_module":
                if is_async:
                    asyncio.run(t.make_module_async(args))
                else:
                    str(t.make_module(args))
            else:
                t.render(**args)
        finally:
            if place == "env-globals":
                for k in data:
                    env.globals.pop(k, None)
        outcome = "ok"
    except SecurityError:
        outcome = "SecurityError"
    except Exception as e:  # noqa: BLE001
        outcome = "exc:" + type(e).__name__
    tag = TAG.get(c, c)
    ran = tag in rec.ran
    # under the overridden predicate a callable that only carries the default markers is allowed
    others = [t_ for t_ in rec.ran if t_ != tag and spec_rejected(pol, *{"u": (1, 0, 0), "a": (0, 1, 0), "fb": (0, 0, 1), "o.um": (1, 0, 0),
              "d.u": (1, 0, 0), "ci": (0, 1, 0), "lst[0]": (1, 0, 1)}.get(t_, (0, 0, 0)))]
    if pol == "overridden" and c in ("cim", "pu", "prx", "ilc"):
        rejected = False
    case.update(template=src, outcome=outcome, ran=ran, rejected=rejected)
    if outcome == "exc:TemplateSyntaxError" and not rec.ran:
        case["rejected"] = False          # the shape is not a template for this callee expression
        ctx.count("render_not_a_template")
        return True
    if (rejected and ran) or others:
        shared.reject_once(ctx, case, f"a callable the {pol} predicate rejects ({c}) ran in the {mode} sandbox through shape {shape!r}",
                           f"C18:render:{shape}:{pol}")
        return False
    # model prediction: the gate refuses with SecurityError; an accepted callable runs
    if rejected and outcome != "SecurityError":
        ctx.model_mismatch("K-rt render: rejected callable must raise SecurityError", case, "SecurityError", outcome, None)
        return False
    if not rejected and not ran:
        ctx.model_mismatch("K-rt render: accepted callable must run", case, "invoke", outcome, None)
        return False
    return True


def run(ctx):
    jinja2 = lib.use_repo_jinja()
    from gen import sbx_tables
    ctx.extra["rule"] = RULE
    ctx.assumptions += [
        "callables are opaque: what a callable does when it runs (including calling other objects itself) is outside the property; macros are template code and their bodies are covered as statement positions",
        "filters and tests do not invoke template-supplied callables (they take names, not callables); `and` / `or` / conditional operands are all evaluated in the model (an over-approximation of the events)",
        "Context.call invokes exactly the object it was given (pass_context / pass_environment decoration only adds arguments)",
        "the safety predicate is a function of the callable object (default: its unsafe_callable / alters_data attributes)",
    ]
    # T5: the current source of SandboxedEnvironment.is_safe_callable and .call, interpreted in Coq,
    # equals is_safe_wcallable / sandbox_call (check event, then invocation) for every argument.  coqc compiles
    # the regenerated files in worker threads while the proof re-check and the streams run; every obligation
    # is compiled on every run and joined (and judged) at the end of run()
    finish_equations = sbx_src_tie.start_source_equations(ctx, ("call", "immcall"))   # immcall: the immutable subclass consults the base predicate FIRST
    # regenerated routing decision table of visit_Call / visit_Getattr / visit_Getitem (what C18_calls_gated relies on)
    finish_routes = sbx_src_tie.start_routing_table(ctx)
    ctx.proof("C18")

    envs = make_envs()
    k_rt_gate(ctx, envs)
    k_rt_gate_format(ctx, envs)
    shared_bytecode_cache(ctx)
    precompiled_by_plain_environment(ctx)
    policy_override_stream(ctx)
    history_stream(ctx)
    shared.k_gen(ctx, jinja2, ctx.size(1500, 15000), ctx.size(250, 2500), "C18")
    for idx, ((c, _), shape, pol, mode) in enumerate(itertools.product(callables_under_test(), SHAPES, ("default", "overridden"), ("sync", "async"))):
        case = {"kind": "render", "callable": c, "shape": shape, "policy": pol, "mode": mode,
                # sampled axes: environment class / configuration, entry point, where the callables live
                "config": CONFIGS[(idx // 4) % len(CONFIGS)], "entry": ENTRIES[(idx // 4 + idx // 28) % len(ENTRIES)],
                "place": PLACES[(idx // 4 + idx // 12) % len(PLACES)]}
        ok = judge_render(ctx, envs, case)
        ctx.case(sample=case if case["rejected"] and shape == "macro-default" else None,
                 key=("render", c, shape, pol, mode) if case["rejected"] else None)
        ctx.count(f"render_{pol}_{mode}")
        ctx.count("config_" + (case["config"] or "default"))
        ctx.count("entry_" + case["entry"])
        ctx.count("place_" + case["place"])
        if ok:
            ctx.validated()
    finish_equations()
    finish_routes()


def replay(ctx, data):
    jinja2 = lib.use_repo_jinja()
    case = data.get("case")
    if data.get("kind") != "failing-input" or case is None:
        print("replay: names a broken theorem/correspondence:", data.get("broken"))
        return run(ctx)
    kind = case.get("kind")
    envs = make_envs()
    if kind == "render":
        judge_render(ctx, envs, {k: case[k] for k in ("kind", "callable", "shape", "policy", "mode", "config", "entry", "place") if k in case})
    elif kind == "gate":
        from jinja2.exceptions import SecurityError
        env = envs[(case["policy"], "sync") if not case.get("class") else (case["policy"], "sync", case["class"])][0]
        rec = Rec()
        obj = make_callable(rec, case["callable"], case["unsafe_callable"], case["alters_data"], case["forbidden"])
        try:
            env.call(env.from_string("").new_context({}), obj, 1, k=2)
        except SecurityError:
            pass
        except Exception as e:  # noqa: BLE001
            print("call raised", type(e).__name__)
        if rec.ran and spec_rejected(case["policy"], case["unsafe_callable"], case["alters_data"], case["forbidden"]):
            ctx.reject(case, "SandboxedEnvironment.call ran a rejected callable", None)
    elif kind in ("template", "expr"):
        from . import c17
        return c17.replay(ctx, data)
    else:
        return run(ctx)
    print("replayed ->", "rejected" if ctx.violations else "accepted")
