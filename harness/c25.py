"""C25 — the template cache always serves the current template source.

proof:  Properties/C25.v  (autoreload_current for every history, no_reload_sticky, cache_bound_lru through the
        LRU refinement of C26, size0_recompiles, and the witness that a loader without an up-to-date check
        serves stale templates)
tie  :  K-rt  extracted Model.Tc.run  ==  real Environment.get_template / select_template /
        get_or_select_template over DictLoader, FunctionLoader (4 kinds of uptodate) and FileSystemLoader
        (forced os.utime), for cache sizes 0, 1, 2, -1 and auto_reload on/off: per operation the identity of the
        returned template object (order of first appearance), the version its rendering shows, and
        len(env.cache).
oracle: on the real engine, independent of the model: (a) auto_reload with a working up-to-date check renders
        the current version / TemplateNotFound iff deleted, select_template picks the first existing name;
        (b) without auto_reload an object in an unbounded cache is returned forever; (c) len(cache) <= n and
        object identity follows a reference LRU list; (d) cache size 0 returns a new object every time;
        (e) the cache key includes the loader (swapping env.loader never serves the old loader's template).
"""
import itertools
import os
import shutil
import sys

from . import lib

RULE = ("histories: every sequence up to length L1 over the 9-operation alphabet {get n1, get n2, select [n1,n2], "
        "select [n2,n1], put n1 v1, put n1 v2, put n2 v2, delete n1, delete n2}, up to L2 over the reduced alphabet "
        "{get n1, get n2, put n1 v2, put n1 v1, delete n1, select [n2,n1]} and over the 3-name alphabet {get n1, "
        "get n2, get n3, put n1 v2, delete n1}; over four names {get n1..n4}, lengths up to L2+1, size 3 (thorough: 3, 4), so that hits "
        "BEFORE the cache is full decide later evictions; every history under cache sizes {0, 1, 2, -1} x auto_reload {on, off} "
        "on DictLoader; shorter bounds on FunctionLoader (uptodate = version check / None / always True / always "
        "False) and FileSystemLoader with os.utime-forced mtimes; layered loaders (FileSystemLoader with two search "
        "paths, ChoiceLoader of two DictLoaders) over {get, select, put / delete in layer 1 or layer 2}, where a "
        "put into layer 1 shadows the template loaded from layer 2 (also with names in sub directories and a first search path that do "
        "not exist until the put); templates that are symbolic links whose target is modified / deleted; histories in which env.auto_reload is switched on / off "
        "between requests; source changes made by REPLACING the loader's container object (mapping / load_func / searchpath); the template cache composed "
        "with a bytecode cache filled by another environment; deletions that change the shape of the tree (the template's directory becomes a "
        "file, the template file becomes a directory).  each get / select rotates through the entry points (get_template, "
        "get_or_select_template, select_template([name]), tuple of names) and optional arguments (globals=, parent=, str "
        "subclass as name).  distinct = (loader kind, auto_reload, size, history); non-trivial = a get/select "
        "follows a put or delete of a name that was loaded before.")

NAMES = {1: "n1", 2: "n2", 3: "n3", 4: "n4"}
NAMES_ALIAS = {1: "n1", 2: "./n1", 3: "/n1", 4: "a//n1"}      # kind dicta: spellings a DictLoader treats as DIFFERENT templates
NAMES_SUB = {1: "sub/n1", 2: "sub/n2", 3: "n3", 4: "deep/er/n4"}      # kind fs2d: names with directories that may not exist yet
ALPHA_FULL = ["g:1", "g:2", "s:1,2", "s:2,1", "p:1:1", "p:1:2", "p:2:2", "d:1", "d:2"]
ALPHA_RED = ["g:1", "g:2", "p:1:2", "p:1:1", "d:1", "s:2,1"]
ALPHA_3 = ["g:1", "g:2", "g:3", "p:1:2", "d:1"]
ALPHA_4 = ["g:1", "g:2", "g:3", "g:4"]
ALPHA_FSD = ["g:1", "g:2", "p:1:2", "D:1", "F:1", "s:1,2", "d:1"]      # kind fsd: directory -> file, file -> directory, plain delete
ALPHA_REP = ["g:1", "R:1:2", "R:1:1", "d:1", "s:1,2", "p:1:2"]      # the loader's container object is replaced
ALPHA_TOG = ["g:1", "p:1:2", "d:1", "a:1", "a:0", "s:1,2"]      # env.auto_reload switched between requests      # recency below capacity: sizes 2, 3, 4 over four names
INIT = {1: 1, 2: 1, 3: 1, 4: 1}
INIT2 = {1: 3, 2: 3, 3: 3, 4: 3}          # layered kinds: everything starts in layer 2 (versions 3, 4); layer 1 uses versions 1, 2
ALPHA_LAY = ["g:1", "p1:1:1", "d1:1", "p2:1:4", "d2:1", "s:1,2"]
SHADOW_SIG = "C25:shadowing-addition-in-earlier-choice-loader"
MT0 = 1_000_000_000


def src(n, v):
    return f"n{n}v{v}"


class World:
    """loader state + a real loader of the requested kind built on it"""

    def __init__(self, jinja2, kind, fsdir=None):
        self.kind = kind
        self.state = dict(INIT)
        self.fsdir = fsdir
        self.names = NAMES_SUB if kind in ("fs2d", "fsd") else NAMES_ALIAS if kind == "dicta" else NAMES         # the names templates are requested under
        if kind in ("dict", "dicta"):
            self.mapping = {self.names[n]: src(n, v) for n, v in self.state.items()}
            self.loader = jinja2.DictLoader(self.mapping)
        elif kind == "fs":
            for f in os.listdir(fsdir):
                os.unlink(os.path.join(fsdir, f))
            for n, v in self.state.items():
                self._write(n, v)
            self.loader = jinja2.FileSystemLoader(fsdir)
        elif kind == "fsd":
            # one search path, names in sub directories; deletions change the SHAPE of the tree (directory -> file, file -> directory)
            self.fsdir = fsdir + "D"
            shutil.rmtree(self.fsdir, ignore_errors=True)
            os.makedirs(self.fsdir)
            for n, v in self.state.items():
                self._write(n, v)
            self.loader = jinja2.FileSystemLoader(self.fsdir)
        elif kind == "pkg":
            # PackageLoader on a directory package; same forced mtimes (they also move BACKWARDS: put v2 then put v1)
            root = fsdir + "P"
            shutil.rmtree(root, ignore_errors=True)
            self.fsdir = os.path.join(root, "c25pkg", "templates")
            os.makedirs(self.fsdir)
            open(os.path.join(root, "c25pkg", "__init__.py"), "w").write("")
            for n, v in self.state.items():
                self._write(n, v)
            import importlib
            sys_path_added = root not in sys.path
            if sys_path_added:
                sys.path.insert(0, root)
            for k in [k for k in sys.modules if k == "c25pkg" or k.startswith("c25pkg.")]:
                del sys.modules[k]
            importlib.invalidate_caches()
            self.loader = jinja2.PackageLoader("c25pkg", "templates")
        elif kind == "fslink":
            # every template in the search path is a symbolic link to a file elsewhere; source changes hit the TARGET
            self.ldir, self.tdir = os.path.join(fsdir + "L", "links"), os.path.join(fsdir + "L", "targets")
            shutil.rmtree(fsdir + "L", ignore_errors=True)
            os.makedirs(self.ldir)
            os.makedirs(self.tdir)
            for n, v in self.state.items():
                self._write(n, v)
            self.loader = jinja2.FileSystemLoader(self.ldir)
        elif kind in ("fs2", "fs2d", "choice"):
            # two layers (search paths / member loaders); layer 1 shadows layer 2
            self.layers = [dict(), dict(INIT2)]
            self.state = dict(INIT2)
            if kind in ("fs2", "fs2d"):
                self.dirs = [os.path.join(fsdir + "2", "p1"), os.path.join(fsdir + "2", "p2")]
                for d in self.dirs:
                    shutil.rmtree(d, ignore_errors=True)
                    if kind == "fs2" or d.endswith("p2"):
                        os.makedirs(d)                 # fs2d: the first search path does not exist until something is put there
                for n, v in self.layers[1].items():
                    self._write_at(1, n, v)
                self.loader = jinja2.FileSystemLoader(self.dirs)
            else:
                self.maps = [{}, {NAMES[n]: src(n, v) for n, v in self.layers[1].items()}]
                self.loader = jinja2.ChoiceLoader([jinja2.DictLoader(self.maps[0]), jinja2.DictLoader(self.maps[1])])
        else:
            self.loader = jinja2.FunctionLoader(self._make_func())

    def _make_func(self):
        st = self.state
        inv = {v: k for k, v in NAMES.items()}
        kind, world = self.kind, self

        def load_func(name):
            n = inv.get(name)
            v = st.get(n)
            if v is None:
                return None
            if kind == "funcN":
                return src(n, v)
            if kind == "funcV":
                return src(n, v), None, (lambda: world.state.get(n) == v)      # asks the world as it is NOW
            return src(n, v), None, (lambda: kind == "funcT")
        return load_func

    def replace(self, n, v):
        """the same source change as put(), made by REPLACING the loader's container object (a new mapping / state dict and
        load_func / search path list) instead of mutating it in place"""
        if self.kind in ("dict", "dicta"):
            new = dict(self.mapping)
            new[self.names[n]] = src(n, v)
            self.state[n] = v
            self.mapping = new
            self.loader.mapping = new
        elif self.kind.startswith("func"):
            self.state = dict(self.state)
            self.state[n] = v
            self.loader.load_func = self._make_func()
        elif self.kind in ("fs", "fslink", "fsd"):
            self.loader.searchpath = list(self.loader.searchpath)
            self.put(n, v)
        else:
            self.put(n, v)

    def _write_at(self, layer, n, v):
        p = os.path.join(self.dirs[layer], self.names[n])
        os.makedirs(os.path.dirname(p), exist_ok=True)
        with open(p, "w") as f:
            f.write(src(n, v))
        os.utime(p, (MT0 + 1000 * v, MT0 + 1000 * v))

    def layer_op(self, layer, n, v):
        """put (v given) or delete (v None) name n in one layer; returns the effective version afterwards"""
        if v is None:
            self.layers[layer].pop(n, None)
        else:
            self.layers[layer][n] = v
        if self.kind in ("fs2", "fs2d"):
            if v is None:
                try:
                    os.unlink(os.path.join(self.dirs[layer], self.names[n]))
                except FileNotFoundError:
                    pass
            else:
                self._write_at(layer, n, v)
        else:
            if v is None:
                self.maps[layer].pop(NAMES[n], None)
            else:
                self.maps[layer][NAMES[n]] = src(n, v)
        eff = self.layers[0].get(n, self.layers[1].get(n))
        if eff is None:
            self.state.pop(n, None)
        else:
            self.state[n] = eff
        return eff

    def _write(self, n, v):
        if self.kind == "fslink":
            p = os.path.join(self.tdir, NAMES[n])
            link = os.path.join(self.ldir, NAMES[n])
            if not os.path.islink(link):
                os.symlink(os.path.join("..", "targets", NAMES[n]), link)
        else:
            p = os.path.join(self.fsdir, self.names[n])
            # whatever blocks the path (a file where a directory is needed, a directory where the file goes) is removed first
            parts = self.names[n].split("/")
            for i in range(1, len(parts)):
                q = os.path.join(self.fsdir, *parts[:i])
                if os.path.isfile(q):
                    os.unlink(q)
            if os.path.isdir(p):
                shutil.rmtree(p)
            os.makedirs(os.path.dirname(p), exist_ok=True)
        with open(p, "w") as f:
            f.write(src(n, v))
        os.utime(p, (MT0 + 1000 * v, MT0 + 1000 * v))

    def reshape(self, how, n):
        """D: remove the template's directory and put a FILE of that name there; F: replace the template file by a directory"""
        p = os.path.join(self.fsdir, self.names[n])
        if how == "D":
            d = os.path.dirname(p)
            if d != self.fsdir and os.path.isdir(d):
                shutil.rmtree(d)
                open(d, "w").write("not a directory")
                for k, nm in self.names.items():
                    if nm.startswith(os.path.dirname(self.names[n]) + "/"):
                        self.state.pop(k, None)
            else:
                self.delete(n)
        else:
            if os.path.isfile(p):
                os.unlink(p)
            if os.path.isdir(os.path.dirname(p)) and not os.path.exists(p):
                os.makedirs(p)
            self.state.pop(n, None)

    def put(self, n, v):
        self.state[n] = v
        if self.kind in ("dict", "dicta"):
            self.mapping[self.names[n]] = src(n, v)
        elif self.kind in ("fs", "fslink", "fsd", "pkg"):
            self._write(n, v)

    def delete(self, n):
        self.state.pop(n, None)
        if self.kind in ("dict", "dicta"):
            self.mapping.pop(self.names[n], None)
        elif self.kind in ("fs", "fslink", "fsd", "pkg"):
            try:
                os.unlink(os.path.join(self.tdir if self.kind == "fslink" else self.fsdir, self.names[n]))     # fslink: the link dangles
            except OSError:
                pass                        # already gone, or (kind fsd) the path runs through a file / ends in a directory


UPT = {"dict": "V", "fs": "V", "funcV": "V", "funcN": "N", "funcT": "T", "funcF": "F", "fs2": "V", "fs2d": "V", "fslink": "V", "fsd": "V", "pkg": "V", "dicta": "V", "choice": "V"}


class StrSub(str):
    """a str subclass as template name (same text, same hash / equality)"""


def call_get(env, name, k):
    """every documented way of asking for ONE name, in rotation: entry point, optional arguments, kind of the name value"""
    k %= 7
    if k == 0:
        return env.get_template(name)
    if k == 1:
        return env.get_or_select_template(name)
    if k == 2:
        return env.get_template(name, globals={"g": k})
    if k == 3:
        return env.get_template(name, parent="some/parent")       # default join_path: the name is used unchanged
    if k == 4:
        return env.get_template(StrSub(name))
    if k == 5:
        return env.select_template([name])
    return env.get_or_select_template(name, "some/parent", {"h": 2})


def call_select(env, names, k):
    k %= 6
    if k == 0:
        return env.select_template(names)
    if k == 1:
        return env.get_or_select_template(names)
    if k == 2:
        return env.select_template(tuple(names))
    if k == 3:
        return env.select_template(names, globals={"g": 1})
    if k == 4:
        return env.select_template(names, parent="some/parent")
    return env.get_or_select_template([StrSub(n) for n in names], None, {"h": 3})


def model_ops_of(kind, o):
    """the model operations one real operation stands for (kind fsd: removing a directory deletes every template in it)"""
    p = o.split(":")
    if p[0] == "D":          # the template's directory is removed and a FILE of that name is created
        d = os.path.dirname(NAMES_SUB[int(p[1])])
        return [f"d:{n}" for n, nm in NAMES_SUB.items() if d and (nm.startswith(d + "/"))] or [f"d:{p[1]}"]
    if p[0] == "F":          # the template file is replaced by a DIRECTORY of the same name
        return [f"d:{p[1]}"]
    return [o]


def real_run(jinja2, kind, ar, size, ops, fsdir=None):
    """-> (result string in the driver's format, oracle failure or None)"""
    composed = kind.endswith("+bc")
    kind = kind.split("+")[0]
    w = World(jinja2, kind, fsdir)
    kw = {}
    if composed:
        # template cache AND bytecode cache: the bytecode cache was filled by another environment before, so the first
        # load of every template here is a bytecode-cache hit
        from jinja2.bccache import FileSystemBytecodeCache
        bdir = fsdir + "B"
        shutil.rmtree(bdir, ignore_errors=True)
        os.makedirs(bdir)
        warm = jinja2.Environment(loader=w.loader, bytecode_cache=FileSystemBytecodeCache(bdir), cache_size=0)
        for n in list(w.state):
            warm.get_template(w.names[n])
        kw["bytecode_cache"] = FileSystemBytecodeCache(bdir)
    env = jinja2.Environment(loader=w.loader, cache_size=size, auto_reload=bool(ar), **kw)
    objs = []
    res = []
    fail = None
    ref_lru = []            # reference recency list of names (least recent first) for size >= 1
    sticky = {}             # name -> object, for (b)
    flip = 0
    checks_current = ar and UPT[kind] in ("V", "F")
    toggles = any(o.startswith("a:") for o in ops)
    for o in ops:
        p = o.split(":")
        if p[0] == "a":
            ar = int(p[1])
            env.auto_reload = bool(ar)
            checks_current = ar and UPT[kind] in ("V", "F")
            res.append("U")
            continue
        if p[0] in ("p1", "p2", "d1", "d2"):
            w.layer_op(int(p[0][1]) - 1, int(p[1]), int(p[2]) if p[0][0] == "p" else None)
            res.append("U")
            continue
        if p[0] == "R":
            w.replace(int(p[1]), int(p[2]))
            res.append("U")
            continue
        if p[0] in ("D", "F"):
            res += ["U"] * len(model_ops_of(kind, o))
            w.reshape(p[0], int(p[1]))
            continue
        if p[0] == "p":
            w.put(int(p[1]), int(p[2]))
            res.append("U")
            continue
        if p[0] == "d":
            w.delete(int(p[1]))
            res.append("U")
            continue
        names = [int(x) for x in p[1].split(",")] if p[1] else []
        flip += 1
        try:
            if p[0] == "g":
                t = call_get(env, w.names[names[0]], flip)
            else:
                t = call_select(env, [w.names[n] for n in names], flip)
            text = t.render()
        except jinja2.TemplateNotFound:          # TemplatesNotFound is a subclass
            t, text = None, None
        except Exception as e:  # noqa
            res.append("X:" + type(e).__name__)
            fail = fail or f"{o}: raised {type(e).__name__}: {e}"
            continue
        ln = "-" if env.cache is None else str(len(env.cache))
        if t is None:
            res.append("NF/" + ln)
        else:
            idx = next((i for i, x in enumerate(objs) if x is t), None)
            new = idx is None
            if new:
                objs.append(t)
                idx = len(objs) - 1
            nm, ver = text.split("v")
            n_got = int(nm[1:])
            res.append(f"T{idx + 1}:{ver}/{ln}")
        # ---------------- the property itself, on the real engine
        if fail:
            continue
        want = next((n for n in names if n in w.state), None)
        if checks_current:
            if want is None and t is not None:
                fail = f"{o}: a template was returned although every requested name is deleted"
            elif want is not None and t is None:
                fail = f"{o}: TemplateNotFound although {NAMES[want]} exists"
            elif want is not None and (n_got != want or int(ver) != w.state[want]):
                fail = f"{o}: rendered {text!r}, current source is {src(want, w.state[want])!r}"
        if size == 0 and t is not None and not new:
            fail = fail or f"{o}: cache size 0 returned an object seen before"
        if size > 0 and env.cache is not None and len(env.cache) > size:
            fail = fail or f"{o}: len(cache) = {len(env.cache)} exceeds the size {size}"
        if not ar and size != 0 and not toggles:
            # reference behaviour without auto_reload: an object that is still cached (unbounded cache: forever;
            # size n: among the n most recently used names) is returned as is, whatever happened to its source;
            # otherwise the first requested name that exists is loaded as a NEW object (evicting the least
            # recently used name when full)
            expect = None           # ("old", obj) | ("new",) | None = not found
            for n in names:
                if n in ref_lru:
                    ref_lru.remove(n)
                    ref_lru.append(n)
                    expect = ("old", sticky[n], n)
                    break
                if n in w.state:
                    expect = ("new", None, n)
                    break
            if expect is None:
                if t is not None:
                    fail = fail or f"{o}: a template was returned although nothing is cached and nothing exists"
            elif t is None:
                fail = fail or f"{o}: TemplateNotFound although {NAMES[expect[2]]} is cached or exists"
            elif expect[0] == "old":
                if t is not expect[1]:
                    fail = fail or f"{o}: auto_reload off: {NAMES[expect[2]]} is still cached but another object was returned"
            else:
                if not new:
                    fail = fail or f"{o}: {NAMES[expect[2]]} is not cached (never loaded or evicted as least recently used) but an old object was returned"
                ref_lru.append(expect[2])
                sticky[expect[2]] = t
                if size > 0 and len(ref_lru) > size:
                    ref_lru.pop(0)
    return ";".join(res), fail


def swap_probe(jinja2, size, ar):
    """(e) the cache key contains the loader"""
    l1 = jinja2.DictLoader({"n1": "old"})
    l2 = jinja2.DictLoader({"n1": "new"})
    env = jinja2.Environment(loader=l1, cache_size=size, auto_reload=bool(ar))
    a = env.get_template("n1").render()
    env.loader = l2
    b = env.get_template("n1").render()
    env.loader = l1
    c = env.get_template("n1").render()
    return None if (a, b, c) == ("old", "new", "old") else f"after swapping env.loader the renders were {(a, b, c)}"


def nontrivial(ops):
    loaded = set()
    changed = set()
    for o in ops:
        p = o.split(":")
        if p[0] == "a":
            continue
        if p[0] in "gs":
            ns = [int(x) for x in p[1].split(",")] if p[1] else []
            if any(n in changed for n in ns):
                return True
            loaded.update(ns)
        else:
            if int(p[1]) in loaded:
                changed.add(int(p[1]))
    return False


def shadowing(ops):
    """a template is added to layer 1 after it was loaded from layer 2"""
    loaded = False
    for o in ops:
        if o[0] in "gs":
            loaded = True
        elif o.startswith("p1") and loaded:
            return True
    return False


def line(kind, ar, size, ops):
    kind = kind.split("+")[0]              # a bytecode cache does not change what the template cache serves
    ops = [m for o in ops for m in model_ops_of(kind, o)]
    if kind in ("fs2", "fs2d", "choice"):
        # the layered model (Model/TcLay.v): layer 1 empty, layer 2 = INIT2; closure of the FileSystemLoader (after fix
        # 3f4facf) resp. of the serving ChoiceLoader member
        init = " ".join(f"2 {n} {v}" for n, v in INIT2.items())
        return f"Y {ar} {'C' if kind == 'choice' else 'F'} {size} 2 {len(INIT2)} {init} " + " ".join(ops)
    init = " ".join(f"{n} {v}" for n, v in INIT.items())
    return f"{ar} {UPT[kind]} {size} {len(INIT)} {init} " + " ".join("p" + o[1:] if o.startswith("R:") else o for o in ops)


def histories(alpha, lo, hi):
    for n in range(lo, hi + 1):
        for ops in itertools.product(alpha, repeat=n):
            yield list(ops)


def run(ctx):
    jinja2 = lib.use_repo_jinja()
    ctx.extra["rule"] = RULE
    ctx.assumptions += [
        "template source text and file mtime are injective functions of the version (the harness forces mtimes with os.utime); "
        "equal mtimes with different content are outside the property",
        "one loader object per environment in M (the (weakref(loader), name) key is probed by swapping env.loader)",
        "template globals updates on cache hits are not modelled",
    ]
    ctx.proof("C25")
    ctx.proof("C25lay")
    # translator tie (T5): the current source of Environment._load_template, as a term of Lib/PyTc, is proved equal
    # to Model.Tc.load_template for every state, name and globals truth value; create_cache / is_up_to_date /
    # the entry points funnelling into _load_template are checked structurally
    import sys
    sys.path.insert(0, os.path.join(lib.ROOT, "gen"))
    import tc_translate
    try:
        ok, out = ctx.coq_obligation("Gen_tc", tc_translate.emit(lib.SRC), n_obligations=1)
        if ok:
            ctx.trusted.append("Gen_tc (_load_template source = model): " + " ".join(out.split()))
    except tc_translate.Untranslatable as e:
        ctx.obligations += 1
        ctx.broken.append(f"translator gen/tc_translate.py: environment.py left the translatable vocabulary: {e}")
    # the FileSystemLoader's up-to-date closure (Model/TcLay.v, LFs) as the source has it now: watches the earlier search
    # paths, compares the mtime for equality, OSError = changed (Gen_ldc.fs_closure_shape)
    import ldc_translate
    try:
        ctx.coq_obligation("Gen_ldc", ldc_translate.emit(lib.SRC), n_obligations=2)
    except ldc_translate.Untranslatable as e:
        ctx.obligations += 2
        ctx.broken.append(f"translator gen/ldc_translate.py: loaders.py left the translatable vocabulary: {e}")

    L1 = ctx.size(4, 5)
    L2 = ctx.size(5, 6)
    cases = []
    full = list(histories(ALPHA_FULL, 0, L1))
    red = list(histories(ALPHA_RED, L1 + 1, L2))
    three = list(histories(ALPHA_3, 3, L2))
    grid = [(s_, a_) for s_ in (0, 1, 2, -1) for a_ in (1, 0)]
    quick_grid = [(0, 1), (1, 1), (-1, 1), (-1, 0)] if ctx.tier == "quick" else [(0, 1), (1, 1), (1, 0), (-1, 1), (-1, 0)]
    for size, ar in quick_grid:
        for h in full:
            if len(h) <= 4 or (size, ar) == (1, 1):      # thorough: length 5 under one configuration only
                cases.append(("dict", ar, size, h))
    for size, ar in ((2, 0),) if ctx.tier == "quick" else ((1, 1),):
        for h in red:
            cases.append(("dict", ar, size, h))
    for size, ar in ((2, 1), (2, 0)) if ctx.tier == "quick" else ((1, 1), (2, 1), (2, 0)):
        if True:
            for h in three:
                cases.append(("dict", ar, size, h))
    # least recently USED below capacity: a hit before the cache is full must count (sizes 3 and 4 over four names)
    four = list(histories(ALPHA_4, 4, L2 + 1))
    for size in ((3,) if ctx.tier == "quick" else (3, 4)):
        for ar in ((1, 0) if size == 3 else (1,)):
            for h in four:
                if size == 4 and len(h) > L2:
                    continue
                cases.append(("dict", ar, size, h))
    short = list(histories(ALPHA_FULL, 0, L1 - 1))
    for kind in ("funcV", "funcN", "funcT", "funcF"):
        for size in ((0, 1, 2, -1) if kind == "funcV" else (1, -1)):
            for ar in ((1, 0) if kind == "funcV" else (1,)):
                for h in short:
                    cases.append((kind, ar, size, h))
    fs_h = list(histories(ALPHA_RED, 0, L1)) + list(histories(ALPHA_3, 3, L1))
    for size, ar in [(0, 1), (1, 1), (-1, 1), (-1, 0)] if ctx.tier == "quick" else [(1, 1), (-1, 1), (-1, 0)]:
        if True:
            for h in fs_h:
                cases.append(("fs", ar, size, h))
    # auto_reload is a public attribute: histories in which it is switched between requests
    tog = [h for h in histories(ALPHA_TOG, 2, L1) if any(o.startswith("a:") for o in h)]
    for kind, size, ar in (("dict", 1, 0), ("dict", -1, 0), ("fs", -1, 0)):
        for h in tog:
            cases.append((kind, ar, size, h))
    # the same source changes made by replacing the loader's container (loader.mapping = {...}, load_func, searchpath)
    rep = [h for h in histories(ALPHA_REP, 2, L1) if any(o.startswith("R:") for o in h)]
    for kind, size, ar in (("dict", 1, 1), ("dict", -1, 0), ("funcV", -1, 1), ("fs", -1, 1)) + \
            ():
        for h in rep:
            cases.append((kind, ar, size, h))
    # template cache and bytecode cache composed (the bytecode cache already holds every template)
    bc_h = list(histories(ALPHA_RED, 2, L1))
    for kind, size, ar in (("dict+bc", 1, 1), ("fs+bc", -1, 1)) + ((("dict+bc", -1, 1),) if ctx.tier != "quick" else ()):
        for h in bc_h:
            cases.append((kind, ar, size, h))
    # PackageLoader (directory form) and a DictLoader whose names are different spellings of one path
    for kind, size, ar in ((("pkg", -1, 1), ("dicta", -1, 1), ("dicta", 2, 1)) if ctx.tier == "quick" else (("pkg", -1, 1), ("pkg", 1, 1), ("dicta", -1, 1), ("dicta", 2, 1))):
        for h in histories(ALPHA_RED if kind == "pkg" else ALPHA_FULL, 2, L1 if kind == "pkg" else 3):
            cases.append((kind, ar, size, h))
    # deletions that change the shape of the directory tree
    fsd_h = [h for h in histories(ALPHA_FSD, 2, L1) if any(o[0] in "DF" for o in h)]
    for size, ar in ((1, 1),) if ctx.tier == "quick" else ((-1, 1), (1, 1)):
        for h in fsd_h:
            cases.append(("fsd", ar, size, h))
    # layered loaders: FileSystemLoader with two search paths, ChoiceLoader of two DictLoaders; layer 1 shadows layer 2
    lay_h = list(histories(ALPHA_LAY, 0, L1))
    for kind in ("fs2", "choice", "fs2d"):
        for size, ar in (((-1, 1), (1, 1)) if kind != "fs2d" else ((-1, 1),)) if ctx.tier == "quick" else (((-1, 1), (1, 1)) if kind != "fs2d" else ((2, 1),)):
            for h in lay_h:
                cases.append((kind, ar, size, h))
    # templates that are symbolic links: the source changes in the link's target
    for size, ar in ((-1, 1), (1, 1)):
        for h in histories(ALPHA_RED, 0, L1 - 1):
            cases.append(("fslink", ar, size, h))
    # random longer histories on every kind
    for _ in range(ctx.size(1500, 10000)):
        kind = ctx.rng.choice(["dict", "fs", "funcV", "funcN", "funcT", "funcF"])
        h = [ctx.rng.choice(ALPHA_FULL + ["g:3", "g:4", "g:4", "s:3,1", "s:4,2", "p:3:2", "d:3", "p:2:1", "p:4:2", "s:"]) for _ in range(ctx.rng.randint(6, 12))]
        cases.append((kind, ctx.rng.choice([0, 1]), ctx.rng.choice([0, 1, 2, 3, 3, 4, -1]), h))

    out = ctx.driver("tc", [line(k, ar, size, h) for k, ar, size, h in cases])
    fsdir = os.path.join(ctx.bdir, "fs")
    shutil.rmtree(fsdir, ignore_errors=True)
    os.makedirs(fsdir)
    try:
        for (kind, ar, size, h), m in zip(cases, out):
            impl, fail = real_run(jinja2, kind, ar, size, h, fsdir)
            case = {"loader": kind, "auto_reload": ar, "cache_size": size, "ops": h}
            nt = nontrivial(h)
            ctx.case(sample=dict(case, results=impl) if nt and len(h) >= 4 and kind != "dict" else None,
                     key=(kind, ar, size, tuple(h)) if nt else None)
            ctx.count(f"{kind}_len{min(len(h), 7)}")
            if fail:
                ctx.reject(dict(case, impl=impl, model=m), fail, SHADOW_SIG if kind == "choice" and shadowing(h) else None)
            elif impl != m:
                ctx.model_mismatch("K-rt Environment._load_template / select_template", case, m, impl, None)
            else:
                ctx.validated()
    finally:
        shutil.rmtree(fsdir, ignore_errors=True)
        shutil.rmtree(fsdir + "2", ignore_errors=True)

    run_race(ctx, jinja2)
    run_entry(ctx, jinja2)
    for size in (0, 1, 2, -1):
        for ar in (0, 1):
            ctx.case()
            ctx.count("loader_swap_probe")
            w = swap_probe(jinja2, size, ar)
            if w:
                ctx.reject({"probe": "swap", "cache_size": size, "auto_reload": ar}, w)
            else:
                ctx.validated()


# ------------------------------------------------------------------------------------------- other entry points into the cache
ENTRY_TPL = {
    "n1": "n1v{v}", "base": "B({{% block b %}}{{% endblock %}})v{v}", "mac": "{{% macro f() %}}Mv{v}{{% endmacro %}}", "dir/b": "dirBv{v}",
    "zz": "ZZv{v}", "b": "rootB",
    "inc": "[{{% include 'n1' %}}]", "incl": "[{{% include ['zz', 'n1'] %}}]", "ext": "{{% extends 'base' %}}{{% block b %}}E{{% endblock %}}",
    "imp": "{{% import 'mac' as m %}}{{{{ m.f() }}}}", "frm": "{{% from 'mac' import f %}}{{{{ f() }}}}", "dyn": "<{{% include n %}}>",
    "ign": "{{% include 'zz' ignore missing %}}|{{% include ['zz', 'yy'] ignore missing %}}", "dir/a": "{{% include 'b' %}}A",
    "extl": "{{% extends ['zz', 'base'] %}}{{% block b %}}L{{% endblock %}}",
    # nested import: imp2 imports mid, mid imports mac at its top level (mid's default module keeps mac's module)
    "mid": "{{% import 'mac' as k %}}{{% macro g() %}}<{{{{ k.f() }}}}>{{% endmacro %}}", "imp2": "{{% import 'mid' as m %}}{{{{ m.g() }}}}",
}
NESTED_SIG = "C25:nested-import-keeps-the-inner-module"
ENTRY_OPS = ["r:imp2", "r:inc", "r:incl", "r:ext", "r:imp", "r:frm", "r:dyn", "r:ign", "r:dir/a", "r:extl",
             "m:n1", "m:base", "m:mac", "m:dir/b", "d:n1", "d:zz", "a:zz", "d:base"]


def run_entry(ctx, jinja2):
    """include / include-list / extends / extends-list / import / from-import / ignore missing / a join_path override / a Template object as
    name / overlay(): one long-lived environment must render, after every history of source changes, what a FRESH
    environment on the same loader renders (auto_reload on)"""
    import posixpath

    class JEnv(jinja2.Environment):
        def join_path(self, template, parent):
            return posixpath.join(posixpath.dirname(parent), template)

    def render(env, name, ver):
        try:
            kw = {"n": ["zz", "n1"]} if ver % 2 else {"n": "n1"}
            return env.get_template(name).render(**kw)
        except jinja2.TemplateNotFound as e:
            return "NF:" + type(e).__name__
        except Exception as e:  # noqa
            return "X:" + type(e).__name__

    L = ctx.size(3, 4)
    hist = [list(h) for n in range(1, L + 1) for h in itertools.product(ENTRY_OPS, repeat=n) if h[-1].startswith("r:")]
    hist = [h for i, h in enumerate(hist) if i % ctx.size(3, 2) == 0]
    # every "render, change ONE other template, render again" (and the same with a render of something else in between)
    renders = [o for o in ENTRY_OPS if o.startswith("r:")]
    changes = [o for o in ENTRY_OPS if not o.startswith("r:")]
    sys_lo = len(hist)
    hist += [[r, c, r] for r in renders for c in changes] + [[r, c, r2, r] for r in renders for c in changes for r2 in renders[:3] if r2 != r]
    sys_hi = len(hist)
    hist += [[ctx.rng.choice(ENTRY_OPS) for _ in range(ctx.rng.randint(4, 9))] for _ in range(ctx.size(250, 2500))]
    for hi, h in enumerate(hist):
        # the systematic histories run with caches large enough to keep every template involved (unbounded, 3 is too small for
        # entry + two imports + the changed one only sometimes), the others rotate through all sizes
        size = (-1, 4)[hi % 2] if sys_lo <= hi < sys_hi else (-1, 1, 2, 0, 3)[hi % 5]
        ver = {k: 1 for k in ENTRY_TPL}
        mapping = {k: t.format(v=1) for k, t in ENTRY_TPL.items() if k != "zz"}
        loader = jinja2.DictLoader(mapping)
        env = JEnv(loader=loader, cache_size=size, auto_reload=True)
        fail = None
        outs = []
        for step, o in enumerate(h):
            kind, name = o.split(":", 1)
            if kind == "m" or kind == "a":
                ver[name] += 1
                mapping[name] = ENTRY_TPL[name].format(v=ver[name])
            elif kind == "d":
                mapping.pop(name, None)
            else:
                got = render(env, name, step)
                want = render(JEnv(loader=loader, cache_size=0, auto_reload=True), name, step)
                outs.append(got)
                if got != want and not fail:
                    fail = f"step {step} ({o}): the long-lived environment rendered {got!r}, a fresh one renders {want!r}"
        case = {"probe": "entry", "cache_size": size, "ops": h}
        ctx.case(sample=dict(case, rendered=outs) if len(ctx.samples) < 8 and any(x.startswith("m:") for x in h[:-1]) and hi % 7 == 0 else None,
                 key=("entry", size, tuple(h)) if any(not x.startswith("r:") for x in h[:-1]) else None)
        ctx.count("entry_points")
        if fail:
            # only the nested-import entry may match the recorded finding
            ctx.reject(case, fail, NESTED_SIG if "r:imp2" in fail else None)
        else:
            ctx.validated()
    # a Template object passed as name is returned as it is; join_path decides the cache key; overlay() gets its own cache of the same kind
    for size in (-1, 1, 2, 0):
        mapping = {k: t.format(v=1) for k, t in ENTRY_TPL.items()}
        env = JEnv(loader=jinja2.DictLoader(mapping), cache_size=size, auto_reload=True)
        t = env.get_template("n1")
        problems = []
        if not (env.get_template(t) is t and env.select_template([t, "inc"]) is t and env.get_or_select_template(t) is t):
            problems.append("a Template object passed as name was not returned unchanged")
        a = env.get_template("b", parent="dir/a")
        if a.render() != "dirBv1" or env.select_template(["b"], parent="dir/a").render() != "dirBv1" \
                or env.get_or_select_template("b", "dir/a").render() != "dirBv1":
            problems.append("join_path override ignored by an entry point")
        if size != 0 and a is not env.get_template("dir/b"):
            problems.append("the joined name is not the cache key")
        if env.select_template([jinja2.Undefined(name="u"), "n1"]).render() != "n1v1":
            problems.append("select_template did not skip an undefined name")
        ov = env.overlay(trim_blocks=True)
        if type(ov.cache) is not type(env.cache) or getattr(ov.cache, "capacity", None) != getattr(env.cache, "capacity", None):
            problems.append(f"overlay() cache kind {type(ov.cache).__name__} differs from {type(env.cache).__name__}")
        if ov.cache is not None and (ov.cache is env.cache or len(ov.cache) != 0):
            problems.append("overlay() shares or copies the parent's cache entries")
        ov3 = env.overlay(cache_size=3)
        if getattr(ov3.cache, "capacity", None) != 3:
            problems.append("overlay(cache_size=3) did not create an LRU cache of capacity 3")
        mapping["n1"] = "n1v2"
        if ov.get_template("inc").render() != "[n1v2]" or env.get_template("inc").render() != "[n1v2]":
            problems.append("overlay / parent did not render the current source after a change")
        ctx.case(key=("entry_probe", size))
        ctx.count("entry_probe")
        if problems:
            ctx.reject({"probe": "entry_probe", "cache_size": size}, "; ".join(problems))
        else:
            ctx.validated()


def run_race(ctx, jinja2):
    """a modification that lands BETWEEN the two file accesses of one FileSystemLoader.get_source call (read the contents /
    take the mtime): whatever that request returns, the following requests must render the current source.  The
    interleaving is made deterministic by wrapping, from outside, the `open` the loaders module sees and os.path.getmtime;
    the writer fires right after the first of the two accesses has completed."""
    import jinja2.loaders as L
    d = os.path.join(ctx.bdir, "race")
    for size in (-1, 1, 0):
        shutil.rmtree(d, ignore_errors=True)
        os.makedirs(d)
        path = os.path.join(d, "n1")

        def write(v):
            with open(path, "w") as f:
                f.write(src(1, v))
            os.utime(path, (MT0 + 1000 * v, MT0 + 1000 * v))
        write(1)
        env = jinja2.Environment(loader=jinja2.FileSystemLoader(d), cache_size=size, auto_reload=True)
        armed = [True]

        def fire():
            if armed[0]:
                armed[0] = False
                write(2)
        real_open, real_getmtime = open, os.path.getmtime

        class Proxy:
            def __init__(self, f):
                self._f = f

            def read(self, *a):
                data = self._f.read(*a)
                fire()
                return data

            def __enter__(self):
                self._f.__enter__()
                return self

            def __exit__(self, *a):
                return self._f.__exit__(*a)

        def gm(p):
            r = real_getmtime(p)
            if os.path.realpath(p) == os.path.realpath(path):
                fire()
            return r
        L.open = lambda p, *a, **k: Proxy(real_open(p, *a, **k)) if os.path.realpath(p) == os.path.realpath(path) else real_open(p, *a, **k)
        os.path.getmtime = gm
        try:
            try:
                outs = [env.get_template("n1").render()]
            except Exception as e:  # noqa
                outs = ["X:" + type(e).__name__]
        finally:
            del L.open
            os.path.getmtime = real_getmtime
        for _ in range(2):
            try:
                outs.append(env.get_template("n1").render())
            except Exception as e:  # noqa
                outs.append("X:" + type(e).__name__)
        case = {"probe": "race", "cache_size": size, "rendered": outs}
        ctx.case(sample=case if size == -1 else None, key=("race", size))
        ctx.count("race_inside_get_source")
        if armed[0]:
            ctx.broken.append("race probe: the writer never fired (get_source no longer reads / stats the file through open and os.path.getmtime)")
        elif outs[0] not in ("n1v1", "n1v2") or outs[1:] != ["n1v2", "n1v2"]:
            ctx.reject(case, f"a source change between reading the file and taking its mtime inside one get_source call: the following "
                             f"requests rendered {outs[1:]} (current source 'n1v2'), the racing one {outs[0]!r}",
                       "C25:change-between-read-and-stat-in-get_source")
        else:
            ctx.validated()
    shutil.rmtree(d, ignore_errors=True)


def replay(ctx, data):
    jinja2 = lib.use_repo_jinja()
    case = data.get("case")
    if data.get("kind") != "failing-input" or case is None:
        print("replay: this file names a broken theorem/correspondence, not an input:", data.get("broken"))
        return run(ctx)
    if case.get("probe") in ("entry", "entry_probe"):
        run_entry(ctx, jinja2)
        return
    if case.get("probe") == "race":
        run_race(ctx, jinja2)
        return
    if case.get("probe") == "swap":
        w = swap_probe(jinja2, case["cache_size"], case["auto_reload"])
        print("oracle:", w)
        if w:
            ctx.reject(case, w)
        return
    fsdir = os.path.join(ctx.bdir, "fs")
    os.makedirs(fsdir, exist_ok=True)
    try:
        impl, fail = real_run(jinja2, case["loader"], case["auto_reload"], case["cache_size"], case["ops"], fsdir)
    finally:
        shutil.rmtree(fsdir, ignore_errors=True)
        shutil.rmtree(fsdir + "2", ignore_errors=True)
    m = ctx.driver("tc", [line(case["loader"], case["auto_reload"], case["cache_size"], case["ops"])])[0]
    print("model:", m, "\nimpl :", impl, "\noracle:", fail)
    if fail:
        ctx.reject(case, fail)
