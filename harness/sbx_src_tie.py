"""Translator tie shared by C19 / C17 / C18: gen/sbx_translate.py turns the CURRENT source of the
sandbox decision functions into terms of Lib/PySbx.v; the generated Gen_sbx_src.v proves
`interpreted source term = model function` for every argument (see notes/C17.md)."""
import hashlib
import os
import threading

from . import lib


def _deps_digest():
    """digest of the compiled static theories a generated file depends on (Lib/PySbx, Model/Sbx*, Proofs/Sbx*)"""
    h = hashlib.sha1()
    for d in ("Lib", "Model", "Proofs", "Spec"):
        base = os.path.join(lib.THEORIES, d)
        for f in sorted(os.listdir(base)):
            if f.endswith(".vo") and (f.startswith("Sbx") or f.startswith("PySbx")):
                h.update(f.encode())
                h.update(open(os.path.join(base, f), "rb").read())
    return h.hexdigest()


class _Pending:
    """one regenerated file being compiled by coqc in a worker thread (the thread only waits for the coqc
    subprocess; all bookkeeping on ctx happens in finish(), on the caller's thread, exactly as
    lib.Ctx.coq_obligation does it).  Every obligation is compiled on every run - the thread only lets the
    correspondence streams run meanwhile."""

    def __init__(self, ctx, name, text, n):
        self.ctx, self.name, self.n = ctx, name, n
        self.vfile = os.path.join(ctx.bdir, name + ".v")
        with open(self.vfile, "w") as f:
            f.write(text)
        self.result = None
        self.thread = threading.Thread(target=self._work, daemon=True)
        self.thread.start()

    def _work(self):
        try:
            self.result = self.ctx._coqc(self.vfile, os.path.join(self.ctx.bdir, self.name + ".vo"), 600)
        except BaseException as e:  # noqa: BLE001
            self.result = (1, "", f"coqc could not be run: {e!r}")

    def finish(self):
        self.thread.join()
        ctx, n = self.ctx, self.n
        rc, out, err = self.result
        ctx.obligations += n
        ctx.obligation_names.append(f"{self.name} (regenerated, {n})")
        if rc != 0:
            ctx.broken.append(f"regenerated obligation {self.name} fails: " + (err.strip().splitlines() or ["?"])[-1][:300])
            ctx.extra.setdefault("coq_errors", []).append(err[-2000:])
            return False, out + err
        ctx.discharged += n
        return True, out


def start_obligation(ctx, name, text, n):
    """start compiling a regenerated file; returns finish() -> (ok, coqc output).  With the content-addressed
    memo (a development convenience, OFF unless VERIF_OBLIGATION_CACHE=1; never in the thorough tier): when the
    text is byte-identical to one coqc accepted before, against the same compiled dependencies, the recorded
    acceptance is reused.  A registered check run has coqc accept every regenerated obligation again."""
    key = hashlib.sha1((text + "|" + _deps_digest()).encode()).hexdigest()
    stamp = os.path.join(ctx.bdir, name + ".accepted")
    if os.environ.get("VERIF_OBLIGATION_CACHE") == "1" and ctx.tier != "thorough" and os.path.exists(stamp):
        rec = open(stamp).read().split("\n", 1)
        if rec[0] == key:
            def reused():
                ctx.obligations += n
                ctx.discharged += n
                ctx.obligation_names.append(f"{name} (regenerated, {n}; identical text accepted by coqc earlier, key {key[:12]})")
                ctx.extra.setdefault("obligations_reused", []).append(name)
                return True, rec[1] if len(rec) > 1 else ""
            return reused
    pending = _Pending(ctx, name, text, n)

    def finish():
        ok, out = pending.finish()
        if ok:
            with open(stamp, "w") as f:
                f.write(key + "\n" + out)
        elif os.path.exists(stamp):
            os.unlink(stamp)
        return ok, out
    return finish


def checked_obligation(ctx, name, text, n):
    return start_obligation(ctx, name, text, n)()


def source_equations(ctx, want):
    """compile the equations of the wanted sections; True when they all check"""
    return start_source_equations(ctx, want)()


def start_source_equations(ctx, want):
    """start compiling the equations of the wanted sections; returns finish() -> True when they all check"""
    from gen import sbx_translate
    names = [t for w in want for t in sbx_translate.THEOREMS[w]]
    try:
        text, thms = sbx_translate.emit(lib.SRC, tuple(want))
    except (sbx_translate.Untranslatable, SyntaxError, OSError) as e:
        ctx.obligations += len(names)
        ctx.obligation_names.append(f"Gen_sbx_src (source = model, {len(names)})")
        ctx.broken.append(f"translator gen/sbx_translate.py: sandbox.py left the translatable vocabulary: {e}")
        return lambda: False
    return _finish_equations(ctx, start_obligation(ctx, "Gen_sbx_src", text, len(thms)), thms)


def _finish_equations(ctx, pending, thms):
    def finish():
        ok, out = pending()
        ctx.extra["source_equations"] = thms
        if ok:
            ctx.trusted.append("Gen_sbx_src (source term = model function: " + ", ".join(thms) + "): " + " ".join(sorted(set(out.split("\n")))).strip())
        return ok
    return finish


def source_equations_paths(ctx):
    return start_source_equations_paths(ctx)()


def start_source_equations_paths(ctx):
    """C17: getattr / getitem equations + part 2 (unsafe_undefined, get_field, attrgetter, do_attr,
    _prepare_attribute_parts, Getattr.as_const, Getitem.as_const) in one generated file"""
    from gen import sbx_translate, sbx_translate2
    n = len(sbx_translate2.THEOREMS2) + 4
    try:
        text, thms = sbx_translate2.emit(lib.SRC)
    except (sbx_translate.Untranslatable, SyntaxError, OSError) as e:
        ctx.obligations += n
        ctx.obligation_names.append(f"Gen_sbx_src (source = model, {n})")
        ctx.broken.append(f"translator gen/sbx_translate2.py: the source left the translatable vocabulary: {e}")
        return lambda: False
    return _finish_equations(ctx, start_obligation(ctx, "Gen_sbx_src", text, len(thms)), thms)


def routing_table(ctx):
    return start_routing_table(ctx)()


def start_routing_table(ctx):
    """C17 / C18: regenerated decision table of compiler.visit_Getattr / visit_Getitem / visit_Call"""
    from gen import sbx_route
    try:
        text = sbx_route.emit(lib.SRC)
    except (sbx_route.Untranslatable, SyntaxError, OSError) as e:
        ctx.obligations += 4
        ctx.obligation_names.append("Gen_sbx_route (regenerated, 4)")
        ctx.broken.append(f"translator gen/sbx_route.py: compiler.py visitors left the recognised emission vocabulary: {e}")
        return lambda: False
    pending = start_obligation(ctx, "Gen_sbx_route", text, 4)
    return lambda: pending()[0]
