"""Translator tie shared by C19 / C17 / C18: gen/sbx_translate.py turns the CURRENT source of the
sandbox decision functions into terms of Lib/PySbx.v; the generated Gen_sbx_src.v proves
`interpreted source term = model function` for every argument (see notes/C17.md)."""
import hashlib
import os

from . import lib


def _deps_digest():
    """digest of the compiled static theories a generated file depends on (Lib/PySbx, Model/Sbx*, Proofs/Sbx*)"""
    h = hashlib.sha1()
    for d in ("Lib", "Model", "Proofs", "Spec"):
        base = os.path.join(lib.THEORIES, d)
        for f in sorted(os.listdir(base)):
            if f.endswith(".vo") and (f.startswith("Sbx") or f.startswith("PySbx")):
                h.update(f.encode())
                h.update(open(os.path.join(base, f), "rb").read())
    return h.hexdigest()


def checked_obligation(ctx, name, text, n):
    """ctx.coq_obligation with a content-addressed memo: the text is regenerated from the current source on
    every run; when it is byte-identical to a text coqc accepted before (same compiled dependencies), the recorded
    acceptance is reused instead of running coqc again.  Any change of the source or of the theories changes the
    key and forces a real compile.  The memo is a development convenience and OFF unless VERIF_OBLIGATION_CACHE=1:
    a registered check run has coqc accept every regenerated obligation again."""
    key = hashlib.sha1((text + "|" + _deps_digest()).encode()).hexdigest()
    stamp = os.path.join(ctx.bdir, name + ".accepted")
    if os.environ.get("VERIF_OBLIGATION_CACHE") == "1" and ctx.tier != "thorough" and os.path.exists(stamp):
        rec = open(stamp).read().split("\n", 1)
        if rec[0] == key:
            ctx.obligations += n
            ctx.discharged += n
            ctx.obligation_names.append(f"{name} (regenerated, {n}; identical text accepted by coqc earlier, key {key[:12]})")
            ctx.extra.setdefault("obligations_reused", []).append(name)
            return True, rec[1] if len(rec) > 1 else ""
    ok, out = ctx.coq_obligation(name, text, n_obligations=n)
    if ok:
        with open(stamp, "w") as f:
            f.write(key + "\n" + out)
    elif os.path.exists(stamp):
        os.unlink(stamp)
    return ok, out


def source_equations(ctx, want):
    """compile the equations of the wanted sections; True when they all check"""
    from gen import sbx_translate
    names = [t for w in want for t in sbx_translate.THEOREMS[w]]
    try:
        text, thms = sbx_translate.emit(lib.SRC, tuple(want))
    except (sbx_translate.Untranslatable, SyntaxError, OSError) as e:
        ctx.obligations += len(names)
        ctx.obligation_names.append(f"Gen_sbx_src (source = model, {len(names)})")
        ctx.broken.append(f"translator gen/sbx_translate.py: sandbox.py left the translatable vocabulary: {e}")
        return False
    ok, out = checked_obligation(ctx, "Gen_sbx_src", text, len(thms))
    ctx.extra["source_equations"] = thms
    if ok:
        ctx.trusted.append("Gen_sbx_src (source term = model function: " + ", ".join(thms) + "): " + " ".join(sorted(set(out.split("\n")))).strip())
    return ok


def source_equations_paths(ctx):
    """C17: getattr / getitem equations + part 2 (unsafe_undefined, get_field, attrgetter, do_attr,
    _prepare_attribute_parts, Getattr.as_const, Getitem.as_const) in one generated file"""
    from gen import sbx_translate, sbx_translate2
    n = len(sbx_translate2.THEOREMS2) + 4
    try:
        text, thms = sbx_translate2.emit(lib.SRC)
    except (sbx_translate.Untranslatable, SyntaxError, OSError) as e:
        ctx.obligations += n
        ctx.obligation_names.append(f"Gen_sbx_src (source = model, {n})")
        ctx.broken.append(f"translator gen/sbx_translate2.py: the source left the translatable vocabulary: {e}")
        return False
    ok, out = checked_obligation(ctx, "Gen_sbx_src", text, len(thms))
    ctx.extra["source_equations"] = thms
    if ok:
        ctx.trusted.append("Gen_sbx_src (source term = model function: " + ", ".join(thms) + "): " + " ".join(sorted(set(out.split("\n")))).strip())
    return ok


def routing_table(ctx):
    """C17 / C18: regenerated decision table of compiler.visit_Getattr / visit_Getitem / visit_Call"""
    from gen import sbx_route
    try:
        text = sbx_route.emit(lib.SRC)
    except (sbx_route.Untranslatable, SyntaxError, OSError) as e:
        ctx.obligations += 4
        ctx.obligation_names.append("Gen_sbx_route (regenerated, 4)")
        ctx.broken.append(f"translator gen/sbx_route.py: compiler.py visitors left the recognised emission vocabulary: {e}")
        return False
    ok, _ = checked_obligation(ctx, "Gen_sbx_route", text, 4)
    return ok
