"""Translator tie shared by C19 / C17 / C18: gen/sbx_translate.py turns the CURRENT source of the
sandbox decision functions into terms of Lib/PySbx.v; the generated Gen_sbx_src.v proves
`interpreted source term = model function` for every argument (see notes/C17.md)."""
from . import lib


def source_equations(ctx, want):
    """compile the equations of the wanted sections; True when they all check"""
    from gen import sbx_translate
    names = [t for w in want for t in sbx_translate.THEOREMS[w]]
    try:
        text, thms = sbx_translate.emit(lib.SRC, tuple(want))
    except (sbx_translate.Untranslatable, SyntaxError, OSError) as e:
        ctx.obligations += len(names)
        ctx.obligation_names.append(f"Gen_sbx_src (source = model, {len(names)})")
        ctx.broken.append(f"translator gen/sbx_translate.py: sandbox.py left the translatable vocabulary: {e}")
        return False
    ok, out = ctx.coq_obligation("Gen_sbx_src", text, n_obligations=len(thms))
    ctx.extra["source_equations"] = thms
    if ok:
        ctx.trusted.append("Gen_sbx_src (source term = model function: " + ", ".join(thms) + "): " + " ".join(sorted(set(out.split("\n")))).strip())
    return ok


def source_equations_paths(ctx):
    """C17: getattr / getitem equations + part 2 (unsafe_undefined, get_field, attrgetter, do_attr,
    _prepare_attribute_parts, Getattr.as_const, Getitem.as_const) in one generated file"""
    from gen import sbx_translate, sbx_translate2
    n = len(sbx_translate2.THEOREMS2) + 4
    try:
        text, thms = sbx_translate2.emit(lib.SRC)
    except (sbx_translate.Untranslatable, SyntaxError, OSError) as e:
        ctx.obligations += n
        ctx.obligation_names.append(f"Gen_sbx_src (source = model, {n})")
        ctx.broken.append(f"translator gen/sbx_translate2.py: the source left the translatable vocabulary: {e}")
        return False
    ok, out = ctx.coq_obligation("Gen_sbx_src", text, n_obligations=len(thms))
    ctx.extra["source_equations"] = thms
    if ok:
        ctx.trusted.append("Gen_sbx_src (source term = model function: " + ", ".join(thms) + "): " + " ".join(sorted(set(out.split("\n")))).strip())
    return ok


def routing_table(ctx):
    """C17 / C18: regenerated decision table of compiler.visit_Getattr / visit_Getitem / visit_Call"""
    from gen import sbx_route
    try:
        text = sbx_route.emit(lib.SRC)
    except (sbx_route.Untranslatable, SyntaxError, OSError) as e:
        ctx.obligations += 3
        ctx.obligation_names.append("Gen_sbx_route (regenerated, 3)")
        ctx.broken.append(f"translator gen/sbx_route.py: compiler.py visitors left the recognised emission vocabulary: {e}")
        return False
    ok, _ = ctx.coq_obligation("Gen_sbx_route", text, n_obligations=3)
    return ok
