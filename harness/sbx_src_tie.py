"""Translator tie shared by C19 / C17 / C18: gen/sbx_translate.py turns the CURRENT source of the
sandbox decision functions into terms of Lib/PySbx.v; the generated Gen_sbx_src.v proves
`interpreted source term = model function` for every argument (see notes/C17.md)."""
from . import lib


def source_equations(ctx, want):
    """compile the equations of the wanted sections; True when they all check"""
    from gen import sbx_translate
    names = [t for w in want for t in sbx_translate.THEOREMS[w]]
    try:
        text, thms = sbx_translate.emit(lib.SRC, tuple(want))
    except (sbx_translate.Untranslatable, SyntaxError, OSError) as e:
        ctx.obligations += len(names)
        ctx.obligation_names.append(f"Gen_sbx_src (source = model, {len(names)})")
        ctx.broken.append(f"translator gen/sbx_translate.py: sandbox.py left the translatable vocabulary: {e}")
        return False
    ok, out = ctx.coq_obligation("Gen_sbx_src", text, n_obligations=len(thms))
    ctx.extra["source_equations"] = thms
    if ok:
        ctx.trusted.append("Gen_sbx_src (source term = model function: " + ", ".join(thms) + "): " + " ".join(sorted(set(out.split("\n")))).strip())
    return ok
