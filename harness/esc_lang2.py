"""Template SETS of Model/EscLang2.v on the python side (second round of C15 / C16): generator,
printer, serialiser for build/bin/esc2 and the real engine run.

Additional program shapes (see esc_lang.py for the rest):
  expr ("U",)                         super()
  stmt ("G",x,fid,[args],[body])      {% set x | f(args) %}..{% endset %}
       ("J",tid)                      {% include 't<tid>.<ext>' %}
       ("Y",tid)                      {% from 't<tid>.<ext>' import <all macros of tid> with context %}
       ("K",name,[body])              {% block n<name> %}..{% endblock %}
A set = {"chain": [(tid, body), ...] most derived first, "tt": {tid: body}, "ae": {tid: bool}}.
Template tid is printed under the name t<tid>.html when ae[tid] else t<tid>.txt and the environment
uses select_autoescape(("html",)), so every template has its own static setting.
"""
from __future__ import annotations

from . import esc_lang as L
from .esc_lang import enc, dec, FILTERS, F_DEFAULT, F_REPLACE, F_STRING, F_LOWER, F_UPPER, F_ESCAPE, F_FORCE, F_SAFE

FUEL = 500


def tname(tid, ae):
    return f"t{tid}." + ("html" if ae.get(tid, False) else "txt")


# ------------------------------------------------------------------ serialisation
def ser_e(e, out):
    if e[0] == "U":
        out.append("U")
    elif e[0] == "JN":
        out.append("JN"); ser_e(e[1], out); out.append(str(len(e[2])))
        for a in e[2]:
            ser_e(a, out)
    elif e[0] == "C":
        out.append("C"); ser_e(e[1], out); ser_e(e[2], out)
    elif e[0] == "F":
        out += ["F", str(e[1])]; ser_e(e[2], out); out.append(str(len(e[3])))
        for a in e[3]:
            ser_e(a, out)
    elif e[0] == "Q":
        out.append("Q"); ser_e(e[1], out); ser_e(e[2], out); ser_e(e[3], out)
    elif e[0] == "M":
        out += ["M", str(e[1]), str(len(e[2]))]
        for a in e[2]:
            ser_e(a, out)
    else:
        L.ser_e(e, out)


def ser_body(ss, out):
    out.append(str(len(ss)))
    for s in ss:
        ser_s(s, out)


def ser_s(s, out):
    k = s[0]
    if k == "G":
        out += ["G", str(s[1]), str(s[2]), str(len(s[3]))]
        for a in s[3]:
            ser_e(a, out)
        ser_body(s[4], out)
    elif k == "J":
        out += ["J", str(s[1])]
    elif k == "Y":
        out += ["Y", str(s[1])]
    elif k == "K":
        out += ["K", str(s[1])]; ser_body(s[2], out)
    elif k == "O":
        out.append("O"); ser_e(s[1], out)
    elif k == "I":
        out.append("I"); ser_e(s[1], out); ser_body(s[2], out); ser_body(s[3], out)
    elif k == "R":
        out += ["R", str(s[1]), str(s[2])]; ser_body(s[3], out)
    elif k == "S":
        out += ["S", str(s[1])]; ser_e(s[2], out)
    elif k == "B":
        out += ["B", str(s[1])]; ser_body(s[2], out)
    elif k == "D":
        out += ["D", str(s[1]), str(len(s[2]))] + [str(p) for p in s[2]]; ser_body(s[3], out)
    elif k in ("A", "X"):
        out += [k, str(s[1]), str(len(s[2]))]
        for a in s[2]:
            ser_e(a, out)
        ser_body(s[3], out)
    elif k == "E":
        out += ["E", s[1]]; ser_body(s[2], out)
    else:
        L.ser_s(s, out)


def block_names(ss, acc):
    for s in ss:
        k = s[0]
        if k == "K":
            acc.append(s[1]); block_names(s[2], acc)
        elif k == "I":
            block_names(s[2], acc); block_names(s[3], acc)
        elif k in ("R", "A", "X", "D"):
            block_names(s[3], acc)
        elif k in ("B", "E"):
            block_names(s[2], acc)
        elif k == "G":
            block_names(s[4], acc)
    return acc


def render_line(st, flag, d, dl, fuel=FUEL):
    ae = st["ae"]
    out = ["R2", str(len(ae))]
    for t, b in ae.items():
        out += [str(t), "1" if b else "0"]
    out += ["1" if flag else "0", str(fuel), str(len(dl))]
    for nm, items in dl.items():
        out += [str(nm), str(len(items))] + [enc(x) for x in items]
    out.append(str(len(d)))
    for nm, s in d.items():
        out += [str(nm), enc(s)]
    out.append(str(len(st["tt"])))
    for t, body in st["tt"].items():
        out.append(str(t)); ser_body(body, out)
    out.append(str(len(st["chain"])))
    names = []
    for t, body in st["chain"]:
        out.append(str(t)); ser_body(body, out)
        block_names(body, names)
    names = list(dict.fromkeys(names))
    out += [str(len(names))] + [str(n) for n in names]
    return " ".join(out)


def pred_line(st, tid_ae, body):
    ae = st["ae"]
    out = ["P2", str(len(ae))]
    for t, b in ae.items():
        out += [str(t), "1" if b else "0"]
    out.append("1" if tid_ae else "0")
    ser_body(body, out)
    return " ".join(out)


# ------------------------------------------------------------------ printer
def pr_e(e):
    k = e[0]
    if k == "U":
        return "super()"
    if k == "JN":
        return "([" + ", ".join(pr_e(a) for a in e[2]) + "]|join(" + pr_e(e[1]) + "))"
    if k == "C":
        return f"({pr_e(e[1])} ~ {pr_e(e[2])})"
    if k == "F":
        name = FILTERS[e[1]]
        args = [pr_e(a) for a in e[3]]
        if e[1] == F_DEFAULT:
            args.append("true")
        return f"(({pr_e(e[2])})|{name}" + ("(" + ", ".join(args) + ")" if args else "") + ")"
    if k == "Q":
        return f"({pr_e(e[2])} if {pr_e(e[1])} else {pr_e(e[3])})"
    if k == "M":
        return f"n{e[1]}(" + ", ".join(pr_e(a) for a in e[2]) + ")"
    return L.pr_e(e)


def pr_body(ss, st):
    return "".join(pr_s(s, st) for s in ss)


def macro_names(body):
    return [s[1] for s in body if s[0] == "D"]


def pr_s(s, st):
    k = s[0]
    ae = st["ae"]
    if k == "G":
        name = FILTERS[s[2]]
        args = [pr_e(a) for a in s[3]]
        if s[2] == F_DEFAULT:
            args.append("true")
        return ("{% set n" + str(s[1]) + " | " + name + ("(" + ", ".join(args) + ")" if args else "") + " %}"
                + pr_body(s[4], st) + "{% endset %}")
    if k == "J":
        return "{% include '" + tname(s[1], ae) + "' %}"
    if k == "Y":
        ms = macro_names(st["tt"][s[1]])
        return "{% from '" + tname(s[1], ae) + "' import " + ", ".join(f"n{m}" for m in ms) + " with context %}"
    if k == "K":
        # every other block is `scoped` (rendered with a derived context; same meaning in the model)
        return "{% block n" + str(s[1]) + (" scoped" if s[1] % 2 else "") + " %}" + pr_body(s[2], st) + "{% endblock %}"
    if k == "O":
        return "{{ " + pr_e(s[1]) + " }}"
    if k == "I":
        return "{% if " + pr_e(s[1]) + " %}" + pr_body(s[2], st) + "{% else %}" + pr_body(s[3], st) + "{% endif %}"
    if k == "R":
        return "{% for n" + str(s[1]) + " in n" + str(s[2]) + " %}" + pr_body(s[3], st) + "{% endfor %}"
    if k == "S":
        return "{% set n" + str(s[1]) + " = " + pr_e(s[2]) + " %}"
    if k == "B":
        return "{% set n" + str(s[1]) + " %}" + pr_body(s[2], st) + "{% endset %}"
    if k == "D":
        return ("{% macro n" + str(s[1]) + "(" + ", ".join(f"n{p}" for p in s[2]) + ") %}" + pr_body(s[3], st)
                + "{% endmacro %}")
    if k == "A":
        return ("{% call n" + str(s[1]) + "(" + ", ".join(pr_e(a) for a in s[2]) + ") %}" + pr_body(s[3], st)
                + "{% endcall %}")
    if k == "X":
        name = FILTERS[s[1]]
        args = [pr_e(a) for a in s[2]]
        if s[1] == F_DEFAULT:
            args.append("true")
        return ("{% filter " + name + ("(" + ", ".join(args) + ")" if args else "") + " %}" + pr_body(s[3], st)
                + "{% endfilter %}")
    if k == "E":
        a = {"0": "false", "1": "true", "f": L.FLAG_NAME}[s[1]]
        return "{% autoescape " + a + " %}" + pr_body(s[2], st) + "{% endautoescape %}"
    return L.pr_s(s)


def sources(st):
    """dict template name -> source, name of the main template"""
    ae = st["ae"]
    out = {}
    for t, body in st["tt"].items():
        out[tname(t, ae)] = pr_body(body, st)
    chain = st["chain"]
    for i, (t, body) in enumerate(chain):
        src = pr_body(body, st)
        if i + 1 < len(chain):
            src = "{% extends '" + tname(chain[i + 1][0], ae) + "' %}" + src
        out[tname(t, ae)] = src
    return out, tname(chain[0][0], ae)


def make_env(jinja2, st, **kw):
    srcs, main = sources(st)
    return jinja2.Environment(loader=jinja2.DictLoader(srcs), autoescape=jinja2.select_autoescape(("html",)), **kw), main


def render_with(env, main, flag, d, dl, how="render"):
    ctx = {f"n{k}": v for k, v in d.items()}
    ctx.update({f"n{k}": list(v) for k, v in dl.items()})
    ctx[L.FLAG_NAME] = flag
    try:
        t = env.get_template(main)
        if how == "generate":
            return "".join(t.generate(ctx))
        if how == "async":
            import asyncio
            return asyncio.run(t.render_async(ctx))
        return t.render(ctx)
    except Exception:
        return None


def real_render(jinja2, st, flag, d, dl):
    srcs, main = sources(st)
    ctx = {f"n{k}": v for k, v in d.items()}
    ctx.update({f"n{k}": list(v) for k, v in dl.items()})
    ctx[L.FLAG_NAME] = flag
    try:
        env = jinja2.Environment(loader=jinja2.DictLoader(srcs), autoescape=jinja2.select_autoescape(("html",)))
        return env.get_template(main).render(ctx)
    except Exception:
        return None


# ------------------------------------------------------------------ generator
def sanitize(ss, in_macro=False):
    """inside macro / call-block bodies (where the model has no block stack): no super(), no block tags"""
    def fe(e):
        k = e[0]
        if k == "U":
            return ("L", "s") if in_macro else e
        if k == "JN":
            return ("JN", fe(e[1]), [fe(a) for a in e[2]])
        if k == "C":
            return ("C", fe(e[1]), fe(e[2]))
        if k == "F":
            return ("F", e[1], fe(e[2]), [fe(a) for a in e[3]])
        if k == "Q":
            return ("Q", fe(e[1]), fe(e[2]), fe(e[3]))
        if k == "M":
            return ("M", e[1], [fe(a) for a in e[2]])
        return e
    out = []
    for s in ss:
        k = s[0]
        if k == "O":
            out.append(("O", fe(s[1])))
        elif k == "I":
            out.append(("I", fe(s[1]), sanitize(s[2], in_macro), sanitize(s[3], in_macro)))
        elif k == "R":
            out.append(("R", s[1], s[2], sanitize(s[3], in_macro)))
        elif k == "S":
            out.append(("S", s[1], fe(s[2])))
        elif k == "B":
            out.append(("B", s[1], sanitize(s[2], in_macro)))
        elif k == "G":
            out.append(("G", s[1], s[2], [fe(a) for a in s[3]], sanitize(s[4], in_macro)))
        elif k == "D":
            out.append(("D", s[1], s[2], sanitize(s[3], True)))
        elif k == "A":
            out.append(("A", s[1], [fe(a) for a in s[2]], sanitize(s[3], True)))
        elif k == "X":
            out.append(("X", s[1], [fe(a) for a in s[2]], sanitize(s[3], in_macro)))
        elif k == "E":
            out.append(("E", s[1], sanitize(s[2], in_macro)))
        elif k == "K":
            if in_macro:
                out.append(("I", ("L", "y"), sanitize(s[2], True), []))
            else:
                out.append(("K", s[1], sanitize(s[2], False)))
        else:
            out.append(s)
    return out


class SGen(L.LGen):
    """LGen + set blocks with a filter, includes, imports, blocks / super()."""

    def __init__(self, rng, **kw):
        super().__init__(rng, **kw)
        self.tt = {}
        self.tpl_ae = {}
        self.next_tid = 10
        self.in_block = False
        self.block_ok = True
        self.has_super = False
        self.blocks = []
        self.ae_choice = lambda: self.r.random() < 0.6

    def expr(self, sc, d=2):
        if self.in_block and self.has_super and self.r.random() < 0.15:
            self.count("super")
            return ("U",)
        if d > 0 and self.r.random() < 0.12:
            # join over a heterogeneous list: plain data, literals, set-block variables, macro results in any order
            self.count("join")
            return ("JN", self.frag(sc) if self.r.random() < 0.55 else ("L", self.r.choice([", ", "", "-", "<br>", "&"])),
                    [self.frag(sc) if self.r.random() < 0.5 else self.expr(sc, d - 1) for _ in range(self.r.randint(0, 4))])
        return super().expr(sc, d)

    def frag(self, sc):
        """an expression that is likely a rendered FRAGMENT (Markup under autoescape): a macro result or a local
        variable (set-block / set targets, loop variables and parameters have names > 100), else any variable"""
        vs, ms, hc = sc
        cands = [m for m in ms if not m[2]]
        if cands and self.r.random() < 0.5:
            m = self.r.choice(cands)
            return ("M", m[0], [self.expr(sc, 0) for _ in range(m[1])])
        loc = [v for v in vs if v > 100]
        if loc:
            return ("V", self.r.choice(loc))
        return self.expr(sc, 0)

    def sub_template(self, macros_only=False):
        tid = self.next_tid
        self.next_tid += 1
        self.tpl_ae[tid] = self.ae_choice()
        # a library's macros run with the library MODULE's context; an autoescape block inside such a macro would
        # change that shared context's flag for re-entrant calls through caller() (the model uses the library's
        # static setting): libraries contain no autoescape blocks
        g = L.LGen(self.r, neutral=self.neutral, safe_ok=self.safe_ok, text=self.text_pools,
                   ae="" if macros_only else self.ae, depth=1, marker=self.marker)
        g.fresh = 1000 + 100 * tid
        if macros_only:
            body = []
            for _ in range(self.r.randint(1, 2)):
                m = g.new()
                ps = [g.new() for _ in range(self.r.randint(0, 2))]
                uses_caller = self.r.random() < 0.3
                b, _, _ = g.body((list(self.data_names) + ps, [], uses_caller), 1, 2)
                if uses_caller:
                    b.append(("O", ("K",)))
                body.append(("D", m, ps, b))
        else:
            body, _, _ = g.body((list(self.data_names), [], False), 1, self.r.randint(1, 3))
        self.tt[tid] = body
        return tid, body

    def stmt(self, sc, d):
        r = self.r
        vs, ms, hc = sc
        k = r.random()
        if d > 0 and k < 0.07:
            x = self.new()
            fs = [F_STRING, F_LOWER, F_DEFAULT] if self.neutral else [F_STRING, F_LOWER, F_UPPER, F_ESCAPE, F_FORCE, F_DEFAULT, F_REPLACE]
            f = r.choice(fs)
            self.count("setblock_filter:" + FILTERS[f])
            nargs = {F_DEFAULT: 1, F_REPLACE: 2}.get(f, 0)
            args = [self.expr(sc, 1) for _ in range(nargs)]
            if f == F_DEFAULT:
                # the model has no Undefined OBJECT (an undefined name is the empty plain string): since a9b4b34 a filtered
                # set block escapes only str results, so `default(<undefined name>)` would leave an Undefined, which the
                # model cannot tell from "" (-> Markup("")).  Keep the default value a string: (e ~ "")
                args = [("C", args[0], ("L", ""))]
            b, _, _ = self.body(sc, d - 1, 2)
            return ("G", x, f, args, b), vs + [x], ms
        if d > 0 and k < 0.13:
            tid, _ = self.sub_template()
            self.count("include")
            return ("J", tid), vs, ms
        if d > 0 and k < 0.19:
            tid, body = self.sub_template(macros_only=True)
            self.count("import")
            new = [(s[1], len(s[2]), s[3][-1] == ("O", ("K",))) for s in body]
            return ("Y", tid), vs, ms + new
        if d > 0 and k < 0.27 and self.block_ok and not self.in_block:
            nm = self.new()
            self.count("block")
            self.in_block = True
            b, _, _ = self.body((list(self.data_names), [], False), d - 1, 2)
            self.in_block = False
            self.blocks.append(nm)
            return ("K", nm, b), vs, ms
        return L.LGen.stmt(self, sc, d)


def gen_set(rng, *, neutral=False, safe_ok=False, text=("safe",), ae_ops="f", marker=None, all_on=False, extends=None):
    """-> (set, data, lists, generator)"""
    g = SGen(rng, neutral=neutral, safe_ok=safe_ok, text=text, ae=ae_ops, depth=3, marker=marker)
    if all_on:
        g.ae_choice = lambda: True
    ext = rng.random() < 0.4 if extends is None else extends
    main_tid, base_tid = 1, 2
    g.tpl_ae[main_tid] = True if all_on else rng.random() < 0.6
    sc = (list(g.data_names), [], False)
    if not ext:
        body, _, _ = g.body(sc, 3, rng.randint(2, 5))
        chain = [(main_tid, sanitize(body))]
    else:
        g.tpl_ae[base_tid] = True if all_on else rng.random() < 0.6
        base, _, _ = g.body(sc, 3, rng.randint(2, 4))
        base = sanitize(base)
        names = block_names(base, [])
        if not names:
            nm = g.new()
            g.in_block = True
            b, _, _ = g.body(sc, 1, 2)
            g.in_block = False
            base.append(("K", nm, sanitize(b)))
            names = [nm]
        child = []
        g.block_ok = False
        g.has_super = True
        for nm in names:
            if rng.random() < 0.7:
                g.in_block = True
                b, _, _ = g.body(sc, 2, 2)
                if rng.random() < 0.5:
                    b.append(("O", ("U",)))
                g.in_block = False
                child.append(("K", nm, sanitize(b)))
        g.has_super = False
        chain = [(main_tid, child), (base_tid, base)]
    d, dl = g.data()
    tt = {t: sanitize(b) for t, b in g.tt.items()}
    return {"chain": chain, "tt": tt, "ae": dict(g.tpl_ae)}, d, dl, g


def retuple(x):
    """JSON round trip turns the tuples of programs into lists: restore them"""
    def t(v):
        if isinstance(v, list) and v and isinstance(v[0], str) and len(v[0]) == 1 and v[0].isupper():
            return tuple(t(y) for y in v)
        if isinstance(v, list):
            return [t(y) for y in v]
        return v
    return {"chain": [(c[0], t(c[1])) for c in x["chain"]], "tt": {k: t(v) for k, v in x["tt"].items()}, "ae": x["ae"]}
