"""C36 — async rendering always closes the generators it opens.

proof:  Properties/C36.v (all_guarded_closes for every tree, operation and k; the live generators
        are the path to the current item; up-going exceptions ignore re-yield guards; witness that
        the guards are needed)
T    :  gen/gens_sites.py extracts every engine-owned async-generator creation site from the REAL
        generated Python of every generated template (and from environment.py / runtime.py) and
        classifies it (sub / side / collect, guarded or not) -> obligation sites_ok (vm_compute).
K    :  the real engine under sys.set_asyncgen_hooks: every engine generator is registered when
        first iterated, with the site that consumes it (looked up by the consumer frame's line).
        For every k: data raises at the k-th call, the task is cancelled at the k-th await, the
        consumer stops after k chunks.  At that moment the live configuration (path of frames
        with link guards and suspended loop-filter children) is read off the registry and given to
        the extracted model (Gens.leak_up / leak_down); its prediction is compared with the
        number of generators really left open when the task has ended.
O    :  no engine generator is open at task end, no warning, no finalizer-hook call.
"""
import asyncio
import gc
import os
import sys
import warnings

from . import lib

sys.path.insert(0, os.path.join(lib.ROOT, "gen"))
import gens_sites as TS  # noqa: E402

RULE = ("template sets are random compositions of text, sync data calls (fault points), async data calls (await points), "
        "filtered / plain / extended / recursive for-loops, includes, blocks with super() and self.block(), extends, "
        "macros, call blocks and imports, in async mode; each set is run clean to count chunks C, data calls P, awaits "
        "A, then once per k<=P with the k-th call raising (render_async and generate_async), once per k<=A with the "
        "task cancelled at the k-th await, once per k<=C with the consumer closing generate_async after k chunks; a "
        "case = (template set, operation, k); distinct non-trivial = at the interruption at least 3 engine generators "
        "were live, or one of them was a loop-filter generator")


class Boom(Exception):
    pass


# --------------------------------------------------------------------------- template generator
class G36:
    def __init__(self, rng, filter_gens=False):
        self.r = rng
        self.aux = {}
        self.n = 0
        self.filter_gens = filter_gens      # also loops over the async generators the map / select / reject filters return

    def atom(self):
        return self.r.choice(["T", "{{ f() }}", "{{ af() }}", "{{ f() }}{{ af() }}", "u", "{{ x|default('') }}"])

    def loopctl(self):
        """a loop control statement for the end of a loop body (sometimes): the loop is left / shortened without an exception"""
        k = self.r.random()
        if k < 0.7:
            return ""
        if k < 0.85:
            return "{% if x %}{% break %}{% endif %}"
        return "{% if not x %}{% continue %}{% endif %}" + self.atom()

    def body(self, d, top=False):
        r = self.r
        out = ""
        for _ in range(r.randint(1, 3)):
            k = r.random()
            if d <= 0 or k < 0.3:
                out += self.atom()
            elif k < 0.5:
                test = r.choice(["x", "x and f()", "x and af()", "x is odd", "f() and x"])
                ext = r.choice(["", "{{ loop.index }}", "{{ loop.length }}"])
                out += "{% for x in xs if " + test + " %}" + ext + self.body(d - 1) + self.loopctl() + "{% endfor %}"
            elif k < 0.53:
                out += "{% for x in xs %}" + self.body(d - 1) + self.loopctl() + "{% endfor %}"
            elif k < 0.56:
                # other iterable kinds: an async iterable object, a tuple; with and without a loop filter
                out += "{% for x in " + r.choice(["axs", "txs"]) + r.choice(["", " if x", " if x and af()"]) + " %}" \
                    + r.choice(["", "{{ loop.last }}"]) + self.body(d - 1) + self.loopctl() + "{% endfor %}"
            elif k < 0.62 and self.filter_gens:
                flt = r.choice(["select('odd')", "reject('odd')", "map('string')", "select", "map('abs')|select('odd')"])
                ext = r.choice(["", "{{ loop.index }}"])
                out += "{% for x in xs|" + flt + " %}" + ext + self.body(d - 1) + self.loopctl() + "{% endfor %}"
            elif k < 0.64:
                out += ("{% for n in tree if n.v recursive %}{{ n.v }}" + self.atom() + "{% if n.c %}{{ loop(n.c) }}{% endif %}"
                        + "{% endfor %}")
            elif k < 0.78:
                self.n += 1
                name = f"inc{self.n}.html"
                self.aux[name] = self.body(d - 1)
                out += r.choice(["{% include '" + name + "' %}", "{% include '" + name + "' %}", "{% include '" + name + "' without context %}",
                                 "{% include ['nope.html', '" + name + "'] ignore missing %}", "{% include 'nope.html' ignore missing %}"])
            elif k < 0.86:
                self.n += 1
                m = f"m{self.n}"
                out += "{% macro " + m + "() %}" + self.body(d - 1) + "{{ caller() if caller else '' }}{% endmacro %}"
                out += r.choice(["{{ " + m + "() }}", "{% call " + m + "() %}" + self.body(d - 1) + "{% endcall %}"])
            elif k < 0.92:
                self.n += 1
                name = f"lib{self.n}.html"
                self.aux[name] = "{% macro lm() %}" + self.body(d - 1) + "{% endmacro %}"
                out += "{% import '" + name + "' as L" + str(self.n) + r.choice(["", " with context"]) + " %}{{ L" + str(self.n) + ".lm() }}"
            else:
                out += "{% if f() %}" + self.body(d - 1) + "{% endif %}"
        return out

    def template_set(self):
        r = self.r
        self.aux = {}
        self.n = 0
        if r.random() < 0.45:
            nb = r.randint(1, 2)
            base = self.body(1)
            for i in range(nb):
                inner = ""
                if r.random() < 0.45:
                    # a block nested in a block (sometimes scoped, inside a loop)
                    inner = r.choice(["{% block n" + str(i) + " %}" + self.body(1) + "{% endblock %}",
                                      "{% for x in xs %}{% block n" + str(i) + " scoped %}{{ x }}" + self.atom() + "{% endblock %}{% endfor %}"])
                base += "{% block b" + str(i) + " %}" + self.body(1) + inner + self.atom() + "{% endblock %}" + self.atom()
            if r.random() < 0.5:
                base += "{{ self.b0() }}"
            self.aux["base.html"] = base
            parent = "base.html"
            if r.random() < 0.4:
                # a middle template: the chain child -> mid -> base
                self.aux["mid.html"] = "{% extends 'base.html' %}{% block b0 %}" + self.body(1) + "{{ super() }}{% endblock %}"
                parent = "mid.html"
            # how the parent is named: known at compile time, a dynamic name, or decided at run time inside an
            # {% if %} (the code generator then emits the delegation to the parent under `if parent_template is not None`)
            form = r.choice(["known", "known", "dynamic", "cond", "cond_else", "cond_false"])
            if form == "known":
                main = "{% extends '" + parent + "' %}"
            elif form == "dynamic":
                main = "{% set layout = '" + parent + "' %}{% extends layout %}"
            elif form == "cond":
                main = "{% if f() %}{% extends '" + parent + "' %}{% endif %}"
            elif form == "cond_else":
                main = "{% if xs[1] %}{% extends 'base.html' %}{% else %}{% extends '" + parent + "' %}{% endif %}"
            else:
                main = "{% if xs[1] %}{% extends '" + parent + "' %}{% endif %}" + self.atom()
            for i in range(nb):
                if r.random() < 0.8:
                    sup = r.choice(["", "{{ super() }}"]) if form != "cond_false" else ""      # no parent, no super()
                    main += "{% block b" + str(i) + " %}" + self.body(2) + sup + "{% endblock %}"
        else:
            main = self.body(3, top=True)
            if r.random() < 0.4:
                main += "{% block q %}" + self.body(2) + "{% endblock %}{{ self.q() }}"
        ts = dict(self.aux)
        ts["main.html"] = main
        return ts


FIXED = [
    # the loop-filter defect repaired by /repo ba9ba11, alone and under include / extends / recursive
    {"main.html": "a{% for x in xs if x %}[{{ x }}{{ f() }}{{ af() }}]{% include 'i.html' %}{% endfor %}z", "i.html": "I{{ f() }}"},
    {"main.html": "{% extends 'base.html' %}{% block b0 %}{% for x in xs if x and af() %}{{ loop.index }}{{ f() }}{% endfor %}{{ super() }}{% endblock %}",
     "base.html": "B{% block b0 %}{{ f() }}{% endblock %}{{ self.b0() }}E"},
    # extends decided at run time, three levels, blocks with super(): the consumer stops while the parent streams
    {"main.html": "{% if f() %}{% extends 'mid.html' %}{% endif %}{% block b %}c1{{ af() }}c2{% endblock %}",
     "mid.html": "{% extends 'base.html' %}{% block a %}m1{{ super() }}m2{% endblock %}",
     "base.html": "B1{% block a %}ba{% endblock %}B2{% block b %}bb1{{ f() }}bb2{% endblock %}B3"},
    # loops left by break / shortened by continue: filtered, extended, nested, and recursive with a filter
    {"main.html": "{% for x in xs if x %}[{{ x }}{{ f() }}{% if x == 2 %}{% break %}{% endif %}{{ af() }}]{% endfor %}"
                  "{% for x in xs if x is odd %}{{ loop.index }}{% continue %}{{ f() }}{% endfor %}"
                  "{% for y in xs %}{% for x in xs if x %}{{ x }}{% break %}{% endfor %}{{ f() }}{% endfor %}z"},
    # a block nested in a block, overridden in the child: the consumer stops inside the nested block
    {"main.html": "{% extends 'base.html' %}{% block n0 %}N1{{ af() }}N2{{ f() }}N3{% endblock %}",
     "base.html": "B1{% block b0 %}o1{% block n0 %}i{% endblock %}o2{{ f() }}{% endblock %}B2"},
    # generators made by filters, as loop iterable and under |first (known findings C36-F2 / C36-F3)
    {"main.html": "{% for x in xs|select('odd') %}{{ af() }}{{ x }}{{ f() }}{% endfor %}|{% for x in xs|map('string') %}{{ loop.index }}{{ af() }}{% endfor %}"},
    {"main.html": "a{{ xs|select('odd')|first }}b{{ f() }}"},
    {"main.html": "{% for n in tree if n.v recursive %}{{ n.v }}{{ f() }}{% if n.c %}{{ loop(n.c) }}{% endif %}{% endfor %}"
                  "{% macro m() %}{% for x in xs if x %}{{ af() }}{{ caller() }}{% endfor %}{% endmacro %}{% call m() %}c{{ f() }}{% endcall %}"},
]


# --------------------------------------------------------------------------- run-time tracking
class World:
    def __init__(self, tracker, raise_at=None, cancel_at=None):
        self.p = 0
        self.a = 0
        self.raise_at = raise_at
        self.cancel_at = cancel_at
        self.tracker = tracker
        self.config = None

    def data(self):
        w = self

        def f():
            w.p += 1
            if w.p == w.raise_at:
                w.config = w.tracker.live_config()
                raise Boom("injected")
            return "F"

        async def af():
            w.a += 1
            if w.a == w.cancel_at:
                w.config = w.tracker.live_config()
                asyncio.current_task().cancel()
                await asyncio.sleep(0)
            return "A"

        class Node:
            def __init__(self, v, c=()):
                self.v = v
                self.c = list(c)

        class AIt:
            def __init__(self, items):
                self.items = list(items)

            def __aiter__(self):
                return AItIter(self.items)          # a fresh iterator per loop (nested loops over the same object)

        class AItIter:
            def __init__(self, items):
                self.items, self.i = items, 0

            def __aiter__(self):
                return self

            async def __anext__(self):
                if self.i >= len(self.items):
                    raise StopAsyncIteration
                self.i += 1
                return self.items[self.i - 1]

        return {"f": f, "af": af, "axs": AIt([1, 0, 2]), "txs": (2, 0, 1), "xs": [1, 0, 2, 3], "tree": [Node("p", [Node("q"), Node("")]), Node("r")]}


_RT_SITES = {}
_ENVS = {}
_CURRENT = {}
ENV_KIND = ["e"]       # e: Environment, s: SandboxedEnvironment, n: NativeEnvironment


class Tracker:
    """registry of engine-owned async generators, filled by the asyncgen firstiter hook"""

    def __init__(self, env, templates, src_dir):
        self.env = env
        self.templates = templates
        self.src_dir = os.path.realpath(src_dir)
        self.sites = {}          # file key -> list of sites
        self.entries = []
        self.finalized = 0
        self.other = 0
        for fn in ("environment.py", "runtime.py", "nativetypes.py"):
            path = os.path.join(self.src_dir, fn)
            if path not in _RT_SITES:
                _RT_SITES[path] = TS.scan(open(path).read(), fn)
            self.sites[path] = _RT_SITES[path]

    def sites_of_template(self, name):
        if name not in self.sites:
            src = self.env.compile(self.templates[name], name, name, raw=True)
            self.sites[name] = TS.scan(src, name)
        return self.sites[name]

    def all_template_sites(self):
        out = []
        for name in self.templates:
            out += self.sites_of_template(name)
        return out

    def _key(self, code):
        fn = code.co_filename
        if fn in self.templates:
            self.sites_of_template(fn)
            return fn
        if os.path.isabs(fn):
            fn = os.path.realpath(fn)
            if fn in self.sites:
                return fn
        return None

    def firstiter(self, g):
        code = g.ag_code
        key = self._key(code)
        fn = os.path.realpath(code.co_filename) if os.path.isabs(code.co_filename) else code.co_filename
        if fn == os.path.join(self.src_dir, "filters.py"):
            # an async generator made by a filter (map / select / reject family): element-yielding, never closed by its
            # consumer (auto_aiter / AsyncLoopContext / do_first): an unguarded side child of the frame that consumes it
            f = sys._getframe(1)
            owner = None
            while f is not None:
                if self._key(f.f_code) in self.templates:
                    owner = f
                    break
                f = f.f_back
            self.entries.append({"gen": g, "kind": "side", "guarded": False, "owner": owner, "name": "filter:" + code.co_name,
                                 "how": "filter generator"})
            return
        if key is None or (key not in self.templates and code.co_name != "generate_async"):
            self.other += 1          # a data generator: outside the claim
            return
        f = sys._getframe(1)
        site, owner = None, None
        while f is not None:
            k = self._key(f.f_code)
            if k is not None:
                for s in self.sites[k]:
                    if s["lo"] <= f.f_lineno <= s["hi"] and s["func"] == f.f_code.co_name:
                        site, owner = s, f
                        break
                if site is not None or k in self.templates:
                    owner = owner or f
                    break
            f = f.f_back
        if site is None:
            kind, guarded = ("top", True) if code.co_name == "generate_async" else ("sub", False)
            how = "top" if kind == "top" else "no site found for the consumer"
        else:
            kind, guarded, how = site["kind"], site["guarded"], site["how"]
        self.entries.append({"gen": g, "kind": kind, "guarded": guarded, "owner": owner, "name": code.co_name, "how": how})

    def finalizer(self, g):
        self.finalized += 1

    def live(self):
        return [e for e in self.entries if e["gen"].ag_frame is not None]

    def live_config(self):
        """frames root first: [link guard, [side guards]]"""
        live = self.live()
        frames = []
        for e in live:
            if e["kind"] != "side":
                frames.append({"e": e, "link": e["guarded"] or e["kind"] in ("collect", "top"), "sides": []})
        extra = []
        for e in live:
            if e["kind"] == "side":
                tgt = None
                for fr in frames:
                    if fr["e"]["gen"].ag_frame is e["owner"]:
                        tgt = fr
                if tgt is None:
                    tgt = {"e": None, "link": True, "sides": []}
                    extra.append(tgt)
                tgt["sides"].append(e["guarded"])
        frames += extra
        return {"frames": [(fr["link"], fr["sides"]) for fr in frames], "names": [e["name"] + "/" + e["kind"] for e in live]}


def cfg_line(direction, cfg):
    return direction + " " + " ".join(("1" if l else "0") + ":" + "".join("1" if s else "0" for s in sd) for l, sd in cfg["frames"])


def run_op(jinja2, loop, templates, src_dir, op, k, entry):
    """-> dict(result, chunks, p, a, config, leaked names, warnings, finalized)"""
    key = id(templates)
    if key not in _ENVS:
        _ENVS.clear()
        from jinja2.nativetypes import NativeEnvironment
        from jinja2.sandbox import SandboxedEnvironment
        ecls = {"s": SandboxedEnvironment, "n": NativeEnvironment}.get(ENV_KIND[0], jinja2.Environment)
        env = ecls(extensions=["jinja2.ext.loopcontrols"], loader=jinja2.FunctionLoader(lambda n: (templates[n], n, lambda: True) if n in templates else None), enable_async=True)
        _ENVS[key] = (env, Tracker(env, templates, src_dir), templates)
    env, tr0, _keepalive = _ENVS[key]
    tr = Tracker(env, templates, src_dir)
    tr.sites = tr0.sites          # generated-code sites are computed once per template set
    w = World(tr, raise_at=k if op == "raise" else None, cancel_at=k if op == "cancel" else None)
    data = w.data()
    # the data callables are also environment globals (templates imported / included without context call them):
    # stable wrappers that delegate to this run's callables
    _CURRENT.update(f=data["f"], af=data["af"])
    if "f" not in env.globals:
        async def g_af():
            return await _CURRENT["af"]()
        env.globals.update(f=lambda: _CURRENT["f"](), af=g_af, xs=data["xs"])
    state = {"chunks": 0}

    async def main():
        old = sys.get_asyncgen_hooks()
        sys.set_asyncgen_hooks(firstiter=tr.firstiter, finalizer=tr.finalizer)
        try:
            t = env.get_template("main.html")
            if entry == "render_async":
                out = await t.render_async(**data)
                state["chunks"] = 1
                return out
            ag = t.generate_async(**data)
            out = []
            try:
                async for c in ag:
                    out.append(c)
                    state["chunks"] += 1
                    if op == "stop" and state["chunks"] == k:
                        w.config = tr.live_config()
                        break
            finally:
                await ag.aclose()
            return "".join(out)
        finally:
            sys.set_asyncgen_hooks(*old)

    with warnings.catch_warnings(record=True) as wlist:
        warnings.simplefilter("always")
        task = loop.create_task(main())
        try:
            res = ("ok", loop.run_until_complete(task))
        except Boom:
            res = ("boom", None)
        except asyncio.CancelledError:
            res = ("cancelled", None)
        except Exception as e:  # a template that fails by itself
            res = ("error", type(e).__name__)
        leaked = tr.live()
        names = [e["name"] + "/" + e["kind"] + ("" if e["guarded"] else "/unguarded") for e in leaked]
        for e in leaked:          # tidy up so that nothing is finalised later
            try:
                loop.run_until_complete(e["gen"].aclose())
            except BaseException:  # noqa
                pass
        n_entries = len(tr.entries)
        tr.entries.clear()
        gc.collect()
        msgs = [str(x.message) for x in wlist if "never awaited" in str(x.message) or "asynchronous generator" in str(x.message)
                or "was destroyed" in str(x.message)]
    return {"res": res, "chunks": state["chunks"], "p": w.p, "a": w.a, "config": w.config, "leaked": names, "warnings": msgs,
            "finalized": tr.finalized, "opened": n_entries, "sites": tr.all_template_sites(), "other": tr.other}


OBLIGATION = '''
(* every engine-owned async-generator creation site found in the generated Python of this run's
   templates and in environment.py / runtime.py is guarded or an async comprehension *)
Lemma sites_guarded : sites_ok sites = true.
Proof. vm_compute. reflexivity. Qed.
Lemma runtime_sites_guarded : sites_ok runtime_sites = true /\\ Nat.leb 5 (length runtime_sites) = true.
Proof. vm_compute. split; reflexivity. Qed.
'''


def run(ctx):
    jinja2 = lib.use_repo_jinja()
    ctx.extra["rule"] = RULE
    ctx.assumptions += [
        "CPython async generator semantics as modelled: a frame left by an exception is finished; aclose() throws "
        "GeneratorExit at the suspension point; an async comprehension has no body in which the consumer could fail",
        "generators created by filters (map / select / reject family) are tracked as unguarded element-yielding children: "
        "their leaks are predicted by the model and reported as known findings; generators provided by data are outside the claim",
        "the event loop, GC-driven finalisation and the warnings machinery are runtime (observed, not modelled)",
    ]
    ctx.proof("C36")
    src_dir = os.path.join(lib.SRC, "jinja2")
    loop = asyncio.new_event_loop()
    all_sites = {}
    pending = []
    n_sets = ctx.size(130, 700)
    try:
        for ti in range(n_sets):
            ts = FIXED[ti] if ti < len(FIXED) else G36(ctx.rng, filter_gens=(ti % 4 == 3)).template_set()
            ENV_KIND[0] = "esenee"[ti % 6]
            ctx.count("env_" + ENV_KIND[0])
            clean = run_op(jinja2, loop, ts, src_dir, "complete", 0, "generate_async")
            for s in clean["sites"]:
                all_sites[(ts["main.html"], s["file"], s["line"], s["text"])] = s
            ctx.count("clean_" + clean["res"][0])
            judge(ctx, ts, "complete", 0, "generate_async", clean, pending)
            if clean["res"][0] != "ok":
                continue
            ops = [("raise", k, "render_async" if k % 2 else "generate_async") for k in range(1, clean["p"] + 1)]
            ops += [("cancel", k, "generate_async" if k % 2 else "render_async") for k in range(1, clean["a"] + 1)]
            ops += [("stop", k, "generate_async") for k in range(1, clean["chunks"] + 1)]
            if len(ops) > 60:
                ops = ctx.rng.sample(ops, 60)
            for op, k, entry in ops:
                r = run_op(jinja2, loop, ts, src_dir, op, k, entry)
                judge(ctx, ts, op, k, entry, r, pending)
    finally:
        loop.close()

    # ---------------- regenerated obligation over the sites of every generated template of this run
    rt = []
    for fn in ("environment.py", "runtime.py", "nativetypes.py"):
        rt += TS.scan(open(os.path.join(src_dir, fn)).read(), fn)
    v = ("From Coq Require Import List Bool Arith.\nImport ListNotations.\nFrom JV Require Import Model.Gens.\n"
         + TS.coq_sites(list(all_sites.values()), "sites") + TS.coq_sites(rt, "runtime_sites") + OBLIGATION)
    ctx.coq_obligation("Gen_sites", v, n_obligations=2)
    bad = [s for s in list(all_sites.values()) + rt if s["kind"] != "collect" and not s["guarded"]]
    ctx.extra["sites_total"] = len(all_sites) + len(rt)
    ctx.extra["sites_unguarded"] = sorted({f"{s['func']}: {s['text']} ({s['how']})" for s in bad})[:10]
    ctx.extra["site_kinds"] = {k: sum(1 for s in all_sites.values() if s["kind"] == k) for k in ("sub", "side", "collect")}

    # ---------------- K: the model's prediction on the live configuration vs the engine
    lines = [p[1] for p in pending]
    preds = ctx.driver("gens", lines) if lines else []
    for (case, _line, real), pred in zip(pending, preds):
        if int(pred) != real:
            ctx.model_mismatch("K leak count (Gens.leak_up / leak_down vs engine)", case, pred, real,
                               "generators left open" if real else None, case.get("signature"))
        else:
            ctx.validated()


def judge(ctx, ts, op, k, entry, r, pending):
    case = {"templates": ts, "op": op, "k": k, "entry": entry, "env": ENV_KIND[0]}
    cfg = r["config"]
    fired = cfg is not None
    nontriv = fired and (len(cfg["names"]) >= 3 or any(n.endswith("/side") for n in cfg["names"]))
    ctx.case(sample=dict(case, live=cfg["names"], leaked=r["leaked"]) if nontriv and ctx.evaluations % 41 == 0 else None,
             key=(ts["main.html"], op, k, entry) if nontriv else None)
    ctx.count("op_" + op)
    ctx.count("result_" + r["res"][0])
    real = len(r["leaked"])
    sig = None
    if real or r["warnings"] or r["finalized"]:
        what = sorted(set(n.split("/")[0] + "/" + n.split("/")[1] for n in r["leaked"])) or ["warning"]
        sig = f"generator left open after {op}: " + ",".join(what)
        sigs = [sig]
        if r["leaked"] and all(n.startswith("filter:") for n in r["leaked"]) and not r["warnings"] and not r["finalized"]:
            # only generators made by filters are open: one finding per generator function
            sigs = ["filter generator left open: " + nm for nm in sorted(set(n.split("/")[0][7:] for n in r["leaked"]))]
            sig = sigs[0]
        for sg in sigs:
            ctx.reject(dict(case, leaked=r["leaked"], warnings=r["warnings"][:3], finalized=r["finalized"]),
                       f"{real} engine generator(s) still open when the task ended ({', '.join(r['leaked'])}); "
                       f"warnings={r['warnings'][:2]} finalizer calls={r['finalized']}", sg)
    if fired:
        direction = "down" if op == "stop" else "up"
        case2 = dict(case, live=cfg["names"], signature=sig)
        pending.append((case2, cfg_line(direction, cfg), real))
    elif op == "complete":
        pending.append((dict(case, signature=sig), "up", real))


def replay(ctx, data):
    jinja2 = lib.use_repo_jinja()
    case = data.get("case")
    if data.get("kind") != "failing-input" or case is None:
        print("replay: names a broken theorem / obligation / correspondence:", data.get("broken"))
        return run(ctx)
    loop = asyncio.new_event_loop()
    ENV_KIND[0] = case.get("env", "e")
    r = run_op(jinja2, loop, case["templates"], os.path.join(lib.SRC, "jinja2"), case["op"], case["k"], case["entry"])
    loop.close()
    print("result:", r["res"], "opened:", r["opened"], "live at interruption:", r["config"]["names"] if r["config"] else None)
    print("left open:", r["leaked"], "warnings:", r["warnings"], "finalizer calls:", r["finalized"])
    if r["leaked"] or r["warnings"] or r["finalized"]:
        ctx.reject(case, "engine generators still open when the task ended: " + ", ".join(r["leaked"]))
