"""C39 — the raw token stream is lossless and line-accurate.

proof : Properties/C39.v (spans_tile, spans_tile_prefix, gaps_are_whitespace, token_lines,
        value_is_span, stream_wellformed, total — every source, every configuration)
tie   : K-lex  extracted tokeniter (ghost spans / gaps projected away) == real Lexer.tokeniter ==
        Environment.lex on exhaustive short strings over each configuration's delimiter-fragment
        alphabet and on random longer sources, under 5 delimiter sets x trim/lstrip x keep
oracle: on the real Environment.lex tokens alone: the values, read in order with whitespace-only
        skips, rebuild the normalised source exactly, every token's lineno is 1 + the number of
        line breaks before its span, and the skips are the gaps the model predicts.
"""
from . import lib
from . import lex_common as L

RULE = ("K-lex/O: for each of 5 delimiter sets (default; <% %> <%= %> <!-- -->; $% %$ ${ } $# #$; default + line "
        "statement '#' + line comment '##'; <% %> ${ } <%# %> + '%' / '%%') x trim_blocks x lstrip_blocks: every string "
        "up to length Lk over the set's delimiter characters + {a, space, LF, -, +}; default also with "
        "keep_trailing_newline and CR; plus random longer sources (tags with every modifier, comments, raw blocks, line "
        "statements, multi-line expressions, stray fragments, Unicode whitespace).  distinct = (configuration, token "
        "type sequence); non-trivial = at least one non-data token.")

WS = set()
for lo, hi in L.WS_TABLE:
    WS.update(chr(c) for c in range(lo, hi + 1))


def oracle_lossless(tokens, norm):
    """The property on a real token list: returns (failure or None, skips)."""
    pos = 0
    skips = []
    for ln, ty, v in tokens:
        idx = pos
        while True:
            if norm.startswith(v, idx):
                break
            if idx >= len(norm) or norm[idx] not in WS:
                return ("token %r (%s) not found after offset %d with only whitespace skipped" % (v, ty, pos), skips)
            idx += 1
        if idx > pos:
            skips.append((len(skips), norm[pos:idx]))
        want_ln = 1 + norm.count("\n", 0, idx)
        if ln != want_ln:
            return ("token %r (%s) at offset %d has lineno %d, starts on line %d" % (v, ty, idx, ln, want_ln), skips)
        pos = idx + len(v)
    if pos != len(norm):
        return ("tokens end at offset %d of %d: %r not covered" % (pos, len(norm), norm[pos:]), skips)
    return (None, skips)


def judge(jinja2, c, s, real):
    """oracle verdict for a real run (only complete token streams are in the property)"""
    if real[0] != "OK":
        return None
    return oracle_lossless(real[1], L.normalize_src(s, c.keep))[0]


def configs():
    out = []
    for name in L.DELIMS:
        for trim in (False, True):
            for lstrip in (False, True):
                out.append(L.Cfg(name, trim, lstrip))
    out.append(L.Cfg("default", False, False, keep=True))
    out.append(L.Cfg("default", True, True, keep=True))
    out.append(L.Cfg("line", True, True, keep=True))
    return out


def run(ctx):
    jinja2 = lib.use_repo_jinja()
    ctx.extra["rule"] = RULE
    ctx.assumptions += [
        "start strings non-empty (cfg_ok, hypothesis of C39_total; Environment rejects nothing here, probed configurations satisfy it)",
        "\\d and the identifier class are fields of the model configuration; the extracted executable instantiates them with ASCII tables, so generated tag contents are ASCII (non-ASCII only in data / whitespace)",
        "Py_UNICODE_ISSPACE table of the model == re \\s == str.isspace == str.rstrip (probed over all code points)",
    ]
    ctx.proof("C39")
    bad = L.probe_whitespace_table()
    if bad:
        ctx.model_mismatch("is_space table vs running interpreter", {"code_points": bad[:20]}, "table", "interpreter", None)

    cfgs = configs()
    cases = []
    import itertools
    for c in cfgs:
        alpha = L.fragment_alphabet(c)
        if c.keep:
            alpha = alpha + ["\r"]
        # exhaustive length per configuration: quick 4 (default delimiters 5); thorough 5 for the default and
        # line-statement sets (default with both options also 6), 4 for the other sets (their alphabets have
        # 12-13 characters; 13^5 x 27 configurations would be ~10 M cases)
        if ctx.tier == "thorough":
            Lk = 5 if c.name in ("default", "line") else 4
        else:
            Lk = 4
        if c.keep:
            Lk -= 1
        for s in L.all_strings(alpha, Lk):
            cases.append((c, s))
        if c.name == "default" and not c.keep and (ctx.tier != "thorough" or (c.trim and c.lstrip)):
            for t in itertools.product(alpha, repeat=Lk + 1):
                cases.append((c, "".join(t)))
    nrand = ctx.size(500, 5000)
    for c in cfgs:
        for i in range(nrand):
            cases.append((c, L.gen_source(ctx.rng, c, unicode_text=(i % 4 == 0))))
    runs = L.model_runs(ctx, cases)
    for (c, s), m in zip(cases, runs):
        env = L.env_for(jinja2, c)
        r = L.real_run(jinja2, env, s)
        types = tuple(t[1] for t in r[1])
        nontriv = any(t != "data" for t in types)
        case = {"cfg": c.describe(), "src": s}
        ctx.case(sample=dict(case, tokens=[list(t) for t in r[1]][:12]) if len(types) > 5 else None,
                 key=(c.key(), types, r[0].split(":")[0]) if nontriv else None)
        ctx.count("lex_ok" if r[0] == "OK" else "lex_syntax_error")
        w = judge(jinja2, c, s, r)
        if w:
            ctx.reject(case, w, "C39:%r:%s" % (s, c.key()))
            continue
        if r[0] == "OK":
            try:
                api = [(ln, str(ty), v) for ln, ty, v in env.lex(s)]
            except Exception as e:
                api = "X:" + type(e).__name__
            if api != r[1]:
                ctx.reject(case, "Environment.lex differs from Lexer.tokeniter: %r" % (api,), "C39:lex-api:%r:%s" % (s, c.key()))
                continue
        if m.canon() != r:
            if L.outside_alphabet(m):
                ctx.count("outside_ascii_tag_alphabet")
                continue
            ctx.model_mismatch("K-lex tokeniter", case, repr(m.canon())[:400], repr(r)[:400], None)
            continue
        if r[0] == "OK":
            # the skipped whitespace is what the model's gap items predict
            skips = oracle_lossless(r[1], L.normalize_src(s, c.keep))[1]
            gaps = [g[2] for g in m.items if g[0] == "g"]
            if [x[1] for x in skips] != gaps:
                ctx.model_mismatch("predicted gaps vs whitespace skipped by the real token stream", case, repr(gaps), repr(skips), None)
                continue
            if gaps:
                ctx.count("with_gaps")
        ctx.validated()


def replay(ctx, data):
    jinja2 = lib.use_repo_jinja()
    case = data.get("case")
    if data.get("kind") != "failing-input" or case is None:
        print("replay: this file names a broken theorem/correspondence, not an input:", data.get("broken"))
        return run(ctx)
    c = L.Cfg.from_desc(case["cfg"])
    s = case["src"]
    r = L.real_run(jinja2, L.env_for(jinja2, c), s)
    print("source     :", repr(s), case["cfg"])
    print("normalised :", repr(L.normalize_src(s, c.keep)))
    print("real       :", r)
    print("model      :", L.model_runs(ctx, [(c, s)])[0].canon())
    w = judge(jinja2, c, s, r)
    print("oracle     :", w)
    if w:
        ctx.reject(case, w, data.get("signature"))
