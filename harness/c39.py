"""C39 — the raw token stream is lossless and line-accurate.

proof : Properties/C39.v (spans_tile, spans_tile_prefix, gaps_are_whitespace, token_lines,
        value_is_span, stream_wellformed, total — every source, every configuration)
tie   : K-lex  extracted tokeniter (ghost spans / gaps projected away) == real Lexer.tokeniter ==
        Environment.lex on exhaustive short strings over each configuration's delimiter-fragment
        alphabet and on random longer sources, under 5 delimiter sets x trim/lstrip x keep
oracle: on the real Environment.lex tokens alone: the values, read in order with whitespace-only
        skips, rebuild the normalised source exactly, every token's lineno is 1 + the number of
        line breaks before its span, and the skips are the gaps the model predicts.
"""
from . import lib
from . import lex_common as L

RULE = ("K-lex/O: for each of 5 delimiter sets (default; <% %> <%= %> <!-- -->; $% %$ ${ } $# #$; default + line "
        "statement '#' + line comment '##'; <% %> ${ } <%# %> + '%' / '%%') x trim_blocks x lstrip_blocks: every string "
        "up to length Lk over the set's delimiter characters + {a, space, LF, -, +}; default also with "
        "keep_trailing_newline and CR; plus random longer sources (tags with every modifier, comments, raw blocks, line "
        "statements, multi-line expressions, stray fragments, Unicode whitespace).  distinct = (configuration, token "
        "type sequence); non-trivial = at least one non-data token.")

WS = set()
for lo, hi in L.WS_TABLE:
    WS.update(chr(c) for c in range(lo, hi + 1))


def oracle_lossless(tokens, norm):
    """The property on a real token list: returns (failure or None, skips)."""
    pos = 0
    skips = []
    for ln, ty, v in tokens:
        idx = pos
        while True:
            if norm.startswith(v, idx):
                break
            if idx >= len(norm) or norm[idx] not in WS:
                return ("token %r (%s) not found after offset %d with only whitespace skipped" % (v, ty, pos), skips)
            idx += 1
        if idx > pos:
            skips.append((len(skips), norm[pos:idx]))
        want_ln = 1 + norm.count("\n", 0, idx)
        if ln != want_ln:
            return ("token %r (%s) at offset %d has lineno %d, starts on line %d" % (v, ty, idx, ln, want_ln), skips)
        pos = idx + len(v)
    if pos != len(norm):
        return ("tokens end at offset %d of %d: %r not covered" % (pos, len(norm), norm[pos:]), skips)
    return (None, skips)


def judge(jinja2, c, s, real):
    """oracle verdict for a real run (only complete token streams are in the property)"""
    if real[0] != "OK":
        return None
    return oracle_lossless(real[1], L.normalize_src(s, c.keep))[0]


IGNORED = {"comment_begin", "comment", "comment_end", "whitespace", "linecomment_begin", "linecomment_end", "linecomment",
           "raw_begin", "raw_end"}
_sbx = {}
_pre = {}


def preprocessing_env(jinja2, c):
    """an environment whose extension rewrites the text in preprocess (drops lines starting with '%%', wraps
    every 'a', appends a line): Environment.lex must still tokenise the GIVEN source"""
    e = _pre.get(c.key())
    if e is None:
        from jinja2.ext import Extension

        class Rewriting(Extension):
            def preprocess(self, source, name, filename=None):
                lines = [ln for ln in source.split("\n") if not ln.startswith("%%")]
                return "\n".join(lines).replace("a", "[a]\n") + "\nappended line"

        e = _pre[c.key()] = jinja2.Environment(extensions=[Rewriting], **c.kwargs())
    return e


def other_views(jinja2, c, env, s, toks):
    """the same positions through the other consumers of the token stream: lex() on str subclasses and on a
    sandboxed environment, and the parser's TokenStream (Environment._tokenize, what extensions filter)"""
    from markupsafe import Markup
    from jinja2.sandbox import SandboxedEnvironment
    for label, src in (("str subclass", L._S(s)), ("Markup", Markup(s))):
        try:
            got = [(ln, str(ty), v) for ln, ty, v in env.lex(src)]
        except Exception as e:
            got = "X:" + type(e).__name__
        if got != toks:
            return "Environment.lex(%s source) differs: %r" % (label, got)
    try:
        got = [(ln, str(ty), v) for ln, ty, v in preprocessing_env(jinja2, c).lex(s)]
    except Exception as e:
        got = "X:" + type(e).__name__
    if got != toks:
        return "lex() of an environment with a preprocessing extension does not tokenise the given source: %r" % (got,)
    sb = _sbx.get(c.key())
    if sb is None:
        sb = _sbx[c.key()] = SandboxedEnvironment(**c.kwargs())
    try:
        got = [(ln, str(ty), v) for ln, ty, v in sb.lex(s)]
    except Exception as e:
        got = "X:" + type(e).__name__
    if got != toks:
        return "SandboxedEnvironment.lex differs: %r" % (got,)
    want = [ln for ln, ty, v in toks if ty not in IGNORED]
    got = []
    try:
        for tok in env._tokenize(s, None):
            got.append(tok.lineno)
    except jinja2.TemplateSyntaxError:
        want = want[:len(got)]          # wrap() rejected a token (identifier / string escape): compare what it yielded
    if got != want:
        return "line numbers of the parser's TokenStream %r differ from those of the raw tokens %r" % (got, want)
    return None


def run_lazy_interleaving(ctx, jinja2):
    """lex() returns a lazy generator: generators of several environments that differ in exactly ONE option
    (and of the same environment twice) are all created first and consumed afterwards in every order /
    step by step; each must yield what its environment yields when lexed alone"""
    import itertools
    base = dict(L.Cfg("default").kwargs())
    variations = [("trim_blocks", True), ("lstrip_blocks", True), ("keep_trailing_newline", True), ("newline_sequence", "\r\n"),
                  ("line_statement_prefix", "#"), ("line_comment_prefix", "##"), ("comment_start_string", "<#"), ("block_end_string", "%>")]
    for j in range(ctx.size(600, 6000)):
        opt, val = ctx.rng.choice(variations)
        also = dict(ctx.rng.sample([("trim_blocks", True), ("lstrip_blocks", True), ("keep_trailing_newline", True)], ctx.rng.randint(0, 2)))
        also.pop(opt, None)
        kw_a = dict(base, **also)
        kw_b = dict(kw_a, **{opt: val})
        ca = L.Cfg("default", kw_a["trim_blocks"], kw_a["lstrip_blocks"], keep=kw_a["keep_trailing_newline"])
        src = L.gen_source(ctx.rng, ca, maxparts=6) + ctx.rng.choice(["", "\n", "\n  {% if x %}\n a\n  {% endif %}\n"])
        envs = [jinja2.Environment(**kw_a), jinja2.Environment(**kw_b), jinja2.Environment(**kw_a)]

        def alone(e):
            out = []
            try:
                for tok in e.lex(src):
                    out.append(tuple(tok))
            except jinja2.TemplateSyntaxError as ex:
                out.append(("ERR", ex.lineno))
            return out
        refs = [alone(e) for e in envs]
        case = {"kind": "lazy", "src": src, "option": opt, "value": val, "shared": also}
        ctx.case(sample=case if j < 2 else None, key=("lazy", opt, src))
        ctx.count("lazy_interleaving")
        bad = None
        orders = list(itertools.permutations(range(3)))
        for order in ctx.rng.sample(orders, 3) + ["steps"]:
            gens = [iter(e.lex(src)) for e in envs]          # all created before any is consumed
            outs = [[] for _ in envs]
            if order == "steps":
                live = [0, 1, 2]
                while live:
                    for i in list(live):
                        try:
                            outs[i].append(tuple(next(gens[i])))
                        except StopIteration:
                            live.remove(i)
                        except jinja2.TemplateSyntaxError as ex:
                            outs[i].append(("ERR", ex.lineno))
                            live.remove(i)
            else:
                for i in order:
                    try:
                        for tok in gens[i]:
                            outs[i].append(tuple(tok))
                    except jinja2.TemplateSyntaxError as ex:
                        outs[i].append(("ERR", ex.lineno))
            for i in range(3):
                if outs[i] != refs[i]:
                    bad = "consumed %s: environment %d (%s) yields %r, alone %r" % (order, i, "with " + opt if i == 1 else "without", outs[i][:6], refs[i][:6])
                    break
            if bad:
                break
        if bad:
            ctx.reject(case, bad, "C39:lazy:%s:%r" % (opt, src))
        else:
            ctx.validated()


def run_babel(ctx, jinja2):
    """message extraction relies on the positions: babel_extract must report every message on the line on which
    its call / trans tag starts (line breaks in all three forms, whitespace control, raw blocks, multi-line
    tags and comments in between) and attach the translator comment standing in front of it on that line"""
    import io
    import re
    from jinja2.ext import babel_extract
    nlre = re.compile(r"\r\n|\r|\n")
    for j in range(ctx.size(1500, 15000)):
        name = ctx.rng.choice(["default", "default", "angle", "asp"])
        trim, lstrip, keep = (ctx.rng.random() < 0.5 for _ in range(3))
        bs, be, vs, ve, cs, ce, _, _ = L.DELIMS[name]
        nl = ctx.rng.choice(["\n", "\n", "\r\n", "\r"])
        lines, expect = [], []
        for i in range(ctx.rng.randint(1, 7)):
            k = ctx.rng.random()
            ind = ctx.rng.choice(["", "  ", "\t"])
            if k < 0.4:
                m = "m%d" % len(expect)
                lm, rm = ctx.rng.choice(["", "-"]), ctx.rng.choice(["", "-"])
                com = ctx.rng.random() < 0.6
                pre = (cs + lm + " NOTE: c" + m + " " + ce) if com else ""
                form = ctx.rng.randint(0, 2)
                if form == 0:
                    call, func = vs + lm + " _('" + m + "') " + rm + ve, "_"
                elif form == 1:
                    call, func = vs + ' gettext("' + m + '",' + nl + '  ) ' + rm + ve, "gettext"     # call spans two lines
                else:
                    call, func = bs + lm + " trans " + rm + be + m + bs + " endtrans " + be, "gettext"
                lines.append(ind + pre + call + ctx.rng.choice(["", " x"]))
                expect.append((m, func, ["c" + m] if com else []))
            elif k < 0.55:
                lines.append(ind + bs + ctx.rng.choice(["", "-"]) + " if true " + ctx.rng.choice(["", "-", "+"]) + be + "t" + bs + " endif " + be)
            elif k < 0.7:
                lines.append(bs + " raw " + be + nl + " " + vs + " _('no') " + ve + nl + bs + " endraw " + ctx.rng.choice(["", "-"]) + be)
            elif k < 0.8:
                lines.append(cs + " multi" + nl + " line " + ce)
            elif k < 0.9:
                lines.append(vs + " [1," + nl + nl + "  2]|length " + ve)
            else:
                lines.append(ctx.rng.choice(["text", "", "  a b", "}}"]))
        src = nl.join(lines) + ctx.rng.choice(["", nl])
        want = []
        for m, func, com in expect:
            needle = {"_": "_('" + m + "')", "gettext": None}[func] if func == "_" else None
            off = src.find("_('" + m + "')") if func == "_" else -1
            if off < 0:
                off = src.find('gettext("' + m + '"')
            if off < 0:
                off = src.find(" trans ")
                # the trans tag of THIS message: search the tag that is followed by the message
                off = src.find(m + bs + " endtrans") if off >= 0 else -1
                off = src.rfind(bs, 0, off) if off >= 0 else -1
            want.append((1 + len(nlre.findall(src[:off])), func, m, com))
        options = {"block_start_string": bs, "block_end_string": be, "variable_start_string": vs, "variable_end_string": ve,
                   "comment_start_string": cs, "comment_end_string": ce, "trim_blocks": str(trim).lower(),
                   "lstrip_blocks": str(lstrip).lower(), "keep_trailing_newline": str(keep).lower()}
        case = {"kind": "babel", "src": src, "options": options, "want": [list(w) for w in want]}
        ctx.case(sample=case if j < 2 else None, key=("babel", src))
        ctx.count("babel_extract")
        try:
            got = [(ln, f, msg, list(cm)) for ln, f, msg, cm in babel_extract(io.BytesIO(src.encode("utf-8")), ("_", "gettext"), ("NOTE:",), options)]
        except Exception as e:
            got = "X:" + type(e).__name__ + ":" + str(e)[:80]
        if got != want:
            ctx.reject(case, "babel_extract reports %r, the calls stand at %r" % (got, want), "C39:babel:%r:%s%s%s" % (src, trim, lstrip, keep))
        else:
            ctx.validated()


def configs():
    out = []
    for name in L.DELIMS:
        for trim in (False, True):
            for lstrip in (False, True):
                out.append(L.Cfg(name, trim, lstrip))
    out.append(L.Cfg("default", False, False, keep=True))
    out.append(L.Cfg("default", True, True, keep=True))
    out.append(L.Cfg("line", True, True, keep=True))
    return out


def run(ctx):
    jinja2 = lib.use_repo_jinja()
    ctx.extra["rule"] = RULE
    ctx.assumptions += [
        "start strings non-empty (cfg_ok, hypothesis of C39_total; Environment rejects nothing here, probed configurations satisfy it)",
        "\\d and the identifier class are fields of the model configuration; the extracted executable instantiates them with ASCII tables, so generated tag contents are ASCII (non-ASCII only in data / whitespace)",
        "Py_UNICODE_ISSPACE table of the model == re \\s == str.isspace == str.rstrip (probed over all code points)",
    ]
    ctx.proof("C39")
    try:
        from . import c13
        tr = c13.load_translator()
        ctx.coq_obligation("LexEnvFacts", tr.coq_text(tr.facts(lib.REPO)), n_obligations=4)
        ok, _ = ctx.coq_obligation("LexApiFacts", tr.coq_text_lex(tr.lex_facts(lib.REPO)), n_obligations=1)
        if ok:
            ctx.case(sample={"T1": "lex_is_raw: Environment.lex calls tokeniter and no preprocessing hook"}, key="T1")
            ctx.validated()
    except Exception as e:
        ctx.obligations += 1
        ctx.broken.append("T1 translator gen/lex_envfacts.py (lex_facts): %s: %s" % (type(e).__name__, e))
    bad = L.probe_whitespace_table()
    if bad:
        ctx.model_mismatch("is_space table vs running interpreter", {"code_points": bad[:20]}, "table", "interpreter", None)

    cfgs = configs()
    cases = []
    import itertools
    for c in cfgs:
        alpha = L.fragment_alphabet(c)
        if c.keep:
            alpha = alpha + ["\r"]
        # exhaustive length per configuration: quick 4 (default delimiters 5); thorough 5 for the default and
        # line-statement sets (default with both options also 6), 4 for the other sets (their alphabets have
        # 12-13 characters; 13^5 x 27 configurations would be ~10 M cases)
        if ctx.tier == "thorough":
            Lk = 5 if c.name in ("default", "line") else 4
        else:
            Lk = 4
        if c.keep:
            Lk -= 1
        if len(alpha) > 14:
            Lk = min(Lk, 3)          # large fragment alphabets (\BLOCK{ ... }): 17^4 per configuration is too many
        for s in L.all_strings(alpha, Lk):
            cases.append((c, s))
        if c.name == "default" and not c.keep and (ctx.tier != "thorough" or (c.trim and c.lstrip)):
            for t in itertools.product(alpha, repeat=Lk + 1):
                cases.append((c, "".join(t)))
    nrand = ctx.size(500, 5000)
    # random longer sources: additionally keep_trailing_newline for every delimiter set
    rand_cfgs = cfgs + [L.Cfg(name, ctx.rng.random() < 0.5, ctx.rng.random() < 0.5, keep=True) for name in L.DELIMS]
    # Environment.lex under a non-default newline_sequence: the raw stream is that of the GIVEN source (\n-normalised),
    # whatever sequence data tokens are later written with
    rand_cfgs += [L.Cfg(name, ctx.rng.random() < 0.5, ctx.rng.random() < 0.5, nl=nl_, keep=ctx.rng.random() < 0.5)
                  for name in L.DELIMS for nl_ in ("\r\n", "\r")]
    for nl_ in ("\r\n", "\r"):
        c = L.Cfg("default", True, True, nl=nl_)
        for s in L.all_strings(["a", "\n", "\r", "{", "%", "}", " "], 4 if ctx.tier != "thorough" else 5):
            cases.append((c, s))
    for c in rand_cfgs:
        for i in range(nrand):
            cases.append((c, L.gen_source(ctx.rng, c, unicode_text=(i % 4 == 0))))
    runs = L.model_runs(ctx, cases)
    for (c, s), m in zip(cases, runs):
        env = L.env_for(jinja2, c)
        r = L.real_run(jinja2, env, s)
        types = tuple(t[1] for t in r[1])
        nontriv = any(t != "data" for t in types)
        case = {"cfg": c.describe(), "src": s}
        ctx.case(sample=dict(case, tokens=[list(t) for t in r[1]][:12]) if len(types) > 5 else None,
                 key=(c.key(), types, r[0].split(":")[0]) if nontriv else None)
        ctx.count("lex_ok" if r[0] == "OK" else "lex_syntax_error")
        w = judge(jinja2, c, s, r)
        if w:
            ctx.reject(case, w, "C39:%r:%s" % (s, c.key()))
            continue
        if r[0] == "OK":
            try:
                api = [(ln, str(ty), v) for ln, ty, v in env.lex(s)]
            except Exception as e:
                api = "X:" + type(e).__name__
            if api != r[1]:
                ctx.reject(case, "Environment.lex differs from Lexer.tokeniter: %r" % (api,), "C39:lex-api:%r:%s" % (s, c.key()))
                continue
        if r[0] == "OK" and (len(types) > 1 or "a" in s) and ctx.rng.random() < 0.08:
            w = other_views(jinja2, c, env, s, r[1])
            ctx.count("other_views")
            if w:
                ctx.reject(case, w, "C39:views:%r:%s" % (s, c.key()))
                continue
        if m.canon() != r:
            if L.outside_alphabet(m):
                ctx.count("outside_ascii_tag_alphabet")
                continue
            of = None
            if r[0] == "OK" and m.end == "OK":
                # "minus exactly the whitespace that whitespace control removes": the whitespace skipped by the real
                # stream must be what the documented rules (the model's gaps, C12_trim_refines) remove
                skips = [x[1] for x in oracle_lossless(r[1], L.normalize_src(s, c.keep))[1]]
                gaps = [g[2] for g in m.items if g[0] == "g"]
                if skips != gaps:
                    of = "whitespace removed from the token stream %r, whitespace the trimming rules remove %r" % (skips, gaps)
            elif m.end == "OK" and r[0].startswith("SYN") and "unexpected_char" in r[0]:
                ch = int(r[0].split(".")[1]) if r[0].split(".")[1].isdigit() else -1
                if chr(ch).isspace() if ch >= 0 else False:
                    of = "a whitespace character inside a tag is rejected (%s): the stream cannot be read back to the source" % r[0]
            ctx.model_mismatch("K-lex tokeniter", case, repr(m.canon())[:400], repr(r)[:400], of, signature="C39:%r:%s" % (s, c.key()) if of else None)
            continue
        if r[0] == "OK":
            # the skipped whitespace is what the model's gap items predict
            skips = oracle_lossless(r[1], L.normalize_src(s, c.keep))[1]
            gaps = [g[2] for g in m.items if g[0] == "g"]
            if [x[1] for x in skips] != gaps:
                ctx.model_mismatch("predicted gaps vs whitespace skipped by the real token stream", case, repr(gaps), repr(skips), None)
                continue
            if gaps:
                ctx.count("with_gaps")
        ctx.validated()
    run_babel(ctx, jinja2)
    run_lazy_interleaving(ctx, jinja2)


def replay(ctx, data):
    jinja2 = lib.use_repo_jinja()
    case = data.get("case")
    if data.get("kind") != "failing-input" or case is None:
        print("replay: this file names a broken theorem/correspondence, not an input:", data.get("broken"))
        return run(ctx)
    if case.get("kind") == "lazy":
        kw_a = dict(L.Cfg("default").kwargs(), **case["shared"])
        kw_b = dict(kw_a, **{case["option"]: case["value"]})
        ea, eb = jinja2.Environment(**kw_a), jinja2.Environment(**kw_b)

        def run_(e):
            try:
                return [tuple(x) for x in e.lex(case["src"])]
            except jinja2.TemplateSyntaxError as ex:
                return [("ERR", ex.lineno)]
        ra, rb = run_(ea), run_(eb)
        ga, gb = ea.lex(case["src"]), eb.lex(case["src"])
        try:
            oa = [tuple(x) for x in ga]
        except jinja2.TemplateSyntaxError as ex:
            oa = [("ERR", ex.lineno)]
        print("source:", repr(case["src"]), "option:", case["option"], "\nalone      :", ra, "\ninterleaved:", oa)
        if oa != ra:
            ctx.reject(case, "generator created before the other environment's lookup yields %r, alone %r" % (oa[:6], ra[:6]), data.get("signature"))
        return
    if case.get("kind") == "babel":
        import io
        from jinja2.ext import babel_extract
        got = [[ln, f, msg, list(cm)] for ln, f, msg, cm in babel_extract(io.BytesIO(case["src"].encode("utf-8")), ("_", "gettext"), ("NOTE:",), case["options"])]
        print("source:", repr(case["src"]), "\nbabel_extract:", got, "\nexpected     :", case["want"])
        if got != case["want"]:
            ctx.reject(case, "babel_extract reports %r, the calls stand at %r" % (got, case["want"]), data.get("signature"))
        return
    c = L.Cfg.from_desc(case["cfg"])
    s = case["src"]
    r = L.real_run(jinja2, L.env_for(jinja2, c), s)
    print("source     :", repr(s), case["cfg"])
    print("normalised :", repr(L.normalize_src(s, c.keep)))
    print("real       :", r)
    print("model      :", L.model_runs(ctx, [(c, s)])[0].canon())
    w = judge(jinja2, c, s, r)
    if not w and r[0] == "OK":
        w = other_views(jinja2, c, L.env_for(jinja2, c), s, r[1])
    if not w:
        m = L.model_runs(ctx, [(c, s)])[0]
        if r[0] == "OK" and m.end == "OK":
            skips = [x[1] for x in oracle_lossless(r[1], L.normalize_src(s, c.keep))[1]]
            gaps = [g[2] for g in m.items if g[0] == "g"]
            if skips != gaps:
                w = "whitespace removed from the token stream %r, whitespace the trimming rules remove %r" % (skips, gaps)
        elif m.end == "OK" and r[0].startswith("SYN") and "unexpected_char" in r[0]:
            f_ = r[0].split(".")
            if len(f_) > 1 and f_[1].isdigit() and chr(int(f_[1])).isspace():
                w = "a whitespace character inside a tag is rejected (%s)" % r[0]
    print("oracle     :", w)
    if w:
        ctx.reject(case, w, data.get("signature"))
