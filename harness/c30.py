"""C30 — template compilation is deterministic.

proof : Properties/C30.v — codegen_order_independent (the Symbols of every frame of every program
        are the same for every iteration order of branch_update's store set),
        emission_order_independent (pull_dependencies / pop_assign_tracking / dump_stores as
        functions of the set order), sorted_hides_order.
T4    : gen/scope_iterorder.py scans compiler.py, idtracking.py, meta.py, nodes.py, ext.py, optimizer.py,
        parser.py, visitor.py of the current
        source for every order-revealing iteration over a set-typed expression and emits a Coq
        table; obligations: every site is sorted() or one of the three sites the model accounts
        for, and those three are still present.
tie / oracle: generated templates (statement trees of the C03 generator + text templates with
        tuple unpacking, branch stores, imports, macros with special parameters, many filters and
        tests, includes and scoped blocks inside loops, trans blocks with several free variables, do /
        debug / loop controls; environments with the i18n, do, loopcontrols and debug extensions) compiled with Environment.compile(raw=True)
        in subprocesses under 4 (quick) / 16 PYTHONHASHSEED values, in sync, async, sandboxed, native and
        async+sandboxed environments: byte-identical source.
"""
import hashlib
import json

from . import lib
from . import scope_gen as G

RULE = ("templates: statement trees of the C03 generator (all constructs) and text templates built from multi-target "
        "assignments, stores in if-branches, from-imports, macros using varargs / kwargs / caller, filter and test "
        "chains, includes / scoped blocks inside loops, tuple assignments to several namespace objects, over a pool of 18 "
        "identifiers (4 of them non-ASCII); round 7: sources over the extended C03 syntax and every template of the "
        "shared generator's template sets; 14 environment modes; each compiled in sync mode and half of them also with the async / sandboxed / native / "
        "async+sandboxed code generators, under every hash seed; distinct = (mode, template source); non-trivial = the generated source contains a multi-name update "
        "(context.vars.update / exported_vars.update / _loop_vars.update / _block_vars.update), at least two "
        "filter/test dependency blocks, or a derived context with at least two stores.")

ENVS_PY = r"""
import jinja2, jinja2.sandbox, jinja2.nativetypes
EXT = ["jinja2.ext.loopcontrols", "jinja2.ext.do", "jinja2.ext.i18n", "jinja2.ext.debug"]
DELIMS = dict(block_start_string="<%", block_end_string="%>", variable_start_string="${", variable_end_string="}$",
              comment_start_string="<#", comment_end_string="#>")
from jinja2.ext import Extension
from jinja2.lexer import Token
class _Data(Extension):
    # equal priority, non-commuting rewrites of the template data tokens
    def filter_stream(self, stream):
        for tok in stream:
            yield Token(tok.lineno, tok.type, self.f(tok.value)) if tok.type == "data" else tok
class Up(_Data):
    f = staticmethod(lambda v: v.upper())
class AddX(_Data):
    f = staticmethod(lambda v: v + "x")
class Dup(_Data):
    f = staticmethod(lambda v: v[:1] + v)
CTOR_EXT = ["__main__.Up", "__main__.AddX", "__main__.Dup"] + EXT
MK = {"ctor_ext": lambda: jinja2.Template("", extensions=CTOR_EXT).environment,
      "sync": lambda: jinja2.Environment(extensions=EXT),
      "async": lambda: jinja2.Environment(extensions=EXT, enable_async=True),
      "sandbox": lambda: jinja2.sandbox.SandboxedEnvironment(extensions=EXT),
      "native": lambda: jinja2.nativetypes.NativeEnvironment(extensions=EXT),
      "async_sandbox": lambda: jinja2.sandbox.SandboxedEnvironment(extensions=EXT, enable_async=True),
      "unoptimized": lambda: jinja2.Environment(extensions=EXT, optimized=False),
      "autoescape": lambda: jinja2.Environment(extensions=EXT, autoescape=True),
      "autoescape_select": lambda: jinja2.Environment(extensions=EXT, autoescape=jinja2.select_autoescape(default_for_string=True)),
      "immutable": lambda: jinja2.sandbox.ImmutableSandboxedEnvironment(extensions=EXT),
      "overlay": lambda: jinja2.Environment(extensions=EXT).overlay(optimized=False, trim_blocks=True),
      "delims": lambda: jinja2.Environment(extensions=EXT, **DELIMS),
      "named": lambda: jinja2.Environment(extensions=EXT),
      "defer_init": lambda: jinja2.Environment(extensions=EXT),
      "newstyle": lambda: jinja2.Environment(extensions=EXT)}
# user filters / tests (every environment has them): plain functions returning Python containers; applied to
# constants they are folded at compile time and their value is written into the generated source
USER_FILTERS = {"words": lambda s: str(s).split(), "wordset": lambda s: set(str(s).split()),
                "frozen": lambda s: frozenset(str(s).split()), "index_of": lambda s: {w: i for i, w in enumerate(str(s).split())},
                "groups": lambda s: {w[0]: {x for x in str(s).split() if x[0] == w[0]} for w in str(s).split()},
                "pairs": lambda s: [(w, {w, w.upper()}) for w in str(s).split()], "twice": lambda s: (s, s)}
USER_TESTS = {"in_words": lambda s, t: s in set(str(t).split())}
def mk(mode):
    env = MK[mode]()
    env.filters.update(USER_FILTERS)
    env.tests.update(USER_TESTS)
    if mode == "newstyle":
        env.install_null_translations(newstyle=True)
    return env
def comp(env, mode, src):
    if mode == "delims":
        src = src.replace("{%", "<%").replace("%}", "%>").replace("{{", "${").replace("}}", "}$")
    if mode == "named":
        return env.compile(src, name="dir/t.html", filename="/x/dir/t.html", raw=True)
    if mode == "defer_init":
        return env.compile(src, raw=True, defer_init=True)
    return env.compile(src, raw=True)
"""

CHILD = ENVS_PY + r"""
import sys, json, hashlib
ENVS = {}
out = []
items = json.load(sys.stdin)
later = []
for i, (mode, src) in enumerate(items):
    if mode not in ENVS:
        ENVS[mode] = mk(mode)
    env = ENVS[mode]
    try:
        code = comp(env, mode, src)
        if i % 2 == 0:
            # the same environment again, immediately
            if comp(env, mode, src) != code:
                out.append(["DIFF-IN-PROCESS", code])
                continue
        else:
            later.append(i)
        flags = int("vars.update(" in code or "exported_vars.update(" in code or "_vars.update(" in code) \
            + 2 * int(code.count("environment.filters[") + code.count("environment.tests[") >= 2) \
            + 4 * int(".derived({" in code and code.split(".derived({")[1].split("}")[0].count(":") >= 2)
        out.append([hashlib.sha256(code.encode()).hexdigest(), flags])
    except Exception as e:
        out.append(["ERR:" + type(e).__name__, 0])
# history: after everything else was compiled on the long-lived environments, compile again — in reverse
# order, alternately on the long-lived environment and on a fresh one — and compare with the first result
for n, i in enumerate(reversed(later)):
    mode, src = items[i]
    if out[i][0].startswith("ERR"):
        continue
    env = ENVS[mode] if n % 2 == 0 else mk(mode)
    try:
        code = comp(env, mode, src)
        if hashlib.sha256(code.encode()).hexdigest() != out[i][0]:
            out[i] = ["DIFF-IN-PROCESS", code]
    except Exception as e:
        out[i] = ["DIFF-IN-PROCESS", "ERR:" + type(e).__name__]
json.dump(out, sys.stdout)
"""

CHILD_SRC = ENVS_PY + r"""
import sys, json
mode, src = json.load(sys.stdin)
try:
    print(comp(mk(mode), mode, src))
except Exception as e:
    print("ERR:" + type(e).__name__)
"""

IDS = ["alpha", "b", "cc", "delta", "e1", "foo", "g", "hh", "item", "jj", "k", "lst", "mm", "n0",
       "größe", "naïve", "жук", "ﬁn"]        # identifiers are Unicode (XID), not only ASCII
FILTERS = ["upper", "lower", "trim", "title", "length", "string", "first", "last", "capitalize", "list", "sort", "reverse"]
TESTS = ["defined", "odd", "even", "none", "string", "number", "iterable", "mapping", "lower", "upper"]


# every builtin filter / test applied to CONSTANT input with samples of its optional arguments (the optimizer folds
# these at compile time: whatever the filter computes lands in the generated source)
C_STR = ["'http://a.example/x?y=1&z=2 www.b.example mail@c.example'", "'alpha beta gamma delta alpha'", "'  Hello <b>World</b>  '",
         "'a,b;c'", "'3.7'", "'größe ﬁn'"]
C_LIST = ["['b', 'a', 'c', 'a']", "[3, 1, 2, 3]", "[('k', 2), ('j', 1)]", "[{'n': 'x', 'v': 2}, {'n': 'y', 'v': 1}, {'n': 'x', 'v': 3}]",
          "['alpha', 'Beta', 'gamma']"]
C_DICT = ["{'b': 1, 'a': 2, 'C': 3}", "{'class': 'x y', 'id': 'i1', 'data-k': none, 'title': 'a&b'}"]
C_FILTER_ARGS = {
    "urlize": ["", "(20)", "(nofollow=true)", "(rel='ugc external')", "(nofollow=true, rel='ugc external me')", "(target='_blank', rel='a b c d')",
               "(extra_schemes=['tel:', 'ftp:', 'x:'])", "(10, true, '_top', 'z y x w')"],
    "xmlattr": ["", "(false)"], "tojson": ["", "(2)"], "dictsort": ["", "(true)", "(by='value')", "(reverse=true)"],
    "items": [""], "unique": ["|list", "(true)|list", "(attribute='n')|list"], "groupby": ["('n')|list", "('n', default='q')|list", "('v')|map('first')|list"],
    "map": ["('upper')|list", "(attribute='n')|list", "('default', 'z')|list"], "select": ["|list", "('string')|list"], "reject": ["('none')|list"],
    "selectattr": ["('n')|list", "('v', 'gt', 1)|list"], "rejectattr": ["('v', 'odd')|list"], "sort": ["", "(true)", "(attribute='v')", "(case_sensitive=true)"],
    "slice": ["(2)|list", "(3, 'f')|list"], "batch": ["(2)|list", "(3, 'f')|list"], "wordwrap": ["(8)", "(5, false)", "(7, true, '|')"],
    "truncate": ["(9)", "(9, true)", "(9, false, '~', 0)"], "indent": ["", "(2, true)", "(width='>>', blank=true)"], "center": ["(40)"],
    "replace": ["('a', 'A')", "('a', 'A', 1)"], "round": ["", "(1, 'floor')"], "sum": ["", "(start=10)", "(attribute='v')"], "join": ["", "(', ')", "('-', attribute='n')"],
    "striptags": [""], "title": [""], "capitalize": [""], "upper": [""], "lower": [""], "trim": ["", "('a ')"], "wordcount": [""], "urlencode": [""],
    "escape": [""], "forceescape": [""], "safe": [""], "string": [""], "list": [""], "length": [""], "first": [""], "last": [""], "reverse": ["|list"],
    "min": ["", "(attribute='v')"], "max": ["", "(case_sensitive=true)"], "abs": [""], "int": ["", "(5, 16)"], "float": ["", "(1.5)"], "default": ["('d')", "('d', true)"],
    "filesizeformat": ["", "(true)"], "format": ["('x')"], "pprint": [""], "attr": ["('real')"], "count": [""], "d": ["('q')"], "e": [""],
}
C_TESTS = ["defined", "none", "string", "number", "mapping", "sequence", "iterable", "odd", "even", "lower", "upper", "true", "false", "boolean",
           "integer", "float", "callable", "sameas(1)", "eq(1)", "in([1, 2])", "divisibleby(2)", "filter", "test"]


def const_filter_sweep(rng):
    """the whole table once: every (filter, argument sample) on two suitable constants"""
    out = []
    for f in sorted(C_FILTER_ARGS):
        for arg in C_FILTER_ARGS[f]:
            if f in ("filesizeformat", "int", "float", "round", "abs"):
                pool = ["'3.7'", "1234567", "-2.5"]
            elif f == "urlize":
                pool = [C_STR[0], "'see https://x.example/a and www.y.example, or z@w.example'"]      # text WITH links
            elif f in ("striptags", "wordwrap", "truncate", "indent", "center", "replace", "title", "capitalize", "trim", "wordcount",
                       "urlencode", "format", "escape", "forceescape", "e", "upper", "lower", "safe", "string"):
                pool = C_STR
            elif f in ("xmlattr", "dictsort", "items", "tojson", "pprint"):
                pool = C_DICT
            elif f in ("default", "d", "attr"):
                pool = ["none", "3", "''"]
            else:
                pool = C_LIST
            for src in rng.sample(pool, min(2, len(pool))):
                out.append("{{ (" + src + ")|" + f + arg + " }}")
    return out


class TextGen:
    def __init__(self, rng):
        self.r = rng

    def ids(self, n):
        return self.r.sample(IDS, n)

    def piece(self, depth=2):
        r = self.r
        k = r.randrange(21)
        if k >= 19:
            # a block whose body uses the block-level special names super / self (directly, in a nested macro, in a loop)
            bn = "b" + str(r.randint(0, 10 ** 6))
            uses = r.sample(["{{ super() }}", "{{ self." + bn + "() }}", "{{ self.other() }}", "{{ super.super() }}", "{{ self }}"], r.randint(1, 4))
            body = "".join(uses)
            w = r.random()
            if w < 0.25:
                body = "{% macro q" + bn + "() %}" + body + "{% endmacro %}{{ q" + bn + "() }}"
            elif w < 0.5:
                body = "{% for i in " + r.choice(IDS) + " %}" + body + "{% endfor %}"
            inner = self.piece(depth - 1) if depth > 0 and r.random() < 0.4 and "{% block" not in "" else ""
            if "{% block" in inner:
                inner = ""
            pre = '{% extends "base" %}' if r.random() < 0.3 else ""
            return pre + "{% block " + bn + (" scoped" if r.random() < 0.3 else "") + " %}" + body + inner + "{% endblock %}"
        if k >= 17:
            f = r.choice(sorted(C_FILTER_ARGS))
            arg = r.choice(C_FILTER_ARGS[f])
            src = r.choice(C_STR + C_LIST + C_DICT + ["3", "-2.5", "none", "true"])
            if f in ("urlize", "striptags", "wordwrap", "truncate", "indent", "center", "replace", "title", "capitalize", "trim", "wordcount",
                     "urlencode", "format", "filesizeformat", "int", "float", "round", "abs") and r.random() < 0.8:
                src = r.choice(C_STR) if f not in ("filesizeformat", "int", "float", "round", "abs") else r.choice(["'3.7'", "1234567", "-2.5"])
            elif f in ("xmlattr", "dictsort", "items", "tojson") and r.random() < 0.8:
                src = r.choice(C_DICT)
            elif r.random() < 0.7 and f not in ("default", "d", "e", "escape", "string", "safe", "pprint", "attr", "length", "count"):
                src = r.choice(C_LIST)
            t = " is " + r.choice(C_TESTS) if r.random() < 0.2 else ""
            ae = r.random()
            body = "{{ (" + src + ")|" + f + arg + t + " }}"
            if ae < 0.15:
                return "{% autoescape true %}" + body + "{% endautoescape %}"
            return body
        if k == 16:
            # user filters on constants (folded by the optimizer) and on variables
            words = " ".join(r.sample(IDS[:14], r.randint(2, 6)))
            f = r.choice(["words", "wordset", "frozen", "index_of", "groups", "pairs", "twice"])
            arg = "'" + words + "'" if r.random() < 0.7 else r.choice(IDS)
            tail = r.choice(["", "|list", "|length", "|string", "|first"])
            t = "{% if " + r.choice(IDS) + " is in_words('" + words + "') %}y{% endif %}" if r.random() < 0.3 else ""
            obj = "{{ '" + words + "'." + r.choice(["split", "upper", "__class__", "join"]) + " }}" if r.random() < 0.2 else ""
            return "{{ " + arg + "|" + f + tail + " }}" + t + obj
        if k == 13:
            # trans block with several free variables (the i18n extension builds the gettext call)
            xs = self.ids(r.randint(2, 5))
            decl = ""
            if r.random() < 0.4:
                decl = " " + ", ".join(f"{x}={r.choice(IDS)}" for x in r.sample(xs, r.randint(1, len(xs))))
            body = " ".join("{{ " + x + " }}" for x in xs)
            if r.random() < 0.4:
                ys = self.ids(r.randint(1, 4))
                cnt = r.choice(xs)
                body += "{% pluralize " + cnt + " %}" + " ".join("{{ " + y + " }}" for y in ys + [cnt])
                # the count is a plain name, or an EXPRESSION (the extension then stores it in a helper variable)
                cexpr = lambda: r.choice(IDS) + r.choice(["", "", "|length", ".n|length", "|default(1)", " + 1", "[0]"])      # noqa
                decl = decl or (" " + cnt + "=" + cexpr())
                if cnt + "=" not in decl:
                    decl += ", " + cnt + "=" + cexpr()
            return "{% trans" + decl + " %}" + body + "{% endtrans %}"
        if k == 14:
            return "{% do " + r.choice(IDS) + ".append(" + r.choice(IDS) + ") %}" + ("{% debug %}" if r.random() < 0.3 else "")
        if k == 15:
            inner = self.piece(depth - 1) if depth > 0 else "{{ loop.index }}"
            return "{% for " + r.choice(IDS) + " in " + r.choice(IDS) + " %}{% if " + r.choice(IDS) + " %}{% break %}{% endif %}" + inner + "{% continue %}{% endfor %}"
        if k == 11:
            # one assignment whose tuple target refers to several namespace objects (and plain names)
            xs = self.ids(r.randint(2, 4))
            tg = [x + "." + r.choice(["u", "v", "w"]) if r.random() < 0.75 else x for x in xs]
            pre = "".join("{% set " + x + " = namespace() %}" for x in xs if r.random() < 0.5)
            return pre + "{% set " + ", ".join(tg) + " = " + ", ".join(str(i) for i in range(len(tg))) + " %}"
        if k == 12:
            xs = self.ids(r.randint(2, 3))
            body = "{% set " + ", ".join(x + ".n" for x in xs) + " = " + ", ".join(x + ".n" for x in reversed(xs)) + " %}"
            return "{% for i in " + r.choice(IDS) + " %}" + body + "{% endfor %}"
        if k == 0:
            xs = self.ids(r.randint(2, 4))
            return "{% set " + ", ".join(xs) + " = " + r.choice(IDS) + " %}"
        if k == 1:
            xs = self.ids(r.randint(2, 4))
            body = "".join("{% set " + x + " = " + str(i) + " %}" for i, x in enumerate(xs))
            els = "{% else %}{% set " + r.choice(IDS) + " = 0 %}" if r.random() < 0.5 else ""
            return "{% if " + r.choice(IDS) + " %}" + body + els + "{% endif %}" + "".join("{{ " + x + " }}" for x in xs)
        if k == 2:
            xs = self.ids(r.randint(1, 4))
            return '{% from "m" import ' + ", ".join(x if r.random() < 0.6 else x + " as " + r.choice(IDS) for x in xs) + " %}"
        if k == 3:
            return '{% import "m" as ' + r.choice(IDS) + " %}"
        if k == 4:
            ps = self.ids(r.randint(0, 3))
            body = "".join(r.sample(["{{ varargs }}", "{{ kwargs }}", "{{ caller() }}"], r.randint(0, 3)))
            return "{% macro " + r.choice(IDS) + "(" + ", ".join(ps) + ") %}" + body + (self.piece(depth - 1) if depth > 0 else "") + "{% endmacro %}"
        if k == 5:
            fs = r.sample(FILTERS, r.randint(1, 5))
            ts = r.sample(TESTS, r.randint(0, 3))
            cond = " and ".join(f"{r.choice(IDS)} is {t}" for t in ts)
            return "{{ " + r.choice(IDS) + "".join("|" + f for f in fs) + " }}" + ("{% if " + cond + " %}x{% endif %}" if ts else "")
        if k == 6:
            tg = self.ids(r.randint(1, 3))
            inner = (self.piece(depth - 1) + self.piece(depth - 1)) if depth > 0 else "{{ loop.index }}"
            return "{% for " + ", ".join(tg) + " in " + r.choice(IDS) + " %}" + inner + "{% endfor %}"
        if k == 7:
            xs = self.ids(r.randint(1, 3))
            inner = self.piece(depth - 1) if depth > 0 else ""
            return "{% with " + ", ".join(f"{x} = {i}" for i, x in enumerate(xs)) + " %}" + inner + "{% endwith %}"
        if k == 8:
            xs = self.ids(r.randint(2, 4))
            sets = "".join("{% set " + x + " = 1 %}" for x in xs)
            return "{% for i in " + r.choice(IDS) + " %}" + sets + '{% include "inc" %}{% endfor %}'
        if k == 9:
            xs = self.ids(r.randint(2, 3))
            sets = "".join("{% set " + x + " = 1 %}" for x in xs)
            return "{% for i in " + r.choice(IDS) + " %}" + sets + "{% block b" + str(r.randint(0, 10 ** 6)) + " scoped %}{{ " + xs[0] + " }}{% endblock %}{% endfor %}"
        xs = self.ids(r.randint(2, 3))
        return "{% set " + xs[0] + " %}" + "".join("{% set " + x + " = 2 %}" for x in xs[1:]) + "{% endset %}"

    def template(self):
        return "".join(self.piece() for _ in range(self.r.randint(1, 5)))


def compile_under_seeds(srcs, seeds):
    res = {}
    for sd in seeds:
        rc, out, err = lib.impl_python(CHILD, inp=json.dumps(srcs), hashseed=sd, timeout=900)
        if rc != 0:
            raise RuntimeError(f"compile child failed under seed {sd}: {err[-400:]}")
        res[sd] = json.loads(out)
    return res


def source_under_seed(item, sd):
    rc, out, err = lib.impl_python(CHILD_SRC, inp=json.dumps(item), hashseed=sd, timeout=120)
    return out


MODES = ["sync", "async", "sandbox", "native", "async_sandbox", "unoptimized", "autoescape", "autoescape_select",
         "immutable", "overlay", "delims", "named", "defer_init", "newstyle", "ctor_ext"]
EXCLUDED_AXES = {
    "line statements / whitespace control": "lexer options change the token stream, not the code generator; a sample (trim_blocks) rides on the overlay mode",
    "bytecode cache": "stores marshal.dumps(code object); its bytes carry interpreter reference flags and are not the generated source the statement is about",
    "loaders": "compile() does not consult the loader; the template name reaches the generated code only through name / filename (mode named)",
    "compile_expression": "goes through Environment.compile of the same environment; the generated source is not reachable (only the code object)",
}


def judge(ctx, srcs, seeds, kind):
    """srcs: list of (mode, source)"""
    res = compile_under_seeds(srcs, seeds)
    bad = 0
    for i, (mode, src) in enumerate(srcs):
        row = [res[sd][i] for sd in seeds]
        digests = {r[0] for r in row}
        flags = row[0][1] if isinstance(row[0][1], int) else 0
        ok_compile = not row[0][0].startswith("ERR") and row[0][0] != "DIFF-IN-PROCESS"
        ctx.case(sample={"src": src, "mode": mode, "seeds": list(seeds), "sha256": row[0][0][:16]} if flags and len(src) > 80 else None,
                 key=(mode, src) if (flags and ok_compile) else None)
        ctx.count(kind + "_" + mode + ("_compiled" if ok_compile else "_" + row[0][0].split(":")[-1]))
        if len(digests) == 1 and row[0][0] != "DIFF-IN-PROCESS":
            ctx.validated()
            continue
        bad += 1
        if bad <= 3:
            a, b = seeds[0], next(sd for sd in seeds if res[sd][i][0] != row[0][0]) if len(digests) > 1 else seeds[0]
            sa, sb = source_under_seed([mode, src], a).split("\n"), source_under_seed([mode, src], b).split("\n")
            diff = [(x[:160], y[:160]) for x, y in zip(sa, sb) if x != y][:3]
            ctx.reject({"src": src, "mode": mode, "seeds": [a, b]},
                       f"generated source differs between PYTHONHASHSEED={a} and {b}: {diff!r}" if len(digests) > 1
                       else "two compilations in one process differ", None)
        else:
            ctx.reject({"src": src, "mode": mode, "seeds": list(seeds)}, "generated source depends on the hash seed", None)
    return bad


def run(ctx):
    lib.use_repo_jinja()
    ctx.extra["rule"] = RULE
    ctx.assumptions += [
        "set iteration order is the only source of nondeterminism considered (dicts are insertion ordered, no id() / time / random in the compiler)",
        "the T4 scan's local type inference finds every set-typed iteration in the four files (hints: stores, undeclared, vars)",
        "the emission fragments of Model/ScopeOrder.v are read from the source, not tied textually; the hash-seed runs tie the whole generator",
    ]
    ctx.proof("C30")
    # ---- T4 regenerated obligation
    import importlib.util
    import os
    _spec = importlib.util.spec_from_file_location("scope_iterorder", os.path.join(lib.ROOT, "gen", "scope_iterorder.py"))
    T4 = importlib.util.module_from_spec(_spec)
    _spec.loader.exec_module(T4)
    t4_ok = True
    try:
        sites = T4.scan_repo(lib.SRC)
        ctx.extra["t4_sites"] = [list(s) for s in sites]
        ok, out = ctx.coq_obligation("Gen_scope_iterorder", T4.coq_text(sites), n_obligations=2)
        t4_ok = ok
    except Exception as e:  # noqa
        ctx.obligations += 2
        ctx.broken.append(f"T4 translator failed on the current source: {type(e).__name__}: {e}")
        t4_ok = False
    # ---- hash-seed differential
    nseeds = ctx.size(4, 16)
    if not t4_ok:
        nseeds = 8           # search around the broken obligation with more seeds
    seeds = [0, 1, 7, 42, 99, 123, 1000, 2024, 31337, 65535, 5, 11, 13, 17, 19, 23][:nseeds]
    rng = ctx.rng
    tg = TextGen(rng)
    texts = [tg.template() for _ in range(ctx.size(550, 2600))]
    trees = []
    for i in range(ctx.size(400, 2000)):
        g = G.SGen(rng, size=rng.randint(4, ctx.size(12, 25)), pool=["a", "b", "c", "n", "zeta", "q9", "цена"])
        trees.append(G.p_src(g.program()))
    # every template in sync mode; every 2nd also in one of the other code-generation modes
    # (async, sandboxed, native, async + sandboxed); the first ones in all modes
    def with_modes(srcs):
        out = []
        for i, src in enumerate(srcs):
            out.append(("sync", src))
            if i < ctx.size(14, 28):
                out += [(m, src) for m in MODES[1:]]
            elif i % 2 == 0:
                out.append((MODES[1 + (i // 2) % (len(MODES) - 1)], src))
        return out
    ctx.extra["configurations"] = {"explored": MODES, "excluded": EXCLUDED_AXES}
    judge(ctx, with_modes(texts), seeds, "text")
    judge(ctx, with_modes(trees), seeds, "tree")
    # round 7: the extended C03 syntax (tuple targets, recursive loops, loop controls, filtered block sets) and
    # the templates of whole template sets of the shared generator (inheritance, includes, imports, rich expressions)
    from . import scope_ref as R
    from .gen_templates import TGen
    ext = []
    for i in range(ctx.size(180, 800)):
        g = R.EGen(rng, size=rng.randint(4, ctx.size(14, 25)), pool=["a", "b", "c", "n", "zeta", "q9", "größe"])
        ext.append(R.p2_src(g.program()))
    judge(ctx, with_modes(ext), seeds, "ext")
    sets = []
    for i in range(ctx.size(80, 300)):
        ts, main = TGen(rng, depth=rng.randint(1, 3), names=["a", "b", "c", "x", "y", "zeta", "k2"]).template_set()
        sets += list(ts.values())
    judge(ctx, with_modes(sets), seeds, "set")
    sweep = const_filter_sweep(rng)
    judge(ctx, [(MODES[i % 3] if i % 4 else "autoescape", src) for i, src in enumerate(sweep)] + [("sync", src) for src in sweep[1::2]],
          seeds, "constfilter")


def replay(ctx, data):
    case = data.get("case")
    if data.get("kind") != "failing-input" or not isinstance(case, dict) or "src" not in case:
        print("replay: this file names a broken theorem / obligation, not an input:", data.get("broken"))
        return run(ctx)
    seeds = case.get("seeds") or [0, 1, 7, 42]
    outs = {sd: source_under_seed([case.get("mode", "sync"), case["src"]], sd) for sd in seeds}
    for sd in seeds:
        print(f"seed {sd}: sha256 {hashlib.sha256(outs[sd].encode()).hexdigest()[:16]}")
    if len(set(outs.values())) > 1:
        ctx.reject(case, "generated source depends on the hash seed", None)
