"""C22 — collection filters satisfy their documented contracts.

proof : Properties/C22.v (slice / batch partition theorems, unique, groupby, stable sort,
        first-extremum min/max, list definitions, attribute paths, async = sync, arguments
        unmodified) + a regenerated obligation file (T3 write footprint of filters.py, the
        `sum_aug` flag) re-checked against the current source.
tie   : T5 translator: gen/filt_translate.py turns the current source of sync_do_slice and do_batch
        into terms of the deep embedding Lib/PyFilt; the generated files Gen_filt_slice / Gen_filt_batch
        prove  interpreted source term = Model.FiltColl.do_slice / do_batch  for all inputs;
        K-rt  extracted Model.FiltCollRun.run_sync / run_async  ==  Environment.call_filter in a
        sync and an async environment, the input given as list, generator and async generator,
        on exhaustive lists up to length L over 3 keys x argument grids + random longer lists;
        a sample of the cases additionally through compiled templates (sync and async).
oracle: the documented contract evaluated in Python on the REAL results (independent of the
        model): partition / sizes / fill placement, first occurrences, sortedness + permutation +
        stability, strictly increasing group keys, Python's own min / max / sum / join /
        comprehension definitions; all execution modes agree; arguments deep-equal afterwards.
"""
import itertools
import os
import sys

from . import lib
from . import filt_common as fc
from .filt_common import enc, enc_opt, enc_attr, Undef
from markupsafe import Markup

sys.path.insert(0, os.path.join(lib.ROOT, "gen"))

RULE = ("K-rt: for each collection filter, every list of length <= L over 3 keys (quick tier: every 2nd list of the longest length) in several item shapes (plain "
        "strings a/A/b, ints 0/1/2, dicts {k,i}, dicts with a missing or nested attribute, [key, index] pairs) x the "
        "filter's argument grid (slice counts -1..7 x fill, case sensitivity, reverse, attribute paths incl. dotted "
        "and integer parts, default, tests, start values), plus random lists of length 7..40; each case is run "
        "through call_filter in a sync environment (list, generator) and an async environment (list, generator, "
        "async generator), a sample through templates. distinct = (filter, arguments, input); non-trivial = the "
        "input has >= 2 items and (for keyed filters) >= 2 items share a key.")

ASYNC_VARIANTS = {"slice", "unique", "join", "groupby", "sum", "first", "list", "map", "select", "reject", "reverse",
                  "selectattr", "rejectattr"}
NEEDS_SEQUENCE = {"last", "length", "dictsort"}           # no generator input
KEYS = ["a", "A", "b"]


# ------------------------------------------------------------------ reference semantics (oracle side)
class RefUndefinedError(Exception):
    pass


UNDEF = Undef()


def ref_parts(attr):
    if attr is None:
        return []
    if isinstance(attr, int):
        return [attr]
    return [int(p) if (p.isascii() and p.isdigit()) else p for p in attr.split(".")]


def ref_get(item, attr, default=None):
    """documented attribute-path lookup on plain data: dots separate parts, integer parts index,
    a missing part is undefined (replaced by `default` when one is given)"""
    for p in ref_parts(attr):
        if item is UNDEF:
            raise RefUndefinedError()
        try:
            if isinstance(item, dict):
                item = item[p]
            elif isinstance(item, (list, str)) and isinstance(p, int):
                item = item[p]
            else:
                item = UNDEF
        except (KeyError, IndexError):
            item = UNDEF
        if default is not None and item is UNDEF:
            item = default
    return item


def fold(v, cs):
    return v.lower() if (isinstance(v, str) and not cs) else v


def same(a, b):
    return enc(a) == enc(b)


def orderable(keys):
    ks = [k for k in keys]
    return len(ks) <= 1 or all(type(k) is int for k in ks) or all(type(k) is str for k in ks)


def check_sorted_stable(inp, out, keyf, reverse):
    """out is a permutation of inp (by identity), ordered by keyf, equal keys in input order"""
    if sorted(map(id, inp)) != sorted(map(id, out)):
        return "result is not a permutation of the input"
    ks = [keyf(x) for x in out]
    for a, b in zip(ks, ks[1:]):
        if (a < b) if reverse else (b < a):
            return "result is not ordered by the key"
    # stability: for every key, the items carrying it appear in the same order as in the input
    for k in {enc(keyf(x)) for x in inp}:
        if [enc(x) for x in out if enc(keyf(x)) == k] != [enc(x) for x in inp if enc(keyf(x)) == k]:
            return "items with equal keys changed their relative order (not stable)"
    return None


def oracle(case, inp, out):
    """None when the real result `out` (materialized) meets the documented contract for input
    `inp`; otherwise (what, signature).  Only called when the input is inside the contract's
    domain (the model returned a value)."""
    f = case["filter"]
    a = case["o"]
    try:
        if f == "slice":
            n, fill = a["n"], a["fill"]
            if n < 1:
                return None
            if len(out) != n:
                return (f"{len(out)} slices instead of {n}", None)
            q, r = divmod(len(inp), n)
            flat = []
            for i, s in enumerate(out):
                want = q + (1 if i < r else 0)
                body = s[:want]
                flat += body
                extra = s[want:]
                short = r != 0 and i >= r
                if fill is None or not short:
                    if extra:
                        if fill is not None and extra == [fill] and r == 0:
                            return ("fill value appended to every slice although the length divides evenly "
                                    "(no slice is short)", "C22:slice-fill-when-evenly-divisible")
                        return (f"slice {i} has {len(s)} items, expected {want}", None)
                else:
                    if extra != [fill]:
                        return (f"short slice {i} is not filled with exactly one fill value", None)
            if not all(x is y for x, y in zip(flat, inp)) or len(flat) != len(inp):
                return ("the slices do not partition the input in order", None)
            return None
        if f == "batch":
            n, fill = a["n"], a["fill"]
            if n < 1:
                return None
            flat = [x for b in out for x in b]
            if len(inp) % n and fill is not None:
                pad = n - len(inp) % n
                if flat[len(inp):] != [fill] * pad:
                    return ("last batch is not padded to the line count with the fill value", None)
                flat = flat[:len(inp)]
            if len(flat) != len(inp) or not all(x is y for x, y in zip(flat, inp)):
                return ("the batches do not partition the input in order", None)
            sizes = [len(b) for b in out]
            if any(s != n for s in sizes[:-1]) or (sizes and not (1 <= sizes[-1] <= n)):
                return (f"batch sizes {sizes} for line count {n}", None)
            if fill is not None and sizes and sizes[-1] != n:
                return ("last batch not filled", None)
            return None
        if f == "unique":
            seen, want = [], []
            for x in inp:
                k = fold(ref_get(x, a["attr"]), a["cs"])
                if not any(same(k, s) for s in seen):
                    seen.append(k)
                    want.append(x)
            if len(want) != len(out) or not all(x is y for x, y in zip(want, out)):
                return ("result is not the list of first occurrences per key, in input order", None)
            return None
        if f == "sort":
            attrs = a["attr"].split(",") if isinstance(a["attr"], str) else [a["attr"]]
            keyf = lambda x: [fold(ref_get(x, at), a["cs"]) for at in attrs]   # noqa: E731
            return wrap(check_sorted_stable(inp, out, keyf, a["reverse"]))
        if f == "dictsort":
            items = list(inp.items())
            got = [tuple(p) for p in out]
            if sorted(map(repr, items)) != sorted(map(repr, got)):
                return ("result is not a permutation of the items", None)
            pos = 0 if a["by"] == "key" else 1
            ks = [fold(p[pos], a["cs"]) for p in got]
            for x, y in zip(ks, ks[1:]):
                if (x < y) if a["reverse"] else (y < x):
                    return ("items are not ordered", None)
            order = {repr(p): i for i, p in enumerate(items)}
            for p, q in zip(got, got[1:]):
                if fold(p[pos], a["cs"]) == fold(q[pos], a["cs"]) and order[repr(p)] > order[repr(q)]:
                    return ("items with equal keys changed their relative order", None)
            return None
        if f == "groupby":
            keyf = lambda x: fold(ref_get(x, a["attr"], a["default"]), a["cs"])   # noqa: E731
            flat = [x for g in out for x in g[1]]
            w = check_sorted_stable(inp, flat, keyf, False)
            if w:
                return ("concatenated groups: " + w, None)
            gk = []
            for g in out:
                if not g[1]:
                    return ("empty group", None)
                ks = [keyf(x) for x in g[1]]
                if any(k != ks[0] for k in ks):
                    return ("a group mixes keys", None)
                shown = ref_get(g[1][0], a["attr"], a["default"]) if not a["cs"] else ks[0]
                if not same(g[0], shown):
                    return ("grouper is not the key of the group's first item", None)
                gk.append(ks[0])
            if any(not (x < y) for x, y in zip(gk, gk[1:])):
                return ("group keys are not strictly increasing", None)
            return None
        if f in ("min", "max"):
            if not inp:
                return None if out is UNDEF or is_undefined(out) else ("empty input did not give undefined", None)
            ks = [fold(ref_get(x, a["attr"]), a["cs"]) for x in inp]
            best = 0
            for i in range(1, len(ks)):
                if (ks[i] < ks[best]) if f == "min" else (ks[i] > ks[best]):
                    best = i
            return None if out is inp[best] else (f"result is not the first {f}imum", None)
        if f == "sum":
            want = a["start"]
            for x in inp:
                want = want + ref_get(x, a["attr"])
            return None if same(want, out) else ("result is not start + the sum of the items", None)
        if f == "join":
            want = str(a["d"]).join(str(ref_get(x, a["attr"])) if not is_undefined(ref_get(x, a["attr"])) else ""
                                    for x in inp)
            return None if out == want else ("result is not the delimiter-joined strings", None)
        if f == "map":
            if "mfilter" in a:
                fn = {"lower": lambda v: str(v).lower(), "upper": lambda v: str(v).upper(),
                      "length": len, "abs": abs}[a["mfilter"]]
                want = [fn(x) for x in inp]
            else:
                want = [ref_get(x, a["attr"], a["default"]) for x in inp]
            return None if same(want, out) else ("result is not the mapped list", None)
        if f in ("select", "reject", "selectattr", "rejectattr"):
            t = a["test"]
            tests = {"truth": bool, "odd": lambda v: v % 2 == 1, "even": lambda v: v % 2 == 0,
                     "none": lambda v: v is None, "defined": lambda v: v is not UNDEF,
                     "string": lambda v: isinstance(v, str), "number": lambda v: isinstance(v, int),
                     "eq": lambda v: same(v, a["targ"]), "lt": lambda v: v < a["targ"], "gt": lambda v: v > a["targ"]}
            def tv(x):
                v = ref_get(x, a["attr"]) if f.endswith("attr") else x
                if t == "truth" and v is UNDEF:
                    return False
                return bool(tests[t](v))
            want = [x for x in inp if tv(x) != f.startswith("reject")]
            if len(want) != len(out) or not all(x is y for x, y in zip(want, out)):
                return ("result is not the filtered list", None)
            return None
        if f == "first":
            good = (out is inp[0] or out == inp[0]) if inp else is_undefined(out)
            return None if good else ("not the first item", None)
        if f == "last":
            good = (out is inp[-1] or out == inp[-1]) if inp else is_undefined(out)
            return None if good else ("not the last item", None)
        if f == "reverse":
            want = inp[::-1] if isinstance(inp, str) else list(reversed(inp))
            return None if same(want, out) else ("not the reversed input", None)
        if f == "list":
            return None if same(list(inp), out) else ("not list(input)", None)
        if f == "length":
            return None if out == len(inp) else ("not len(input)", None)
    except RefUndefinedError:
        return None
    return None


def wrap(w):
    return (w, None) if w else None


def is_undefined(v):
    from jinja2.runtime import Undefined
    return isinstance(v, (Undefined, Undef))


# ------------------------------------------------------------------ case construction
def mk(filter_, args, kwargs, call, o, **extra):
    d = {"filter": filter_, "args": list(args), "kwargs": kwargs, "call": call, "o": o}
    d.update(extra)
    return d


def b(x):
    return "1" if x else "0"


def shapes(keys_seq):
    """the item shapes built from one key sequence"""
    n = len(keys_seq)
    return {
        "plain": list(keys_seq),
        "ints": [KEYS.index(k) for k in keys_seq],
        "dict": [{"k": k, "i": i} for i, k in enumerate(keys_seq)],
        "dict2": [{"k": k, "j": (i * 2) % 3, "i": i} for i, k in enumerate(keys_seq)],
        "nested": [{"p": {"q": k}, "i": i} for i, k in enumerate(keys_seq)],
        "pair": [[k, i] for i, k in enumerate(keys_seq)],
        "missing": [({"k": k, "i": i} if k != "b" else {"i": i}) for i, k in enumerate(keys_seq)],
        "vals": [{"v": KEYS.index(k), "i": i} for i, k in enumerate(keys_seq)],
        "mixed": [[0, "a", None][KEYS.index(k)] for k in keys_seq],
        "lists": [[KEYS.index(k)] for k in keys_seq],
        # str subclasses (markupsafe.Markup, as produced by |safe / |escape): keys must fold like str
        "mplain": [Markup(k) for k in keys_seq],
        "mdict": [{"k": Markup(k), "i": i} for i, k in enumerate(keys_seq)],
    }


def grid(sh, light):
    """argument grids per filter over the item shapes of one key sequence"""
    out = []
    # slice / batch
    for n in ((-1, 0, 1, 2, 3, 4, 5, 7) if not light else (1, 3, 4)):
        for fill in (None, "F"):
            fa = (n,) if fill is None else (n, fill)
            out.append((mk("slice", fa, {}, f"slice {n} {enc_opt(fill)}", {"n": n, "fill": fill}), sh["plain"]))
            out.append((mk("batch", fa, {}, f"batch {n} {enc_opt(fill)}", {"n": n, "fill": fill}), sh["plain"]))
    for cs in (False, True):
        for shape, attr in (("plain", None), ("dict", "k"), ("missing", "k"), ("nested", "p.q"), ("pair", 0)):
            kw = {"case_sensitive": cs}
            if attr is not None:
                kw["attribute"] = attr
            out.append((mk("unique", (), kw, f"unique {b(cs)} {enc_attr(attr)}", {"cs": cs, "attr": attr}), sh[shape]))
            for f in ("min", "max"):
                if shape in ("plain", "dict", "nested") or not light:
                    out.append((mk(f, (), kw, f"{f} {b(cs)} {enc_attr(attr)}", {"cs": cs, "attr": attr}), sh[shape]))
        for rev in (False, True):
            for shape, attr in (("plain", None), ("dict", "k"), ("dict2", "k,j"), ("dict2", "j,k"), ("pair", "0"), ("pair", 0),
                                ("nested", "p.q"), ("ints", None), ("missing", "k")):
                if light and shape in ("ints", "missing") or (light and shape == "pair" and attr == "0"):
                    continue
                kw = {"reverse": rev, "case_sensitive": cs}
                if attr is not None:
                    kw["attribute"] = attr
                out.append((mk("sort", (), kw, f"sort {b(rev)} {b(cs)} {enc_attr(attr)}",
                               {"reverse": rev, "cs": cs, "attr": attr}), sh[shape]))
        for shape, attr, default in (("dict", "k", None), ("missing", "k", None), ("missing", "k", "a"),
                                     ("nested", "p.q", None), ("pair", 0, None), ("missing", "k", "B")):
            kw = {"case_sensitive": cs}
            if default is not None:
                kw["default"] = default
            out.append((mk("groupby", (attr,), kw, f"groupby {enc_attr(attr)} {enc_opt(default)} {b(cs)}",
                           {"attr": attr, "default": default, "cs": cs}), sh[shape]))
    # case-insensitive keyed filters on str-subclass keys
    for shape, attr in (("mplain", None), ("mdict", "k")):
        kw = {} if attr is None else {"attribute": attr}
        out.append((mk("unique", (), kw, f"unique 0 {enc_attr(attr)}", {"cs": False, "attr": attr}), sh[shape]))
        out.append((mk("sort", (), kw, f"sort 0 0 {enc_attr(attr)}", {"reverse": False, "cs": False, "attr": attr}), sh[shape]))
        if not light:
            out.append((mk("min", (), kw, f"min 0 {enc_attr(attr)}", {"cs": False, "attr": attr}), sh[shape]))
            out.append((mk("max", (), kw, f"max 0 {enc_attr(attr)}", {"cs": False, "attr": attr}), sh[shape]))
    out.append((mk("groupby", ("k",), {}, f"groupby {enc_attr('k')} ? 0", {"attr": "k", "default": None, "cs": False}), sh["mdict"]))
    for start in (0, 5):
        out.append((mk("sum", (), {"start": start}, f"sum a- {enc(start)}", {"attr": None, "start": start}), sh["ints"]))
        out.append((mk("sum", ("v", start), {}, f"sum {enc_attr('v')} {enc(start)}", {"attr": "v", "start": start}), sh["vals"]))
    for start in ([], [9]):
        out.append((mk("sum", (), {"start": start}, f"sum a- {enc(start)}", {"attr": None, "start": start}, start_obj=True),
                    sh["lists"]))
    out.append((mk("sum", (), {}, "sum a- I 0", {"attr": None, "start": 0}), sh["mixed"]))
    # a str start: the builtin sum() refuses it, the async loop concatenates (recorded finding)
    for start in ("", "x"):
        out.append((mk("sum", (), {"start": start}, f"sum a- {enc(start)}", {"attr": None, "start": start}), sh["plain"]))
    for d in ("", ",", 0):
        out.append((mk("join", (d,), {}, f"join {enc(d)} a-", {"d": d, "attr": None}), sh["plain"]))
        out.append((mk("join", (d, "k"), {}, f"join {enc(d)} {enc_attr('k')}", {"d": d, "attr": "k"}), sh["missing"]))
    out.append((mk("join", ("-",), {}, f"join {enc('-')} a-", {"d": "-", "attr": None}), sh["mixed"]))
    for shape, attr, default in (("dict", "k", None), ("missing", "k", None), ("missing", "k", "d"), ("nested", "p.q", None),
                                 ("nested", "p.x", "d"), ("nested", "x.q", "d"), ("nested", "x.q", None), ("pair", 0, None),
                                 ("pair", "1", None), ("plain", "0", None), ("plain", 1, "z")):
        kw = {"attribute": attr}
        if default is not None:
            kw["default"] = default
        out.append((mk("map", (), kw, f"mapattr {enc_attr(attr)} {enc_opt(default)}", {"attr": attr, "default": default}), sh[shape]))
    for mf, shape in (("lower", "plain"), ("upper", "plain"), ("length", "plain"), ("abs", "ints"), ("lower", "mixed"),
                      ("length", "mixed"), ("abs", "mixed"), ("length", "lists")):
        out.append((mk("map", (mf,), {}, f"mapfilter {mf}", {"mfilter": mf}), sh[shape]))
    tests = [("truth", None), ("odd", None), ("even", None), ("none", None), ("defined", None), ("string", None),
             ("number", None), ("eq", 1), ("eq", "a"), ("lt", 1), ("gt", 0)]
    jn = {"truth": None, "odd": "odd", "even": "even", "none": "none", "defined": "defined", "string": "string",
          "number": "number", "eq": "equalto", "lt": "lessthan", "gt": "greaterthan"}
    for neg in (False, True):
        for t, targ in tests:
            tcall = t + ("" if targ is None else " " + (enc(targ) if t == "eq" else str(targ)))
            targs = () if jn[t] is None else ((jn[t],) if targ is None else (jn[t], targ))
            for shape in ("ints", "mixed"):
                out.append((mk("reject" if neg else "select", targs, {}, f"select {b(neg)} {tcall} ?",
                               {"test": t, "targ": targ, "attr": None}), sh[shape]))
            for shape, attr in (("vals", "v"), ("missing", "k")):
                out.append((mk("rejectattr" if neg else "selectattr", (attr,) + targs, {},
                               f"select {b(neg)} {tcall} ! {enc_attr(attr)}", {"test": t, "targ": targ, "attr": attr}), sh[shape]))
    for f in ("first", "last", "reverse", "list", "length"):
        out.append((mk(f, (), {}, f, {}), sh["plain"]))
        out.append((mk(f, (), {}, f, {}), "".join(sh["plain"])))
    return out


def dict_cases():
    out = []
    keys = ["a", "A", "b", "B"]
    for k in range(0, 4):
        for ks in itertools.permutations(keys, k):
            for vs in itertools.product(["x", "X", "y"], repeat=k) if k <= 2 else [tuple("xXy"[(i * 2 + len(ks[0])) % 3] for i in range(k))]:
                d = dict(zip(ks, vs))
                for cs in (False, True):
                    for by in ("key", "value", "other"):
                        for rev in (False, True):
                            byn = {"key": 0, "value": 1, "other": 2}[by]
                            out.append((mk("dictsort", (), {"case_sensitive": cs, "by": by, "reverse": rev},
                                           f"dictsort {b(cs)} {byn} {b(rev)}", {"cs": cs, "by": by, "reverse": rev}), d))
    for d in ({Markup("b"): 1, Markup("A"): 2, "a": 3}, {"x": Markup("b"), "y": Markup("A"), "z": "a"}):
        for by in ("key", "value"):
            out.append((mk("dictsort", (), {"by": by}, f"dictsort 0 {0 if by == 'key' else 1} 0",
                           {"cs": False, "by": by, "reverse": False}), d))
    for d in ({1: "x", 0: "y", 2: "x"}, {"a": 2, "B": 1, "c": 2}, {"a": 1, 2: 3}):
        for by in ("key", "value"):
            out.append((mk("dictsort", (), {"by": by}, f"dictsort 0 {0 if by == 'key' else 1} 0",
                           {"cs": False, "by": by, "reverse": False}), d))
    return out


# ------------------------------------------------------------------ execution
class Runner:
    def __init__(self, jinja2):
        self.j = jinja2
        self.env = jinja2.Environment()
        self.aenv = jinja2.Environment(enable_async=True)
        self.ctx_s = self.env.from_string("").new_context()
        self.ctx_a = self.aenv.from_string("").new_context()
        self.ar = fc.AsyncRunner()
        self.tcache = {}

    def real(self, case, value, mode, kind):
        """-> (text, materialized result or None, start object after the call or None)"""
        import copy
        args = copy.deepcopy(case["args"])
        kwargs = copy.deepcopy(case["kwargs"])
        v = value
        if kind == "gen":
            v = fc.as_generator(value)
        elif kind == "agen":
            v = fc.as_async_generator(value)
        try:
            if mode == "sync":
                r = self.env.call_filter(case["filter"], v, args, kwargs, context=self.ctx_s)
                r = fc.materialize(r)
            else:
                r = self.ar.call(self.aenv, self.ctx_a, case["filter"], v, args, kwargs)
                r = fc.materialize(r)
        except Exception as e:  # noqa: BLE001
            return "ERR " + fc.exn_name(e), None, None, (args, kwargs)
        try:
            text = "OK " + enc(r)
        except ValueError as e:
            text = "X:unencodable " + str(e)
        return text, r, kwargs.get("start"), (args, kwargs)

    def template(self, case, value, mode):
        parts = [fc.jinja_literal(x) for x in case["args"]] + [f"{k}={fc.jinja_literal(v)}" for k, v in case["kwargs"].items()]
        src = "{{ cap(xs|" + case["filter"] + ("(" + ", ".join(parts) + ")" if parts else "") + ") }}"
        env = self.env if mode == "sync" else self.aenv
        key = (mode, src)
        if key not in self.tcache:
            self.tcache[key] = env.from_string(src)
        box = []
        try:
            if mode == "sync":
                def cap(x):
                    box.append(fc.materialize(x))
                    return ""
                self.tcache[key].render(xs=value, cap=cap)
            else:
                async def cap(x):
                    box.append(fc.materialize(await fc._collect(x)))
                    return ""
                self.ar.run(self.tcache[key].render_async(xs=value, cap=cap))
        except Exception as e:  # noqa: BLE001
            return "ERR " + fc.exn_name(e)
        try:
            return "OK " + enc(box[0])
        except ValueError as e:
            return "X:unencodable " + str(e)


def modes_for(case, value, quick=False):
    ms = [("sync", "list")]
    is_list = isinstance(value, list)
    # quick tier: lists of length >= 3 skip the plain-generator modes (kept: list + async generator)
    slim = quick and is_list and len(value) >= 3
    if is_list and case["filter"] not in NEEDS_SEQUENCE and not slim:
        ms.append(("sync", "gen"))
    ms.append(("async", "list"))
    if is_list and case["filter"] in ASYNC_VARIANTS:
        ms += [("async", "agen")] if slim else [("async", "gen"), ("async", "agen")]
    return ms


def judge(ctx, rn, case, value, m_sync, m_async, aug, with_template):
    import copy
    f = case["filter"]
    m_async_val, _, m_start = m_async.partition(" START ")
    before = copy.deepcopy(value)
    n_items = len(value)
    nontriv = n_items >= 2
    ctx.case(sample={"filter": f, "args": case["args"], "kwargs": case["kwargs"], "input": value, "model": m_sync}
             if nontriv and len(ctx.samples) < 6 and f in ("slice", "groupby", "sort") else None,
             key=(case["call"], enc(value)) if nontriv else None)
    ctx.count("filter_" + f)
    if m_sync == "ERR EModel":
        ctx.count("outside_model")
        return
    desc = {"filter": f, "args": case["args"], "kwargs": case["kwargs"], "input": value,
            "call": case["call"], "o": case["o"], "input_enc": enc(value), "start_obj": bool(case.get("start_obj"))}
    first_real = None
    for mode, kind in modes_for(case, value, ctx.tier != "thorough"):
        model = m_sync if mode == "sync" else m_async_val
        if model == "ERR EModel":
            continue
        orig_args = copy.deepcopy((case["args"], case["kwargs"]))
        text, r, start_after, used = rn.real(case, value, mode, kind)
        d = dict(desc, mode=mode, input_kind=kind)
        of = None
        sig = None
        # arguments must be unmodified (deep equality with the snapshot)
        if enc_safe(value) != enc_safe(before):
            of, sig = "the input sequence was modified by the filter", "C22:input-modified:" + f
        elif enc_safe(list(used)) != enc_safe(list(orig_args)):
            of = "an argument object was modified by the filter"
            sig = "C22:async-sum-start-mutated" if (f == "sum" and mode == "async") else "C22:argument-modified:" + f
        if of is None and model.startswith("OK") and text.startswith("ERR"):
            of = f"filter raised {text[4:]} on an input inside its documented domain"
        if of is None and r is not None and model.startswith("OK"):
            try:
                w = oracle(case, value, r)
            except Exception as ex:  # noqa: BLE001  (a result of an unexpected shape is a rejection, not a crash)
                w = (f"the result has a shape the contract cannot be evaluated on ({type(ex).__name__}: {str(ex)[:60]})", None)
            if w:
                of, sig = w
        both_fail_sum = f == "sum" and text.startswith("ERR") and first_real is not None and first_real[0].startswith("ERR")
        if of is None and first_real is not None and text != first_real[0] and not both_fail_sum:
            of = f"{mode}/{kind} result ({text[:40]}) differs from {first_real[1]} result ({first_real[0][:40]})"
            if f == "sum" and isinstance(case["o"].get("start"), str):
                sig = "C22:sum-str-start-sync-async-differ"
        if first_real is None:
            first_real = (text, f"{mode}/{kind}")
        ok = text == model
        if f == "sum" and mode == "async" and ok and case.get("start_obj") and text.startswith("OK"):
            real_start = "START " + enc(used[1].get("start"))
            if real_start != "START " + m_start:
                ok = False
                text += " " + real_start
                model = m_async
        if of:
            ctx.reject(d, of, sig)
            if not ok:
                ctx.extra.setdefault("mismatch_with_failing_oracle", 0)
                ctx.extra["mismatch_with_failing_oracle"] += 1
        elif not ok:
            ctx.model_mismatch("K-rt collection filter " + f, d, model, text, None)
        else:
            ctx.validated()
        value = copy.deepcopy(before) if enc_safe(value) != enc_safe(before) else value
    if with_template:
        for mode in ("sync", "async"):
            model = m_sync if mode == "sync" else m_async_val
            try:
                text = rn.template(case, value, mode)
            except ValueError:
                continue
            ctx.count("via_template")
            if text != model:
                d = dict(desc, mode=mode, via="template")
                of = None
                if model.startswith("OK") and text.startswith("ERR"):
                    of = f"filter raised {text[4:]} in a template on an input inside its documented domain"
                if of:
                    ctx.reject(d, of, None)
                else:
                    ctx.model_mismatch("K-rt collection filter (template) " + f, d, model, text, None)
            else:
                ctx.validated()


def enc_safe(v):
    try:
        return enc(v)
    except ValueError:
        return repr(v)


def build_cases(ctx):
    L = ctx.size(5, 6)
    cases = []
    for n in range(0, L + 1):
        for idx, ks in enumerate(itertools.product(KEYS, repeat=n)):
            # quick tier: the longest length is sampled (every 2nd list, light grid); thorough: everything
            if n == L and ctx.tier != "thorough" and idx % 2:
                continue
            cases += grid(shapes(ks), light=(n == L and ctx.tier != "thorough"))
    cases += dict_cases()
    for _ in range(ctx.size(70, 1500)):
        n = ctx.rng.randint(7, 40)
        ks = [ctx.rng.choice(KEYS + ["B", "c"]) if ctx.rng.random() < 0.2 else ctx.rng.choice(KEYS) for _ in range(n)]
        ks = [k if k in KEYS else "b" for k in ks]
        g = grid(shapes(ks), light=True)
        cases += ctx.rng.sample(g, 25)
        # long slice / batch with larger counts
        for n2 in (ctx.rng.randint(1, 12), ctx.rng.randint(1, 12)):
            for fill in (None, "F"):
                fa = (n2,) if fill is None else (n2, fill)
                cases.append((mk("slice", fa, {}, f"slice {n2} {enc_opt(fill)}", {"n": n2, "fill": fill}), list(ks)))
                cases.append((mk("batch", fa, {}, f"batch {n2} {enc_opt(fill)}", {"n": n2, "fill": fill}), list(ks)))
    return cases


def regenerated(ctx):
    import filt_facts
    try:
        text, rows, aug = filt_facts.emit_c22(lib.REPO)
    except Exception as e:  # noqa: BLE001  (fail-closed translator)
        ctx.obligations += 1
        ctx.obligation_names.append("FiltGen_c22 (regenerated)")
        ctx.broken.append(f"translator gen/filt_facts.py failed on filters.py: {e}")
        return True
    text += OBLIGATIONS
    ctx.pending_parts.append(("Footprint", text, 2))
    ctx.extra["footprint_rows"] = [f"{f}:{ln} {w} param_rooted={p}" for f, ln, w, p in rows]
    ctx.extra["sum_aug"] = aug
    return aug


OBLIGATIONS = """
From JV Require Import Model.FiltColl Model.FiltCollRun Properties.C22.
(* T3: no mutation site of a collection filter is rooted in one of its parameters, except the
   augmented assignment of async do_sum when sum_aug holds (recorded finding) *)
Definition known_site (r : string * nat * string * bool) : bool :=
  let '(f, _, w, _) := r in sum_aug && String.eqb f "do_sum" && String.eqb w "augassign rv".
Theorem footprint_ok :
  forallb (fun r => let '(_, _, _, p) := r in negb p || known_site r) mutations = true.
Proof. vm_compute. reflexivity. Qed.
(* the start argument of async sum is unmodified for the code as it is now, or, when the
   augmented assignment is there, exactly for start values that are not lists *)
Theorem sum_start_unmodified_now : forall a start xs rv start',
  (sum_aug = false \\/ is_list start = false) ->
  f_sum_async sum_aug a start xs = Ok (rv, start') -> start' = start.
Proof. intros a start xs rv start' H. exact (C22_args_unmodified_sum sum_aug a start xs rv start' H). Qed.
"""


def source_equations(ctx, which):
    """T5: the current source of the function, translated into Lib/PyFilt terms, must be equal to
    the hand-written model function for all inputs (generated file Gen_filt_<which>.v)."""
    import filt_translate
    emit = {"slice": filt_translate.emit_slice, "batch": filt_translate.emit_batch,
            "truncate": filt_translate.emit_truncate}[which]
    name = "Gen_filt_" + which
    try:
        vtext = emit(lib.SRC)
    except Exception as e:  # noqa: BLE001  (fail-closed: any translator failure is a broken obligation)
        ctx.obligations += 1
        ctx.obligation_names.append(name + " (regenerated)")
        ctx.broken.append(f"translator gen/filt_translate.py: the source of {which} left the translatable vocabulary "
                          f"or the shape the equation is stated for: {e}")
        return False
    ctx.pending_parts.append((which.capitalize(), vtext, 3 if which != "truncate" else 1))
    return True


def flush_obligations(ctx, name):
    """compile everything regenerated for this run as ONE file (one module per part)"""
    parts = getattr(ctx, "pending_parts", [])
    if not parts:
        return
    text = fc.merge_modules([(m, t) for m, t, _ in parts])
    ok, out = ctx.coq_obligation(name, text, n_obligations=sum(n for _, _, n in parts))
    if ok:
        ctx.trusted.append(f"{name} (regenerated facts and source term = model function equations: "
                           + ", ".join(m for m, _, _ in parts) + "): " + " ".join(out.split()))
    ctx.pending_parts = []


# ------------------------------------------------------------------ entry-point / spelling / value-kind / environment / history matrix
class Obj:
    """an item with real attributes (make_attrgetter falls back from obj[k] to getattr)"""
    def __init__(self, k, i):
        self.k, self.i = k, i

    def __repr__(self):
        return f"Obj({self.k!r}, {self.i})"

    def __eq__(self, o):
        return isinstance(o, Obj) and (self.k, self.i) == (o.k, o.i)

    def __hash__(self):
        return hash((self.k, self.i))


class Raising:
    """an item whose attribute protocol raises"""
    i = 0

    @property
    def k(self):
        raise RuntimeError("boom")

    def __repr__(self):
        return "Raising()"


class IterOnly:
    def __init__(self, xs):
        self.xs = xs

    def __iter__(self):
        return iter(self.xs)


class GetItemOnly:
    def __init__(self, xs):
        self.xs = xs

    def __getitem__(self, i):
        return self.xs[i]

    def __len__(self):
        return len(self.xs)


class StrSub(str):
    pass


def matrix(ctx, jinja2):
    from .filt_matrix import Matrix
    mx = Matrix(ctx, jinja2)
    keysets = [["b", "A", "a", "B", "b"], [], ["x"]]
    if ctx.tier == "thorough":
        keysets += [["a", "a", "A"], ["c", "b", "a", "C"]]
    containers = [("list", list), ("tuple", tuple), ("iterator", iter), ("generator", lambda xs: (x for x in xs)),
                  ("iter_only", IterOnly), ("getitem_only", GetItemOnly)]
    by_list = {}
    try:
        for ks in keysets:
            item_kinds = {
                "str": list(ks), "Markup": [Markup(k) for k in ks], "StrSub": [StrSub(k) for k in ks],
                "dict": [{"k": k, "i": i} for i, k in enumerate(ks)], "obj": [Obj(k, i) for i, k in enumerate(ks)],
                "pair": [(k, i) for i, k in enumerate(ks)],
                "num": [[1, True, 1.0, 0, False, 2][i % 6] for i, _ in enumerate(ks)],
            }
            for ik, items in item_kinds.items():
                attr = {"dict": "k", "obj": "k", "pair": 0}.get(ik)
                for cname, C in containers:
                    if cname in ("iter_only", "getitem_only", "tuple") and ik not in ("str", "dict"):
                        continue
                    fv = (lambda items=items, C=C: C(list(items)))
                    v = fv()
                    def A(f, a=(), n=(), cname=cname, fv=fv, v=v, ik=ik, ks=ks, **kw):
                        res = mx.apply("C22", f, v, a, n, fresh_value=fv, **kw)
                        # the result depends only on the sequence of items, not on the container kind
                        mine = res.get("sync/call_filter/positional") or res.get("sync/call_filter/keyword")
                        key = (tuple(ks), ik, f, repr(a))
                        if cname == "list":
                            by_list[key] = mine
                        elif key in by_list and not mine.startswith("ERR") and not by_list[key].startswith("ERR") and mine != by_list[key]:
                            ctx.reject({"filter": f, "args": repr(a), "container": cname, "items": repr(fv() if cname in ("list", "tuple") else list(fv()))[:120]},
                                       f"{cname} input gives {mine[:60]}, the same items in a list give {by_list[key][:60]}", None)
                        return res
                    for a in ((2,), (2, "F"), (3, None)):
                        A("batch", a, ("linecount", "fill_with"))
                        A("slice", a, ("slices", "fill_with"))
                    for f in ("first", "list", "reverse", "last", "length", "count"):
                        A(f)
                    if ik != "num":
                        for a in (((False,) if attr is None else (False, attr)), ((True,) if attr is None else (True, attr))):
                            A("unique", a, ("case_sensitive", "attribute"))
                            A("min", a, ("case_sensitive", "attribute"))
                            A("max", a, ("case_sensitive", "attribute"))
                        for a in ((False, False), (True, True), (False, True)):
                            A("sort", a if attr is None else a + (attr,), ("reverse", "case_sensitive", "attribute"))
                        if ik in ("str", "Markup", "StrSub"):
                            for a in (("",), (", ",), (Markup("<br>"),)):
                                A("join", a, ("d", "attribute"))
                            A("map", ("upper",), ())
                            A("map", ("replace", "a", "4"), ())
                            A("select", ("equalto", "a"), ())
                            A("reject", ("in", ["a", "b"]), ())
                        if attr is not None:
                            A("groupby", (attr,), ("attribute",))
                            A("groupby", (attr, "zz", True), ("attribute", "default", "case_sensitive"))
                            A("join", ("|", attr), ("d", "attribute"))
                            A("map", {"attribute": attr}, ())
                            A("map", {"attribute": attr, "default": "dflt"}, ())
                            A("selectattr", (attr, "equalto", "a"), ())
                            A("rejectattr", (attr, "in", ["a", "B"]), ())
                            A("selectattr", (attr,), ())
                            A("sum", ("i" if ik != "pair" else 1, 10), ("attribute", "start"))
                    else:
                        A("sum", (), ())
                        A("sum", (None, 5), ("attribute", "start"))
                        A("sort", (True,), ("reverse",))
                        A("unique", (), ())
                        A("min", (), ())
                        A("max", (), ())
                        A("select", (), ())
                        A("select", ("odd",), ())
                        A("reject", ("greaterthan", 0), ())
                        A("join", ("-",), ("d",))
        # FALSY BUT VALID argument values (0, "", False, 0.0, [], the integer attribute 0 / "0"): `x is None` is the only
        # "not given"; judged against the Python definitions
        def low(v):
            return v.lower() if isinstance(v, str) else v
        pairs = [("b", 2), ("A", 1), ("a", 0), ("B", 0), ("a", 3)]
        for attr in (0, "0", 1, "1"):
            ai = int(attr)
            for rev in (False, True):
                mx.apply("C22", "sort", list(pairs), (rev, False, attr), ("reverse", "case_sensitive", "attribute"),
                         expect=lambda ai=ai, rev=rev: sorted(pairs, key=lambda p: low(p[ai]), reverse=rev))
            mx.apply("C22", "unique", list(pairs), (False, attr), ("case_sensitive", "attribute"),
                     expect=lambda ai=ai: [p for i, p in enumerate(pairs) if low(p[ai]) not in [low(q[ai]) for q in pairs[:i]]])
            mx.apply("C22", "min", list(pairs), (False, attr), ("case_sensitive", "attribute"), expect=lambda ai=ai: min(pairs, key=lambda p: low(p[ai])))
            mx.apply("C22", "max", list(pairs), (True, attr), ("case_sensitive", "attribute"), expect=lambda ai=ai: max(pairs, key=lambda p: p[ai]))
            mx.apply("C22", "map", list(pairs), {"attribute": attr}, (), expect=lambda ai=ai: [p[ai] for p in pairs])
            mx.apply("C22", "join", list(pairs), ("", attr), ("d", "attribute"), expect=lambda ai=ai: "".join(str(p[ai]) for p in pairs))
            mx.apply("C22", "sum", [(1, 5), (2, 7)], (attr, 0.0), ("attribute", "start"), expect=lambda ai=ai: 0.0 + sum(p[ai] for p in [(1, 5), (2, 7)]))
            mx.apply("C22", "selectattr", list(pairs), (attr, "equalto", pairs[2][ai]), (), expect=lambda ai=ai: [p for p in pairs if p[ai] == pairs[2][ai]])
            mx.apply("C22", "groupby", list(pairs), (attr,), ("attribute",))
        seq = [1, 2, 3, 4, 5]
        for fill in (0, "", False, 0.0, [], ()):
            mx.apply("C22", "batch", list(seq), (2, fill), ("linecount", "fill_with"), expect=lambda fill=fill: [[1, 2], [3, 4], [5, fill]])
            mx.apply("C22", "slice", list(seq), (2, fill), ("slices", "fill_with"), expect=lambda fill=fill: [[1, 2, 3], [4, 5, fill]])
        rows = [{"k": "a"}, {}, {"k": ""}, {"k": 0}]
        for dflt in (0, "", False, 0.0, []):
            mx.apply("C22", "map", list(rows), {"attribute": "k", "default": dflt}, (), expect=lambda dflt=dflt: ["a", dflt, "", 0])
        for dflt in ("", "0"):
            mx.apply("C22", "groupby", [{"k": "b"}, {}, {"k": ""}], ("k", dflt), ("attribute", "default"))
        for start in (0, 0.0, False, -0.0):
            mx.apply("C22", "sum", [1, 2], (None, start), ("attribute", "start"), expect=lambda start=start: sum([1, 2], start))
        for d in ("", 0, False):
            mx.apply("C22", "join", ["x", "y"], (d,), ("d",), expect=lambda d=d: str(d).join(["x", "y"]))
        # a single CONTAINER value as the argument of a variadic filter (test / filter arguments)
        mx.apply("C22", "select", [("a", "b"), ("c",), "a"], ("equalto", ("a", "b")), (), expect=lambda: [("a", "b")])
        mx.apply("C22", "reject", ["a", "b", "c"], ("in", ("a", "b")), (), expect=lambda: ["c"])
        mx.apply("C22", "select", ["a", "b", "c"], ("in", {"a": 1, "c": 2}), (), expect=lambda: ["a", "c"])
        mx.apply("C22", "map", ["a", "b"], ("default", ()), ())
        mx.apply("C22", "map", [[1, 2], [3]], ("join", ("-",)), ())
        # dictsort with keys that are not str
        import enum

        class Color(enum.Enum):
            RED = 1
        for d in ({(1, 2): "x", (0, 5): "y"}, {b"b": 1, b"a": 2}, {2.5: "x", 1: "y", True: "z"}, {frozenset([1]): 1}, {Color.RED: 1}, {None: 1}):
            for a in ((), (False, "value"), (True, "key", True)):
                mx.apply("C22", "dictsort", dict(d), a, ("case_sensitive", "by", "reverse"),
                         expect=(lambda d=d, a=a: sorted(d.items(), key=lambda kv: kv[1 if len(a) > 1 and a[1] == "value" else 0],
                                                         reverse=bool(len(a) > 2 and a[2]))))
        # dict items whose KEYS are spelled like dict methods / attributes: an attribute path looks a part up as a
        # key first (Environment.getitem), so the values come back, never bound methods
        for name in ("items", "values", "keys", "get", "update", "pop", "copy", "count", "index", "__class__"):
            rows = [{name: v, "i": i} for i, v in enumerate(["b", "A", "a", "b"])]
            nums = [{name: n} for n in (3, 1, 2)]
            get = (lambda r, name=name: r[name])
            mx.apply("C22", "map", list(rows), {"attribute": name}, (), expect=lambda rows=rows, get=get: [get(r) for r in rows])
            mx.apply("C22", "join", list(rows), ("|", name), ("d", "attribute"), expect=lambda rows=rows, get=get: "|".join(get(r) for r in rows))
            mx.apply("C22", "sum", list(nums), (name,), ("attribute",), expect=lambda nums=nums, get=get: sum(get(r) for r in nums))
            mx.apply("C22", "min", list(nums), (False, name), ("case_sensitive", "attribute"), expect=lambda nums=nums, get=get: min(nums, key=get))
            mx.apply("C22", "max", list(nums), (False, name), ("case_sensitive", "attribute"), expect=lambda nums=nums, get=get: max(nums, key=get))
            mx.apply("C22", "sort", list(rows), (False, True, name), ("reverse", "case_sensitive", "attribute"),
                     expect=lambda rows=rows, get=get: sorted(rows, key=get))
            mx.apply("C22", "unique", list(rows), (True, name), ("case_sensitive", "attribute"),
                     expect=lambda rows=rows, get=get: [r for i, r in enumerate(rows) if get(r) not in [get(q) for q in rows[:i]]])
            mx.apply("C22", "selectattr", list(rows), (name, "equalto", "a"), (), expect=lambda rows=rows, get=get: [r for r in rows if get(r) == "a"])
            mx.apply("C22", "rejectattr", list(rows), (name, "equalto", "a"), (), expect=lambda rows=rows, get=get: [r for r in rows if get(r) != "a"])
            mx.apply("C22", "groupby", list(rows), (name, None, True), ("attribute", "default", "case_sensitive"),
                     expect=lambda rows=rows, get=get: [[k, [r for r in rows if get(r) == k]] for k in sorted({get(r) for r in rows})])
            mx.apply("C22", "map", [{"p": r} for r in rows], {"attribute": "p." + name}, (), expect=lambda rows=rows, get=get: [get(r) for r in rows])
        # float items: the builtin sum of the sync filter adds floats with compensation (Python >= 3.12), so
        # sequences whose naive left-to-right sum differs must give the same result in every environment
        import math
        for xs in ([0.1] * 10, [1e16, 1.0, -1e16], [0.1, 0.2, 0.3], [1e308, 1e308, -1e308], [3.0, 1e-16, -3.0, 1e-16], [0.5, True, 2]):
            for C in (list, tuple, lambda v: (x for x in v)):
                fv = (lambda xs=xs, C=C: C(list(xs)))
                mx.apply("C22", "sum", fv(), (), (), fresh_value=fv, expect=lambda xs=xs: sum(xs))
                mx.apply("C22", "sum", fv(), (None, 0.5), ("attribute", "start"), fresh_value=fv, expect=lambda xs=xs: sum(xs, 0.5))
            objs = [{"v": x} for x in xs]
            mx.apply("C22", "sum", objs, ("v",), ("attribute",), expect=lambda xs=xs: sum(xs))
            for f in ("min", "max", "sort", "unique"):
                mx.apply("C22", f, list(xs), (), ())
        # attribute names made of digit-like characters: only decimal digits (what int() accepts) are integer
        # parts; any other name (superscripts, circled numbers, fractions) is an ordinary key
        for name in ("\u00b2", "\u2460", "n\u00bd", "\u00b2\u00b3", "x2", "\u0664"):
            rows = [{name: k, "i": i} for i, k in enumerate(["b", "A", "a"])]
            isint = name.isdecimal()
            seqs = [["b", "A", "a", "c", "d"], ["x"] * 5] if isint else None
            data = seqs if isint else rows
            get = (lambda r, name=name: r[int(name)] if name.isdecimal() else r[name])
            mx.apply("C22", "map", data, {"attribute": name}, (), expect=lambda data=data, get=get: [get(r) for r in data])
            mx.apply("C22", "sort", data, (False, True, name), ("reverse", "case_sensitive", "attribute"),
                     expect=lambda data=data, get=get: sorted(data, key=get))
            mx.apply("C22", "unique", data, (True, name), ("case_sensitive", "attribute"))
            mx.apply("C22", "groupby", data, (name,), ("attribute",))
            mx.apply("C22", "join", data, ("|", name), ("d", "attribute"), expect=lambda data=data, get=get: "|".join(get(r) for r in data))
            mx.apply("C22", "selectattr", data, (name, "equalto", "a"), (), expect=lambda data=data, get=get: [r for r in data if get(r) == "a"])
            mx.apply("C22", "max", data, (True, name), ("case_sensitive", "attribute"), expect=lambda data=data, get=get: max(data, key=get))
            mx.apply("C22", "map", [{"p": r} for r in data], {"attribute": "p." + name}, (), expect=lambda data=data, get=get: [get(r) for r in data])
        # items whose attribute protocol raises: every way must fail the same way
        bad = [Obj("a", 0), Raising()]
        for f, a, n in (("sort", (False, False, "k"), ("reverse", "case_sensitive", "attribute")), ("unique", (False, "k"), ("case_sensitive", "attribute")),
                        ("groupby", ("k",), ("attribute",)), ("map", {"attribute": "k"}, ()), ("selectattr", ("k",), ()), ("max", (False, "k"), ("case_sensitive", "attribute"))):
            mx.apply("C22", f, bad, a, n)
        # dictsort: dict and other mappings
        import collections
        import types
        for d in ({"b": 2, "A": 3, "a": 1}, {}, {Markup("b"): 1, "A": 2}, {2: "x", 1: "Y", 3: "x"}):
            for make in (dict, collections.OrderedDict, types.MappingProxyType):
                for a in ((), (False, "key", False), (True, "value", True), (False, "value"), (False, "other")):
                    mx.apply("C22", "dictsort", make(dict(d)), a, ("case_sensitive", "by", "reverse"))
        mx.history_pass(every_fresh=7)
        mx.alternation_pass(envnames=("sync", "async"))
    finally:
        mx.close()


def run(ctx):
    jinja2 = lib.use_repo_jinja()
    ctx.extra["rule"] = RULE
    ctx.assumptions += [
        "Python's sorted is a stable sort and min/max return the first extremum (they enter the model as a verified insertion sort / first-extremum scan; the order on keys is total and transitive on ints and on strs)",
        "attribute names are not names of Python methods of dict/list/str/int (Environment.getitem's getattr fall-back finds nothing); str.lower is modelled on ASCII and Latin-1",
        "keys are ints or strs (None / Undefined / mixed keys only where every comparison order raises the same exception); containers as keys are outside the model",
        "itertools.groupby groups adjacent items whose keys compare equal to the first key of the group",
    ]
    import time
    t0 = time.time()
    ctx.pending_parts = []
    aug = regenerated(ctx)
    source_equations(ctx, "slice")
    source_equations(ctx, "batch")
    ctx.extra["phase_seconds"] = {}

    def coq_part():
        ctx.proof("C22")
        flush_obligations(ctx, "Gen_filt_c22")
        ctx.extra["phase_seconds"]["coq (in parallel)"] = round(time.time() - t0, 1)
    bg = fc.Background(coq_part)
    rn = Runner(jinja2)
    cases = build_cases(ctx)
    lines = []
    for case, value in cases:
        ev = enc(value)
        lines.append(f"s {case['call']} | {ev}")
        lines.append(f"a{1 if aug else 0} {case['call']} | {ev}")
    out = ctx.driver("filtcoll", lines)
    step = ctx.size(37, 7)
    try:
        for i, (case, value) in enumerate(cases):
            judge(ctx, rn, case, value, out[2 * i], out[2 * i + 1], aug, with_template=(i % step == 0))
    finally:
        rn.ar.close()
    ctx.extra["phase_seconds"]["model_tie"] = round(time.time() - t0, 1)
    t1 = time.time()
    fc.guarded(ctx, "C22 matrix", matrix, ctx, jinja2)
    ctx.extra["phase_seconds"]["matrix"] = round(time.time() - t1, 1)
    bg.join()


def replay(ctx, data):
    """re-run the single recorded case: model lines for it, every execution mode of the real
    filter, the oracle and the argument-unmodified check"""
    jinja2 = lib.use_repo_jinja()
    case = data.get("case")
    if data.get("kind") != "failing-input" or case is None:
        print("replay: this file names a broken theorem/correspondence, not an input:", data.get("broken"))
        return run(ctx)
    import filt_facts
    from .filt_common import dec
    aug = filt_facts.sum_aug(lib.REPO)
    value = dec(case["input_enc"])
    c = {"filter": case["filter"], "args": case["args"], "kwargs": case["kwargs"], "call": case["call"],
         "o": case["o"], "start_obj": case.get("start_obj", False)}
    ev = enc(value)
    m_sync, m_async = ctx.driver("filtcoll", [f"s {c['call']} | {ev}", f"a{1 if aug else 0} {c['call']} | {ev}"])
    print("filter:", c["filter"], "args:", c["args"], "kwargs:", c["kwargs"], "input:", value)
    print("recorded:", data.get("what"))
    print("model sync :", m_sync)
    print("model async:", m_async)
    rn = Runner(jinja2)
    try:
        for mode, kind in modes_for(c, value):
            text, _, _, _ = rn.real(c, value, mode, kind)
            print(f"real {mode}/{kind}:", text)
        value = dec(case["input_enc"])
        judge(ctx, rn, c, value, m_sync, m_async, aug, with_template=(case.get("via") == "template"))
    finally:
        rn.ar.close()
