"""C28 — loaders never resolve a template name outside their search locations.

proof:  Properties/C28.v  (split_safe, rejects_escape, join_contained for every root and name under the
        POSIX convention, join_contained_nt_partial / _refuted under the Windows convention, fs_contained on a
        directory-tree model, pkg_contained, choice_first, prefix_route, notfound_iff_none)
tie  :  K-rt  extracted Model.Ldr  ==  the real jinja2.loaders:
          split_template_path  (POSIX, and the Windows convention with the module's `os` global replaced from
                                outside by a namespace carrying ntpath)
          posixpath.join / posixpath.normpath / ntpath.normpath  (the stdlib functions the loaders call)
          str.split(delimiter, 1)
          FileSystemLoader / PackageLoader (directory form) / DictLoader / ChoiceLoader / PrefixLoader
          .get_source and .load on a sandbox directory tree under build/, every `open` recorded by an audit hook
oracle: (i) no file outside the search directories is ever opened, (ii) TemplateNotFound exactly when an
        independent reading of the sandbox tree says no search directory has the file, (iii) a composed loader
        answers like the first leaf loader on its route that has the template.
"""
import itertools
import ntpath
import os
import posixpath
import shutil
import sys
import types

from . import lib

RULE = ("names: every sequence of up to 4 segments over the alphabet A joined by '/' (exhaustive) + random strings over "
        "{'/', '\\\\', '.', ':', 'a', 'C', 'é'}; A = {'..', '.', '', 'a', 'a\\\\b', 'C:', 'sub', 'é', 'secret'} (quick) plus "
        "{'t2', 'outside'} (thorough).  Each name goes through split_template_path under both separator conventions, "
        "through 4 file-system / package loaders on the sandbox tree, and (random subset) through random Choice / "
        "Prefix / Dict compositions via get_source and load; histories up to length 4 (thorough 5) on 5 compositions in which "
        "lookups (get_source / load) alternate with additions / deletions in the member DictLoaders, the loader object living "
        "through the history; compatibility look-alikes of '.', '..', '/', '\\\\' (U+2025, U+FF0E, U+2024, U+FE52, U+FF0F, U+FF3C) as "
        "segments up to length 3.  roots x pieces for join/normpath: every root up to length "
        "3 over {'/', '\\\\', '.', ':', 'a'} plus UNC / drive forms.  distinct = (kind, loader, name); non-trivial = "
        "the name has a '..' segment, a backslash, a drive-like or empty segment, or resolves to a file in a "
        "sub-directory / second search path / non-first leaf.")

_AUDIT = {"on": False, "opens": []}
_HOOKED = [False]


def _audit(event, args):
    if _AUDIT["on"] and event == "open":
        p = args[0]
        if isinstance(p, bytes):
            p = os.fsdecode(p)
        if isinstance(p, str):
            _AUDIT["opens"].append(p)


def enc(s):
    return ",".join(str(ord(c)) for c in s) if s else "-"


def dec(t):
    return "" if t == "-" else "".join(chr(int(x)) for x in t.split(","))


# ------------------------------------------------------------------------------------------- sandbox
FILES = {            # model path -> content id;  search dirs: /t1 /t2 /pkgs/c28pkg/templates
    "/t1/a": 1, "/t1/sub/a": 2, "/t1/sub/sub/a": 3, "/t1/a\\b": 4, "/t1/C:": 5, "/t1/é": 6, "/t1/sub/é": 7,
    "/t2/a": 11, "/t2/b": 12, "/t2/sub/b": 13,
    "/pkgs/c28pkg/templates/a": 21, "/pkgs/c28pkg/templates/sub/a": 22, "/pkgs/c28pkg/templates/C:": 23,
    # sentinels outside every search directory
    "/t1/empty": 0, "/t2/sub/empty": 0, "/pkgs/c28pkg/templates/empty": 0,
    "/secret": 90, "/a": 91, "/outside/secret": 92, "/outside/a": 93, "/t1x/a": 94, "/pkgs/c28pkg/secret": 95,
    "/pkgs/secret": 96, "/sub/a": 97, "/C:": 98,
}
PKG_INIT = "/pkgs/c28pkg/__init__.py"


def body(cid):
    """template source for a content id; id 0 is the EMPTY template (a valid template whose source is falsy)"""
    return f"id:{cid}" if cid else ""


def make_sandbox(ctx):
    sb = os.path.realpath(os.path.join(ctx.bdir, "sb"))
    shutil.rmtree(sb, ignore_errors=True)
    for mp, cid in FILES.items():
        p = sb + mp
        os.makedirs(os.path.dirname(p), exist_ok=True)
        with open(p, "w", encoding="utf-8") as f:
            f.write(body(cid))
    with open(sb + PKG_INIT, "w") as f:
        f.write("")
    return sb


def tree_lookup(model_dir, segs):
    """independent reading of the sandbox: content id of <model_dir>/<segs...> or None"""
    base = [c for c in posixpath.normpath(model_dir).split("/") if c and c != "."]      # "" / "." = the sandbox root (cwd)
    return FILES.get("/" + "/".join(base + segs))


def spec_fs(search_dirs, name):
    """the documented behaviour: None = TemplateNotFound, else content id"""
    segs = name.split("/")
    if any(s == ".." for s in segs):
        return None
    segs = [s for s in segs if s not in ("", ".")]
    for d in search_dirs:
        c = tree_lookup(d, segs)
        if c is not None:
            return c
    return None


# ------------------------------------------------------------------------------------------- loaders
def build_real(jinja2, sb, desc, reg=None):
    """reg (optional list) collects the mapping objects of the DictLoader leaves in pre-order"""
    k = desc[0]
    if k == "F":
        # "" stays the empty search path (current directory; the harness changes into the sandbox root for those cases)
        return jinja2.FileSystemLoader([(sb + sp if sp else "") for sp in desc[1]], **({"encoding": desc[2]} if len(desc) > 2 else {}))
    if k == "K":
        return jinja2.PackageLoader("c28pkg", "templates")
    if k == "D":
        d = {}
        for n, c in desc[1]:
            d.setdefault(n, body(c))
        if reg is not None:
            reg.append(d)
        return jinja2.DictLoader(d)
    if k == "U":
        # FunctionLoader over the same kind of table; answers alternate between the plain-string and the tuple form
        d = {}
        for n, c in desc[1]:
            d.setdefault(n, body(c))
        return jinja2.FunctionLoader(lambda name, d=d: None if name not in d else (d[name] if len(name) % 2 else (d[name], None, lambda: True)))
    if k == "C":
        return jinja2.ChoiceLoader([build_real(jinja2, sb, x, reg) for x in desc[1]])
    if k == "X":
        m = {}
        for p, l in desc[2]:
            if p in m:
                build_real(jinja2, sb, l, [] if reg is not None else None)
            else:
                m[p] = build_real(jinja2, sb, l, reg)
        return jinja2.PrefixLoader(m, delimiter=desc[1])
    raise AssertionError(desc)


def enc_loader(desc):
    k = desc[0]
    if k == "F":
        return f"F {len(desc[1])} " + " ".join(enc(sp) for sp in desc[1])
    if k == "K":
        return "K " + enc("/pkgs/c28pkg/templates")
    if k in ("D", "U"):
        return f"D {len(desc[1])} " + " ".join(f"{enc(n)} {c}" for n, c in desc[1])
    if k == "C":
        return f"C {len(desc[1])} " + " ".join(enc_loader(x) for x in desc[1])
    if k == "X":
        return f"X {enc(desc[1])} {len(desc[2])} " + " ".join(f"{enc(p)} {enc_loader(l)}" for p, l in desc[2])
    raise AssertionError(desc)


def search_dirs(desc):
    k = desc[0]
    if k == "F":
        return list(desc[1])
    if k == "K":
        return ["/pkgs/c28pkg/templates"]
    if k in ("D", "U"):
        return []
    if k == "C":
        return [d for x in desc[1] for d in search_dirs(x)]
    return [d for _, l in desc[2] for d in search_dirs(l)]


def py_route(desc, name):
    """LdrSpec.route transcribed: ordered (leaf, local name) pairs"""
    k = desc[0]
    if k == "C":
        return [r for x in desc[1] for r in py_route(x, name)]
    if k == "X":
        d = desc[1]
        if d == "" or d not in name:
            return []
        p, rest = name.split(d, 1)
        for q, l in desc[2]:
            if q == p:
                return py_route(l, rest)
        return []
    return [(desc, name)]


def leaf_spec(desc, name):
    if desc[0] in ("D", "U"):
        for n, c in desc[1]:
            if n == name:
                return c
        return None
    return spec_fs(search_dirs(desc), name)


def real_get(jinja2, env, loader, name, sb, how):
    """-> (result string in the driver's format, opened paths)"""
    _AUDIT["opens"] = []
    _AUDIT["on"] = True
    try:
        if how == "get_source":
            src, fn, _ = loader.get_source(env, name)
        else:
            t = loader.load(env, name)
            src, fn = t.render(), t.filename
            if fn == "<template>":
                fn = None
    except jinja2.TemplateNotFound:
        return "N", list(_AUDIT["opens"])
    except Exception as e:  # noqa
        return "X:" + type(e).__name__, list(_AUDIT["opens"])
    finally:
        _AUDIT["on"] = False
    opens = list(_AUDIT["opens"])
    strip = lambda p: p[len(sb):] if p.startswith(sb + "/") else (p if not p.startswith("/") else "!" + p)   # relative: as is
    o = enc(strip(opens[0])) if len(opens) == 1 else ("~" if not opens else "!multi")
    f = "~" if fn is None else enc(strip(fn))
    cid = src[3:] if src.startswith("id:") else ("0" if src == "" else "?" + src[:10])
    return f"F {o} {f} {cid}", opens


def inside(path, sb, dirs):
    rp = os.path.realpath(path)
    for d in dirs:
        rd = os.path.realpath(sb + d)
        if rp.startswith(rd.rstrip("/") + "/"):
            return True
    return False


STDLIB = (os.path.realpath(sys.base_prefix), os.path.realpath(sys.prefix))


def judge_fs(sb, desc, name, impl, opens):
    """oracle on the real engine's behaviour (independent of the model)"""
    dirs = search_dirs(desc)
    for p in opens:
        if os.path.realpath(p).startswith(STDLIB):
            continue
        if not inside(p, sb, dirs):
            return f"opened {p!r}, which is outside the search directories"
    route = py_route(desc, name)
    want = None
    for leaf, n in route:
        want = leaf_spec(leaf, n)
        if want is not None:
            break
    if impl.startswith("X:"):
        return f"raised {impl[2:]} instead of TemplateNotFound / a result"
    if want is None and impl != "N":
        return f"returned {impl!r} although no loader on the route has the template"
    if want is not None and impl == "N":
        return f"TemplateNotFound although content id {want} is available on the route"
    if want is not None and impl.split(" ")[-1] != str(want):
        return f"served content id {impl.split(' ')[-1]}, the first loader that has it holds {want}"
    return None


def nontrivial(name, res):
    segs = name.split("/")
    return (".." in segs or "\\" in name or "" in segs or ":" in name or
            (res.startswith("F") and (name.count("/") >= 1 or not res.endswith(" 1"))))


# ------------------------------------------------------------------------------------------- pure ties
def real_split(L, name, convention):
    old = L.os
    try:
        if convention == "n":
            L.os = types.SimpleNamespace(sep="\\", path=ntpath, fspath=os.fspath)
        try:
            ps = L.split_template_path(name)
        except L.TemplateNotFound:
            return "N"
        except Exception as e:  # noqa
            return "X:" + type(e).__name__
    finally:
        L.os = old
    return " ".join(["P"] + [enc(p) for p in ps])


def judge_split(name, convention, impl):
    seps = ("\\", "/") if convention == "n" else ("/",)
    segs = name.split("/")
    bad = any(s == ".." or any(c in s for c in seps if c != "/") for s in segs)
    if impl.startswith("X:"):
        return "raised " + impl[2:]
    if bad:
        return None if impl == "N" else "a name with a '..' segment or a platform separator was accepted"
    if impl == "N":
        return "a harmless name was rejected"
    ps = [dec(t) for t in impl.split(" ")[1:]]
    if any(p == ".." or any(c in p for c in seps) for p in ps):
        return "a piece that can leave a directory was returned"
    # (pieces '' / '.' or a different segmentation do not endanger containment: left to the model comparison)
    return None


def nt_decompose(path):
    """(drive, rooted, normalised components) of a path under the Windows convention: ntpath.splitroot on the
    path itself (NOT on its normpath: ntpath.normpath('./C:x') == 'C:x' is not idempotent) + the documented
    component rules ('' and '.' vanish, '..' pops a component, stays when nothing can be popped on a relative path)"""
    d, r, t = ntpath.splitroot(path.replace("/", "\\"))
    out = []
    for c in t.split("\\"):
        if c in ("", "."):
            continue
        if c == "..":
            if out and out[-1] != "..":
                out.pop()
            elif not r:
                out.append(c)
        else:
            out.append(c)
    return d, bool(r), out


def nt_contained(root, ps, joined):
    """lexical containment under the Windows convention (all roots, incl. UNC): same drive, same root-ness,
    components of the root followed by exactly the pieces"""
    dr, rr, cr = nt_decompose(root)
    dj, rj, cj = nt_decompose(joined)
    unc = dr.startswith("\\\\")
    return dr == dj and (rr == rj or unc) and cj == cr + list(ps)


def nt_degenerate_root(root):
    """an incomplete UNC / device prefix (\\\\server without a share): not a directory path at all"""
    n = root.replace("/", "\\")
    return n.startswith("\\\\") and ntpath.splitroot(posixpath.join(root, "x").replace("/", "\\"))[0] != ntpath.splitroot(n)[0]


def nt_signature(root, ps):
    if root == "" and ps and len(ps[0]) >= 2 and ps[0][1] == ":":
        return "C28:nt-convention:empty-searchpath+drive-prefixed-name"
    if root == "\\":
        return "C28:nt-convention:searchpath-is-a-lone-backslash"
    if len(root) == 2 and root[1] == ":" and root[0] not in "\\/":
        return "C28:nt-convention:searchpath-is-a-bare-drive"
    return None


def names_exhaustive(alphabet, maxseg):
    for n in range(1, maxseg + 1):
        for segs in itertools.product(alphabet, repeat=n):
            yield "/".join(segs)


def run(ctx):
    jinja2 = lib.use_repo_jinja()
    import jinja2.loaders as L
    ctx.extra["rule"] = RULE
    ctx.assumptions += [
        "no symbolic links inside the search directories (M resolves paths lexically / on a link-free tree)",
        "PackageLoader is modelled in its directory form only; the zip form is outside M",
        "the Windows convention is exercised on this POSIX host through ntpath and by replacing the `os` global of "
        "jinja2.loaders from outside; no Windows file system is involved",
        "str.upper() maps no non-ASCII character to 'U', 'N' or 'C' (probed on every run; used by the model of ntpath.splitroot)",
    ]
    ctx.proof("C28")
    # translator tie: the current source of split_template_path, as a term of Lib/PyLdr, is proved equal to the
    # model for every convention and every name
    sys.path.insert(0, os.path.join(lib.ROOT, "gen"))
    import ldr_translate
    try:
        ok, out = ctx.coq_obligation("Gen_ldr", ldr_translate.emit(lib.SRC), n_obligations=2)
        if ok:
            ctx.trusted.append("Gen_ldr (split_template_path source = model): " + " ".join(out.split()))
    except ldr_translate.Untranslatable as e:
        ctx.obligations += 2
        ctx.broken.append(f"translator gen/ldr_translate.py: split_template_path left the translatable vocabulary: {e}")
    # translator tie for FileSystemLoader.get_source, ChoiceLoader.get_source / load, PrefixLoader.get_loader / get_source / load
    import ldc_translate
    try:
        ok, out = ctx.coq_obligation("Gen_ldc", ldc_translate.emit(lib.SRC), n_obligations=7)
        if ok:
            ctx.trusted.append("Gen_ldc (FileSystemLoader / ChoiceLoader / PrefixLoader source = model): " + " ".join(out.split()))
    except ldc_translate.Untranslatable as e:
        ctx.obligations += 7
        ctx.broken.append(f"translator gen/ldc_translate.py: loaders.py left the translatable vocabulary: {e}")
    if not _HOOKED[0]:
        sys.addaudithook(_audit)
        _HOOKED[0] = True

    alphabet = ["..", ".", "", "a", "a\\b", "C:", "sub", "é", "secret"] + ctx.size([], ["t2", "outside"])
    names = list(names_exhaustive(alphabet, 4))
    # compatibility look-alikes of '.', '..', '/', '\\' (they become the real thing under NFKC / NFKD normalisation; to
    # split_template_path and to the file system they are ordinary characters)
    # segments padded with blanks: ordinary names to split_template_path and to the file system; '..' after a strip()
    padded = [".. ", " ..", "..\t", "\u00a0..", ". .", " ", "a ", "secret", "sub", "a"]
    names += list(names_exhaustive(padded, 3))
    lookalike = ["\u2025", "\uff0e\uff0e", "\u2024\u2024", "\uff0e", "\ufe52\ufe52", "a\uff3cb", "\uff0fsecret", "\u2025\uff0fsecret",
                 "secret", "sub", "a"]
    names += list(names_exhaustive(lookalike, ctx.size(3, 4)))
    chars = ["/", "\\", ".", ":", "a", "C", "é", "\u2025", "\uff0e", "\uff0f", "\uff3c", "\u2024"]
    rnd_names = ["".join(ctx.rng.choice(chars) for _ in range(ctx.rng.randint(0, 8))) for _ in range(ctx.size(3000, 30000))]
    for n in range(0, 5):
        rnd_names += ["".join(t) for t in itertools.product(["/", "\\", ".", "a"], repeat=n)]

    # ---------------- K-rt 1: split_template_path, both conventions
    cases = [(cv, n) for cv in "pn" for n in names + rnd_names]
    out = ctx.driver("ldr", [f"S {cv} {enc(n)}" for cv, n in cases])
    from markupsafe import Markup

    class StrSub(str):
        pass
    for ci, ((cv, n), m) in enumerate(zip(cases, out)):
        # value kinds: the name as plain str, as a user str subclass, as Markup
        impl = real_split(L, StrSub(n) if ci % 5 == 1 else Markup(n) if ci % 5 == 2 else n, cv)
        ctx.case(sample={"kind": "split", "conv": cv, "name": n, "result": impl} if len(ctx.samples) < 1 and ".." in n else None,
                 key=("split", cv, n) if (".." in n.split("/") or "\\" in n or "" in n.split("/")) else None)
        ctx.count("split_" + ("posix" if cv == "p" else "nt"))
        of = judge_split(n, cv, impl)
        if of:
            ctx.reject({"kind": "split", "conv": cv, "name": n}, f"split_template_path({n!r}) [{cv}]: {of}")
        elif impl != m:
            ctx.model_mismatch("K-rt split_template_path", {"kind": "split", "conv": cv, "name": n}, m, impl, None)
        else:
            ctx.validated()

    # ---------------- hypothesis probe: upper()
    bad_up = [hex(c) for c in range(128, 0x110000) if chr(c).upper() in ("U", "N", "C", "\\", "?")]
    if bad_up:
        ctx.broken.append(f"probe: non-ASCII characters upper-case to U/N/C: {bad_up[:5]}")

    # ---------------- K-rt 2: join + normpath (both), and the containment oracle under the Windows convention
    roots = ["".join(t) for n in range(0, 4) for t in itertools.product(["/", "\\", ".", ":", "a"], repeat=n)]
    roots += ["C:", "C:\\", "C:/", "C:\\t", "c:t", "\\\\s\\sh", "\\\\s\\sh\\t", "//s/sh/t", "\\\\s", "\\\\?\\UNC\\s\\sh",
              "\\\\?\\unc\\s\\sh\\t", "\\\\.\\dev", "\\\\?\\C:\\t", "/srv/t", "/srv/t/", "t/../u", "../t", "//srv", "///srv", "é/t"]
    piece_lists = [[], ["a"], ["a", "b"], ["C:x"], ["C:"], ["é", "a:b"], ["a", "..."], [".a", "b."]]
    unsafe_lists = [["/x"], ["a", "/x", "b"], [".."], ["a", "..", ".."], ["."], [""], ["a\\b"], ["a", "", "b"]]
    jc = [(r, ps) for r in roots for ps in piece_lists + unsafe_lists]
    out = ctx.driver("ldr", [f"J {enc(r)} {len(ps)} " + " ".join(enc(p) for p in ps) for r, ps in jc])
    env0 = jinja2.Environment()
    for (r, ps), m in zip(jc, out):
        j = posixpath.join(r, *ps)
        impl = f"{enc(j)} {enc(posixpath.normpath(j))} {enc(ntpath.normpath(j))}"
        safe_nt = all(p not in ("", ".", "..") and "/" not in p and "\\" not in p for p in ps)
        ctx.case(sample={"kind": "join", "root": r, "pieces": ps, "joined": j, "nt": ntpath.normpath(j)} if r == "\\\\s\\sh\\t" and ps == ["a", "b"] else None,
                 key=("join", r, tuple(ps)) if ps else None)
        ctx.count("join_normpath")
        if impl != m:
            ctx.model_mismatch("K-rt posixpath.join / normpath / ntpath.normpath", {"kind": "join", "root": r, "pieces": ps}, m, impl, None)
        else:
            ctx.validated()
        if safe_nt and ps and nt_degenerate_root(r):
            ctx.count("nt_degenerate_root_skipped")
        elif safe_nt and ps:
            # what the REAL FileSystemLoader would probe under the Windows convention
            probes = []
            fake_path = types.SimpleNamespace(altsep="/", pardir="..", isfile=lambda p: probes.append(p) or False,
                                              normpath=ntpath.normpath)
            ld = jinja2.FileSystemLoader(r)
            old = L.os
            L.os = types.SimpleNamespace(sep="\\", path=fake_path, fspath=os.fspath)
            try:
                try:
                    ld.get_source(env0, "/".join(ps))
                    got = "returned"
                except jinja2.TemplateNotFound:
                    got = "N"
                except Exception as e:  # noqa
                    got = "X:" + type(e).__name__
            finally:
                L.os = old
            ctx.count("nt_probe")
            if got != "N" or probes != [j]:
                ctx.model_mismatch("K-rt FileSystemLoader.get_source (Windows convention, probing)",
                                   {"kind": "ntprobe", "root": r, "pieces": ps}, f"N probes={[j]}", f"{got} probes={probes}", None)
            elif not nt_contained(r, ps, probes[0]):
                ctx.reject({"kind": "ntprobe", "root": r, "pieces": ps, "probe": probes[0], "normpath": ntpath.normpath(probes[0])},
                           f"Windows convention: search path {r!r} + name {'/'.join(ps)!r} is probed at {ntpath.normpath(probes[0])!r}, "
                           f"not under {ntpath.normpath(r)!r}", nt_signature(r, ps))
            else:
                ctx.validated()

    # ---------------- K-rt 3: str.split(delimiter, 1)
    oc = [(d, n) for d in ["/", "::", "", "a", "a/", "//"] for n in ["".join(t) for k in range(0, 5) for t in itertools.product("a/:", repeat=k)]]
    out = ctx.driver("ldr", [f"O {enc(d)} {enc(n)}" for d, n in oc])
    for (d, n), m in zip(oc, out):
        try:
            a, b = n.split(d, 1)
            impl = f"O {enc(a)} {enc(b)}"
        except ValueError:
            impl = "N"
        ctx.case()
        ctx.count("split_once")
        if impl != m:
            ctx.model_mismatch("K-rt str.split(delimiter, 1)", {"kind": "split_once", "delim": d, "name": n}, m, impl, None)
        else:
            ctx.validated()

    # ---------------- K-rt 4: loaders on the sandbox tree
    sb = make_sandbox(ctx)
    sys.path.insert(0, sb + "/pkgs")
    try:
        run_fs(ctx, jinja2, sb, names, rnd_names)
    finally:
        sys.path.remove(sb + "/pkgs")
        for k in [k for k in sys.modules if k == "c28pkg" or k.startswith("c28pkg.")]:
            del sys.modules[k]
        shutil.rmtree(sb, ignore_errors=True)


FS_LOADERS = [
    ("F", ["/t1"]),
    ("F", ["/t1", "/t2"]),
    ("F", ["/t2/", "/t1/sub/../sub", "/nonexistent"]),
    ("K",),
]


def rand_loader(rng, depth):
    k = rng.choice("FFKDDUCX" if depth > 0 else "FKDDU")
    if k == "F":
        return ("F", rng.sample(["/t1", "/t2", "/t1/sub", "/t2/sub/", "/t1/./sub/.."], rng.randint(1, 2)))
    if k == "K":
        return ("K",)
    if k in ("D", "U"):
        pool = ["a", "b", "sub/a", "p/a", "a::b", "../secret", "x/../a", "", "empty"]
        return (k, [(n, rng.choice([0, 0] + list(range(40, 50)))) for n in rng.sample(pool, rng.randint(0, 3))])
    if k == "C":
        return ("C", [rand_loader(rng, depth - 1) for _ in range(rng.randint(0, 3))])
    return ("X", rng.choice(["/", "/", "::", "", "a", "b/"]),
            [(rng.choice(["p", "q", "", "sub", "a", "..", "p/q", "p::q", "/p"]), rand_loader(rng, depth - 1)) for _ in range(rng.randint(0, 3))])


def fs_line(desc, name, cv="p"):
    files = " ".join(f"{enc(p)} {c}" for p, c in FILES.items())
    return f"G {cv} {len(FILES)} {files} {enc_loader(desc)} {enc(name)}"


def check_one(ctx, jinja2, env, sb, desc, loader, name, model_line, how, case=None):
    m = model_line[2:].split(" | S ")[0]
    s = model_line.split(" | S ")[1]
    impl, opens = real_get(jinja2, env, loader, name, sb, how)
    case = case or {"kind": "fs", "loader": desc, "name": name, "how": how}
    ctx.case(sample=dict(case, result=impl) if len(ctx.samples) < 5 and impl.startswith("F") and "/" in name else None,
             key=(how, repr(desc), name) if nontrivial(name, impl) else None)
    ctx.count(f"fs_{how}_{'found' if impl.startswith('F') else 'notfound'}")
    of = judge_fs(sb, desc, name, impl, opens)
    if of:
        ctx.reject(dict(case, impl=impl, opened=opens), f"{how}({name!r}) on {desc}: {of}")
        return
    cmp_impl = impl
    if how == "load" and impl.startswith("F"):
        # Template.filename and content are observable after load; the opened path too
        pass
    if cmp_impl != m:
        ctx.model_mismatch(f"K-rt loaders.{how}", case, m, cmp_impl, None)
    elif m != s:
        ctx.model_mismatch("extracted model vs extracted route spec", case, m, s, None)
    else:
        ctx.validated()


def run_fs(ctx, jinja2, sb, names, rnd_names):
    env = jinja2.Environment()
    # warm up codecs / imports outside the audited window
    jinja2.FileSystemLoader([sb + "/t1"]).get_source(env, "a")
    jinja2.PackageLoader("c28pkg", "templates").get_source(env, "a")
    todo = []
    for desc in FS_LOADERS:
        ld = build_real(jinja2, sb, desc)
        for n in names:
            todo.append((desc, ld, n, "get_source"))
        for n in rnd_names[:ctx.size(1500, 10000)]:
            todo.append((desc, ld, n, "get_source"))
    nm_pool = ["a", "b", "sub/a", "p/a", "q/a", "p/sub/a", "p::a", "a::b", "../secret", "p/../secret", "p//a", "/a", "p/", "p",
               "", "sub/../a", "q/p/a", "p/p/a", "b/a", "a/a", "p/..", "sub/é", "p/C:", "..::a", "../a", "empty", "p/empty", "sub/empty"]
    for _ in range(ctx.size(1500, 15000)):
        desc = rand_loader(ctx.rng, 3)
        ld = build_real(jinja2, sb, desc)
        for n in ctx.rng.sample(nm_pool, 4):
            todo.append((desc, ld, n, "get_source"))
            todo.append((desc, ld, n, "load"))
    out = ctx.driver("ldr", [fs_line(d, n) for d, _, n, _ in todo])
    for (desc, ld, n, how), ml in zip(todo, out):
        check_one(ctx, jinja2, env, sb, desc, ld, n, ml, how)
    run_mut(ctx, jinja2, sb)
    run_listed(ctx, jinja2, sb)
    run_more(ctx, jinja2, sb, names)


# ------------------------------------------------------------------------------------------- the other loaders and options
ZIP_FILES = {"c28zip/__init__.py": "", "c28zip/templates/a": "id:31", "c28zip/templates/sub/a": "id:32", "c28zip/templates/é": "id:33",
             "c28zip/secret": "id:99", "secret": "id:98", "c28zip/templates2/a": "id:97"}


def run_more(ctx, jinja2, sb, names):
    """PackageLoader on a zip, ModuleLoader (no source access), list_templates of every loader, followlinks, encoding"""
    import zipfile
    env = jinja2.Environment()
    zpath = sb + "/zips/c28zip.zip"
    os.makedirs(sb + "/zips")
    with zipfile.ZipFile(zpath, "w") as z:
        for n, c in ZIP_FILES.items():
            z.writestr(n, c)
    sys.path.insert(0, zpath)
    try:
        zl = jinja2.PackageLoader("c28zip", "templates")
        table = {n[len("c28zip/templates/"):]: c[3:] for n, c in ZIP_FILES.items() if n.startswith("c28zip/templates/")}
        short = [n for n in names if n.count("/") <= 2]
        for n in short:
            _AUDIT["opens"], _AUDIT["on"] = [], True
            try:
                src, fn, up = zl.get_source(env, n)
                impl = src[3:] if src.startswith("id:") else "?" + src[:8]
            except jinja2.TemplateNotFound:
                impl = "N"
            except Exception as e:  # noqa
                impl = "X:" + type(e).__name__
            finally:
                _AUDIT["on"] = False
            segs = n.split("/")
            want = "N" if ".." in segs else table.get("/".join(x for x in segs if x not in ("", ".")), "N")
            outside = [p for p in _AUDIT["opens"] if os.path.realpath(p) != os.path.realpath(zpath) and not os.path.realpath(p).startswith(STDLIB)]
            case = {"kind": "zip", "name": n}
            ctx.case(key=("zip", n) if (".." in segs or impl != "N") else None)
            ctx.count("zip_package_loader")
            if impl != want or outside:
                ctx.reject(dict(case, impl=impl), f"PackageLoader (zip) get_source({n!r}): got {impl}, the templates directory of the archive has {want}; opened {outside}")
            else:
                ctx.validated()
        lst = zl.list_templates()
        if sorted(lst) != sorted(table):
            ctx.reject({"kind": "zip-list"}, f"PackageLoader (zip) list_templates() = {lst}, the templates directory holds {sorted(table)}")
    finally:
        sys.path.remove(zpath)
        for k in [k for k in sys.modules if k == "c28zip" or k.startswith("c28zip.")]:
            del sys.modules[k]
        sys.path_importer_cache.pop(zpath, None)

    # list_templates of the file-system and package loaders = exactly the files under the search directories, each resolving
    def expected_listing(dirs):
        out = {}
        for d in dirs:
            base = "/" + "/".join(c for c in posixpath.normpath(d).split("/") if c)
            for mp, cid in FILES.items():
                if mp.startswith(base + "/"):
                    out.setdefault(mp[len(base) + 1:], cid)
        return out
    for desc in FS_LOADERS + [("F", ["/t1"], "latin-1")]:
        ld = build_real(jinja2, sb, desc)
        want = expected_listing(search_dirs(desc))
        got = ld.list_templates()
        ctx.case(key=("listing", repr(desc)))
        ctx.count("list_templates")
        bad = None
        if sorted(got) != sorted(want):
            bad = f"list_templates() = {sorted(got)}, the search directories hold {sorted(want)}"
        else:
            for n in got:
                impl, opens = real_get(jinja2, env, ld, n, sb, "get_source")
                if not impl.endswith(" " + str(want[n])) or judge_fs(sb, desc[:2], n, impl, opens):
                    bad = f"listed name {n!r} resolves to {impl}"
        if bad:
            ctx.reject({"kind": "listing", "loader": desc}, f"{desc}: {bad}")
        else:
            ctx.validated()
    # the encoding option does not change which file is read
    enc_ld = build_real(jinja2, sb, ("F", ["/t1", "/t2"], "latin-1"))
    for n in names[::37]:
        impl, opens = real_get(jinja2, env, enc_ld, n, sb, "get_source")
        of = judge_fs(sb, ("F", ["/t1", "/t2"]), n, impl, opens)
        ctx.case()
        ctx.count("encoding_option")
        if of:
            ctx.reject({"kind": "fs", "loader": ["F", ["/t1", "/t2"], "latin-1"], "name": n, "how": "get_source"}, of)
        else:
            ctx.validated()
    # value kinds of the constructor arguments: os.PathLike search paths, equivalent spellings of package_path
    import pathlib
    variants = [("FileSystemLoader(Path)", jinja2.FileSystemLoader(pathlib.Path(sb + "/t1")), ("F", ["/t1"])),
                ("FileSystemLoader([Path, str])", jinja2.FileSystemLoader([pathlib.Path(sb + "/t1"), sb + "/t2"]), ("F", ["/t1", "/t2"]))]
    for pp in ("./templates", "templates/", "templates/.", "templates//"):
        try:
            variants.append((f"PackageLoader(package_path={pp!r})", jinja2.PackageLoader("c28pkg", pp), ("K",)))
        except Exception as e:  # noqa
            ctx.reject({"kind": "ctor", "package_path": pp}, f"PackageLoader('c28pkg', {pp!r}) raised {type(e).__name__}: {e}")
    for label, ld, desc in variants:
        for n in names[::53]:
            impl, opens = real_get(jinja2, env, ld, n, sb, "get_source")
            of = judge_fs(sb, desc, n, impl, opens)
            ctx.case()
            ctx.count("constructor_value_kinds")
            if of:
                ctx.reject({"kind": "ctor", "loader": label, "name": n}, f"{label}: {of}")
            else:
                ctx.validated()
        want = expected_listing(search_dirs(desc))
        if sorted(ld.list_templates()) != sorted(want):
            ctx.reject({"kind": "ctor", "loader": label}, f"{label}: list_templates() = {sorted(ld.list_templates())}, expected {sorted(want)}")
    # the empty search path (= current directory) and names a shell would expand: '~', '~user', '$HOME', '%TEMP%'
    home = os.path.join(os.path.dirname(sb), "home")
    os.makedirs(home, exist_ok=True)
    for fn in ("secret", "a"):
        open(os.path.join(home, fn), "w").write("id:89")
    old_cwd, old_home = os.getcwd(), os.environ.get("HOME")
    os.chdir(sb)
    os.environ["HOME"] = home
    try:
        tilde = ["~", "~root", "~nobody", "$HOME", "t1", "a", "secret", "..", ""]
        tnames = list(names_exhaustive(tilde, 3))
        descs = [(("F", [""]), ""), (("F", ["", "/t2"]), ""), (("C", [("D", []), ("F", [""])]), ""), (("X", "/", [("p", ("F", [""]))]), "p/")]
        todo = [(desc, build_real(jinja2, sb, desc), pre + n) for desc, pre in descs for n in tnames]
        out = ctx.driver("ldr", [fs_line(dsc, n) for dsc, _, n in todo])
        for (dsc, ld, n), ml in zip(todo, out):
            check_one(ctx, jinja2, env, sb, dsc, ld, n, ml, "get_source")
    finally:
        os.chdir(old_cwd)
        if old_home is None:
            os.environ.pop("HOME", None)
        else:
            os.environ["HOME"] = old_home
        shutil.rmtree(home, ignore_errors=True)
    # followlinks only affects list_templates; a listed name must resolve (symbolic links are outside M and outside the
    # containment oracle: reading through a link placed inside a search directory is the documented behaviour)
    os.makedirs(sb + "/t3/real")
    open(sb + "/t3/real/x", "w").write("id:71")
    os.symlink("../outside", sb + "/t3/ldir")
    os.symlink("../secret", sb + "/t3/lfile")
    for follow in (False, True):
        ld = jinja2.FileSystemLoader(sb + "/t3", followlinks=follow)
        got = sorted(ld.list_templates())
        want = sorted(["real/x", "lfile"] + (["ldir/secret", "ldir/a"] if follow else []))
        ctx.case(key=("followlinks", follow))
        ctx.count("followlinks")
        unresolved = []
        for n in got:
            try:
                ld.get_source(env, n)
            except jinja2.TemplateNotFound:
                unresolved.append(n)
        if got != want or unresolved:
            ctx.reject({"kind": "followlinks", "followlinks": follow}, f"followlinks={follow}: list_templates() = {got} (expected {want}); unresolved {unresolved}")
        else:
            ctx.validated()

    # ModuleLoader: precompiled templates, no source access; TemplateNotFound exactly for names that were not compiled
    cdir = sb + "/compiled"
    srcs = {"a": "id:81", "sub/a": "id:82", "é": "id:83", "a\\b": "id:84"}
    jinja2.Environment(loader=jinja2.DictLoader(srcs)).compile_templates(cdir, zip=None, log_function=lambda m: None)
    ml = jinja2.ModuleLoader(cdir)
    try:
        ml.get_source(env, "a")
        ctx.reject({"kind": "module"}, "ModuleLoader.get_source returned although has_source_access is False")
    except RuntimeError:
        pass
    except Exception as e:  # noqa
        ctx.reject({"kind": "module"}, f"ModuleLoader.get_source raised {type(e).__name__} instead of RuntimeError")
    if ml.has_source_access is not False:
        ctx.reject({"kind": "module"}, "ModuleLoader.has_source_access is not False")
    # a member loader may report TemplateNotFound under ANOTHER name than the one asked for (ModuleLoader: the normal form;
    # PrefixLoader: the full name; a custom loader: anything): ChoiceLoader must still move on to the next member
    class Renaming(jinja2.BaseLoader):
        def get_source(self, environment, template):
            raise jinja2.TemplateNotFound("renamed/" + template)
    later = {"./zz": "id:85", "zz": "id:86", "/a/./b": "id:87", "a": "id:88"}
    for label, first in (("ModuleLoader", ml), ("PrefixLoader", jinja2.PrefixLoader({"p": jinja2.DictLoader({})})), ("custom", Renaming())):
        ch = jinja2.ChoiceLoader([first, jinja2.DictLoader(later)])
        for n in ("./zz", "zz", "/a/./b", "p/x", "nothing", "a"):
            for how in ("load", "get_source"):
                if how == "get_source" and label == "ModuleLoader":
                    continue                      # no source access: RuntimeError by design
                try:
                    got = (ch.load(env, n).render() if how == "load" else ch.get_source(env, n)[0])[3:]
                except jinja2.TemplateNotFound:
                    got = "N"
                except Exception as e:  # noqa
                    got = "X:" + type(e).__name__
                want = ("81" if n == "a" and label == "ModuleLoader" else later[n][3:]) if n in later else "N"
                ctx.case(key=("renaming", label, n, how))
                ctx.count("choice_member_renames_notfound")
                if got != want:
                    ctx.reject({"kind": "renaming", "first": label, "name": n, "how": how},
                               f"ChoiceLoader([{label}, DictLoader]).{how}({n!r}): got {got}, the first member that has it holds {want}")
                else:
                    ctx.validated()
    for n in [x for x in names if x.count("/") <= 2][::3]:
        _AUDIT["opens"], _AUDIT["on"] = [], True
        try:
            impl = ml.load(env, n).render()[3:]
        except jinja2.TemplateNotFound:
            impl = "N"
        except Exception as e:  # noqa
            impl = "X:" + type(e).__name__
        finally:
            _AUDIT["on"] = False
        segs = n.split("/")
        normal = None if ".." in segs else "/".join(x for x in segs if x not in ("", "."))
        want = srcs[n][3:] if n in srcs else (srcs[normal][3:] if normal in srcs else "N")
        outside = [p for p in _AUDIT["opens"] if not os.path.realpath(p).startswith(os.path.realpath(cdir) + "/") and not os.path.realpath(p).startswith(STDLIB)]
        ctx.case(key=("module", n) if impl != "N" or ".." in segs else None)
        ctx.count("module_loader")
        if impl != want or outside:
            ctx.reject({"kind": "module", "name": n, "impl": impl}, f"ModuleLoader.load({n!r}): got {impl}, compiled templates give {want}; opened {outside}")
        else:
            ctx.validated()


# ------------------------------------------------------------------------------------------- "has it" as list_templates sees it
LISTED_SIG = "C28:prefix-containing-delimiter-unreachable"


def has_delim_prefix(desc):
    if desc[0] == "X":
        return any((desc[1] != "" and desc[1] in p) or has_delim_prefix(l) for p, l in desc[2])
    if desc[0] == "C":
        return any(has_delim_prefix(x) for x in desc[1])
    return False


def run_listed(ctx, jinja2, sb):
    """every name a composed loader LISTS must resolve (compositions over DictLoader leaves; prefixes with and without the
    delimiter inside)"""
    env = jinja2.Environment()
    fixed = [("X", "/", [("a/b", ("D", [("x", 61)]))]),
             ("X", "/", [("a", ("D", [("b/x", 62)])), ("a/b", ("D", [("x", 63)]))]),
             ("X", "::", [("p::q", ("D", [("x", 64)]))]),
             ("C", [("D", []), ("X", "/", [("p/q", ("D", [("x", 65)]))])]),
             ("X", "/", [("p", ("X", "/", [("q", ("D", [("x", 66)]))]))])]

    def only_dicts(rng, depth):
        k = rng.choice("DDCX" if depth > 0 else "D")
        if k == "D":
            return ("D", [(n, 70 + rng.randint(0, 9)) for n in rng.sample(["a", "b", "sub/a", "x"], rng.randint(0, 3))])
        if k == "C":
            return ("C", [only_dicts(rng, depth - 1) for _ in range(rng.randint(1, 3))])
        d = rng.choice(["/", "::", "-"])
        return ("X", d, [(p, only_dicts(rng, depth - 1)) for p in rng.sample(["p", "q", "p" + d + "q", "sub"], rng.randint(1, 3))])

    descs = fixed + [only_dicts(ctx.rng, 3) for _ in range(ctx.size(300, 3000))]
    for desc in descs:
        loader = build_real(jinja2, sb, desc)
        try:
            listed = loader.list_templates()
        except Exception as e:  # noqa
            ctx.count("listed_not_listable")
            continue
        for name in listed:
            case = {"kind": "listed", "loader": desc, "name": name}
            ctx.case(key=("listed", repr(desc), name))
            ctx.count("listed_name")
            try:
                loader.get_source(env, name)
                ctx.validated()
            except jinja2.TemplateNotFound:
                ctx.reject(case, f"list_templates() of {desc} lists {name!r} but get_source raises TemplateNotFound for it",
                           LISTED_SIG if has_delim_prefix(desc) else None)
            except Exception as e:  # noqa
                ctx.reject(case, f"get_source({name!r}) raised {type(e).__name__} on a listed name")


# ------------------------------------------------------------------------------------------- histories: loader contents change
MUT_COMPS = [
    (("C", [("D", []), ("D", [("a", 41)])]), "a"),
    (("C", [("D", []), ("F", ["/t1"])]), "a"),
    (("X", "/", [("p", ("C", [("D", []), ("D", [("a", 42)])]))]), "p/a"),
    (("C", [("C", [("D", []), ("D", [("a", 43)])]), ("D", [("a", 44), ("b", 45)])]), "a"),
    (("C", [("D", [("a", 46)]), ("X", "::", [("", ("D", [("a", 47)]))])]), "a"),
    # an EMPTY template (falsy source) in an earlier FunctionLoader / DictLoader member must win over a later member
    (("C", [("U", [("a", 0)]), ("D", [("a", 48)])]), "a"),
    (("X", "/", [("p", ("C", [("D", []), ("U", [("a", 0), ("ab", 0)])]))]), "p/a"),
]
MUT_OPS = ["g", "l", "+0", "-0", "+1", "-1"]     # get_source / load of the name; add / delete name 'a' in Dict leaf 0 / 1


def dict_leaves(desc, out=None):
    out = [] if out is None else out
    if desc[0] == "D":
        out.append(desc)
    elif desc[0] == "C":
        for x in desc[1]:
            dict_leaves(x, out)
    elif desc[0] == "X":
        for _, l in desc[2]:
            dict_leaves(l, out)
    return out


def thaw(desc):
    """deep copy with lists (mutable)"""
    if desc[0] in ("D", "U"):
        return [desc[0], [list(x) for x in desc[1]]]
    if desc[0] == "C":
        return ["C", [thaw(x) for x in desc[1]]]
    if desc[0] == "X":
        return ["X", desc[1], [[p, thaw(l)] for p, l in desc[2]]]
    return list(desc)


def mut_apply_desc(desc, op):
    leaves = dict_leaves(desc)
    i = int(op[1])
    if i >= len(leaves):
        return
    entries = leaves[i][1]
    entries[:] = [e for e in entries if e[0] != "a"]
    if op[0] == "+":
        entries.append(["a", 50 + i])


def run_history(ctx, jinja2, env, sb, ci, ops, lines=None):
    """one history on one composition: the real loader object lives through the whole history, the model is the
    stateless get_source on the description as it is at each lookup"""
    comp, name = MUT_COMPS[ci]
    desc = thaw(comp)
    steps = []
    for o in ops:
        if o in ("g", "l"):
            steps.append((o, thaw(desc)))
        else:
            mut_apply_desc(desc, o)
            steps.append((o, None))
    if lines is None:
        return [fs_line(snap, name) for o, snap in steps if snap is not None]
    reg = []
    loader = build_real(jinja2, sb, thaw(comp), reg)
    li = 0
    for si, (o, snap) in enumerate(steps):
        if snap is None:
            i = int(o[1])
            if i < len(reg):
                reg[i].pop("a", None)
                if o[0] == "+":
                    reg[i]["a"] = body(50 + i)
            continue
        check_one(ctx, jinja2, env, sb, snap, loader, name, lines[li], "get_source" if o == "g" else "load",
                  case={"kind": "mut", "composition": ci, "ops": list(ops), "step": si, "name": name})
        li += 1


def run_mut(ctx, jinja2, sb, only=None):
    env = jinja2.Environment(cache_size=0)
    L = ctx.size(4, 5)
    hist = [(ci, list(h)) for ci in range(len(MUT_COMPS)) for n in range(1, L + 1) for h in itertools.product(MUT_OPS, repeat=n)
            if h[-1] in ("g", "l")]
    if only is not None:
        hist = [(only["composition"], list(only["ops"]))]
    all_lines, spans = [], []
    for ci, ops in hist:
        ls = run_history(ctx, jinja2, env, sb, ci, ops)
        spans.append((len(all_lines), len(ls)))
        all_lines += ls
    out = ctx.driver("ldr", all_lines) if all_lines else []
    for (ci, ops), (a, n) in zip(hist, spans):
        run_history(ctx, jinja2, env, sb, ci, ops, out[a:a + n])


def replay(ctx, data):
    jinja2 = lib.use_repo_jinja()
    import jinja2.loaders as L
    case = data.get("case")
    if data.get("kind") != "failing-input" or case is None:
        print("replay: this file names a broken theorem/correspondence, not an input:", data.get("broken"))
        return run(ctx)
    if not _HOOKED[0]:
        sys.addaudithook(_audit)
        _HOOKED[0] = True
    k = case["kind"]
    if k == "split":
        impl = real_split(L, case["name"], case["conv"])
        m = ctx.driver("ldr", [f"S {case['conv']} {enc(case['name'])}"])[0]
        of = judge_split(case["name"], case["conv"], impl)
        print("model:", m, "\nimpl :", impl, "\noracle:", of)
        if of:
            ctx.reject(case, of)
    elif k == "ntprobe":
        j = posixpath.join(case["root"], *case["pieces"])
        ok = nt_contained(case["root"], case["pieces"], j)
        print("joined:", repr(j), "ntpath.normpath:", repr(ntpath.normpath(j)), "contained:", ok)
        if not ok:
            ctx.reject(case, "Windows convention: probed path not under the search path", nt_signature(case["root"], case["pieces"]))
    elif k == "fs":
        desc = case["loader"]   # lists work like the tuples of the generator
        sb = make_sandbox(ctx)
        sys.path.insert(0, sb + "/pkgs")
        old_cwd, old_home = os.getcwd(), os.environ.get("HOME")
        home = os.path.join(os.path.dirname(sb), "home")
        os.makedirs(home, exist_ok=True)
        for fn in ("secret", "a"):
            open(os.path.join(home, fn), "w").write("id:89")
        os.chdir(sb)
        os.environ["HOME"] = home
        try:
            env = jinja2.Environment()
            ld = build_real(jinja2, sb, desc)
            ml = ctx.driver("ldr", [fs_line(desc, case["name"])])[0]
            impl, opens = real_get(jinja2, env, ld, case["name"], sb, case.get("how", "get_source"))
            of = judge_fs(sb, desc, case["name"], impl, opens)
            print("model:", ml, "\nimpl :", impl, "opened:", opens, "\noracle:", of)
            if of:
                ctx.reject(case, of)
        finally:
            os.chdir(old_cwd)
            if old_home is None:
                os.environ.pop("HOME", None)
            else:
                os.environ["HOME"] = old_home
            shutil.rmtree(home, ignore_errors=True)
            sys.path.remove(sb + "/pkgs")
            for k2 in [k2 for k2 in sys.modules if k2 == "c28pkg" or k2.startswith("c28pkg.")]:
                del sys.modules[k2]
            shutil.rmtree(sb, ignore_errors=True)
    elif k == "listed":
        sb = make_sandbox(ctx)
        try:
            loader = build_real(jinja2, sb, case["loader"])
            listed = loader.list_templates()
            try:
                loader.get_source(jinja2.Environment(), case["name"])
                print("listed:", case["name"] in listed, "get_source: found")
            except jinja2.TemplateNotFound:
                print("listed:", case["name"] in listed, "get_source: TemplateNotFound")
                ctx.reject(case, "a listed name does not resolve", LISTED_SIG if has_delim_prefix(case["loader"]) else None)
        finally:
            shutil.rmtree(sb, ignore_errors=True)
    elif k == "mut":
        sb = make_sandbox(ctx)
        sys.path.insert(0, sb + "/pkgs")
        try:
            run_mut(ctx, jinja2, sb, only=case)
            print("violations on this history:", [(v[0].get("step"), v[1][:160]) for v in ctx.violations] or None,
                  "mismatches:", ctx.mismatches[:3] or None)
        finally:
            sys.path.remove(sb + "/pkgs")
            shutil.rmtree(sb, ignore_errors=True)
    else:
        print("replay: unknown case kind", k)
