import argparse
import importlib
import json
import os
import sys
import traceback

from . import lib


def main():
    ap = argparse.ArgumentParser()
    ap.add_argument("prop")
    ap.add_argument("--tier", default=os.environ.get("VERIF_TIER", "quick"))
    ap.add_argument("--replay", default=None)
    ap.add_argument("--seed", type=int, default=int(os.environ.get("VERIF_SEED", "20260921")))
    a = ap.parse_args()
    tier = a.tier if a.tier in ("quick", "thorough") else "quick"
    lib.ensure_static_build()
    lib.use_repo_jinja_safe = True
    ctx = lib.Ctx(a.prop, tier, a.seed, a.replay)
    mod = importlib.import_module("harness." + a.prop.lower())
    try:
        if a.replay:
            data = json.load(open(a.replay))
            mod.replay(ctx, data)
        else:
            mod.run(ctx)
    except Exception:
        # a crash of the machinery itself is not evidence about the property: report it as
        # a broken check (non-zero exit, no VIOLATION line is fabricated)
        traceback.print_exc()
        print(f"[{a.prop}] CHECK-ERROR: the check itself failed")
        sys.exit(2)
    sys.exit(ctx.finish())


if __name__ == "__main__":
    main()
