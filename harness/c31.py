"""C31 — precompiled templates render exactly like templates compiled from source.

proof : Properties/C31.v (defer_init_equiv, defer_needs_install, module_key_injective)
tie   : K-rt  extracted Pre.probe_case == exec of real generated code (direct / deferred) in a namespace
              with / without `environment`, with / without Template._from_namespace, then a call;
        K-gen env.compile(src, raw=True, defer_init=True) vs False differ exactly by the erased
              `environment=environment` default argument of the module-level functions (ast);
oracle: template sets of the C04 and C05 generators compiled with compile_templates (folder, zip stored,
        zip deflated) and loaded through ModuleLoader render what source loading renders (same text or
        same exception class); module keys of distinct names are distinct.
"""
import ast
import os
import shutil

from . import lib
from . import inh_gen as HG
from . import imp_gen as IG

RULE = ("K-rt: all 18 combinations (defer, namespace environment at def time in {none, E1, E2}, environment installed "
        "by _from_namespace in {none, E1, E2}); K-gen: every template source of the generated sets; oracle: generated "
        "inheritance hierarchies (C04 generator) and include/import sets (C05 generator) x {folder, stored zip, "
        "deflated zip}, from a DictLoader and from files through a FileSystemLoader with the template names in "
        "include / import / extends tags spelled x, ./x, /x, .//x; two-environment histories (different filter / test / "
        "undefined type; one ModuleLoader object shared or one per environment; interleaved loads and renders; Template "
        "objects of one environment used by the other through extends / include / import); sets with identical "
        "sources under different names in an environment with per-name autoescape and an overridden join_path; distinct = (sources, data, mode); non-trivial = at least two templates take part and the "
        "source render produces output.")


def strip_env_default(tree):
    """remove the trailing `environment=environment` parameter from module-level functions; returns how many"""
    n = 0
    for node in tree.body:
        if isinstance(node, (ast.FunctionDef, ast.AsyncFunctionDef)):
            a = node.args
            if a.args and a.args[-1].arg == "environment" and a.defaults and isinstance(a.defaults[-1], ast.Name) \
                    and a.defaults[-1].id == "environment":
                a.args.pop()
                a.defaults.pop()
                n += 1
    return n


def kgen(ctx, env, name, src):
    try:
        direct = env.compile(src, name, name, raw=True, defer_init=False)
        deferred = env.compile(src, name, name, raw=True, defer_init=True)
    except Exception as e:  # noqa
        return f"compile raised {type(e).__name__}"
    td, tf = ast.parse(direct), ast.parse(deferred)
    nfun = sum(isinstance(n, (ast.FunctionDef, ast.AsyncFunctionDef)) for n in td.body)
    if strip_env_default(tf) != 0:
        return "deferred code still binds environment as a default argument"
    if strip_env_default(td) != nfun:
        return "direct code has a module-level function without the environment default argument"
    if ast.dump(td) != ast.dump(tf):
        return "direct and deferred code differ by more than the erased default argument"
    return None


def probe_real(jinja2, defer, ns_at, inst, envs):
    from jinja2.runtime import new_context
    code = envs[1].compile("{{ x|which }}", "p", "p", raw=True, defer_init=defer)
    ns = {"__file__": "p", "__name__": "p_mod"}
    if ns_at:
        ns["environment"] = envs[ns_at]
    try:
        exec(compile(code, "p", "exec"), ns)
    except NameError:
        return "N"
    except Exception as e:  # noqa
        return "X:def:" + type(e).__name__
    if inst:
        envs[inst].template_class._from_namespace(envs[inst], ns, {})
    try:
        return "D" + "".join(ns["root"](new_context(envs[1], "p", {})))
    except NameError:
        return "E"
    except Exception as e:  # noqa
        return "X:call:" + type(e).__name__


def run(ctx):
    jinja2 = lib.use_repo_jinja()
    from jinja2.loaders import ModuleLoader
    ctx.extra["rule"] = RULE
    ctx.assumptions += [
        "sha1 hex digests of the generated template names are collision free (hypothesis of C31_module_key_injective; "
        "checked on the names used)",
        "the body of a generated function is the same text in both modes (K-gen) and reads the environment only "
        "through the name `environment`",
        "import machinery, zipimport, marshal / .pyc handling are CPython's (level P)",
        "every template of the set compiles (hypothesis; probed: a set with a broken template is rejected by "
        "compile_templates(ignore_errors=False) and, with the default ignore_errors=True, the skipped template is reported "
        "through log_function and is TemplateNotFound afterwards - so `include 'broken' ignore missing` renders nothing "
        "where source loading raises TemplateSyntaxError)",
        "every ModuleLoader.load execs the module anew (own namespace per loaded Template): exercised by the two-environment histories, not proved",
    ]
    ctx.proof("C31")

    # ---------------- K-rt: the model of the binding
    envs = {}
    for k in (1, 2):
        envs[k] = jinja2.Environment()
        envs[k].filters["which"] = (lambda kk: (lambda v: str(kk)))(k)
    cases = [(d, a, i) for d in (False, True) for a in (0, 1, 2) for i in (0, 1, 2)]
    out = ctx.driver("pre", [f"{int(d)} {a or '-'} {i or '-'}" for d, a, i in cases])
    for (d, a, i), m in zip(cases, out):
        r = probe_real(jinja2, d, a, i, envs)
        ctx.case(sample={"defer": d, "namespace_at_def": a, "installed": i, "result": r}, key=("probe", d, a, i))
        ctx.count("probe")
        if r != m:
            of = None
            if d and i and r != f"D{i}":
                of = f"deferred module with environment {i} installed ran with {r}"
            elif not d and a and r != f"D{a}":
                of = f"direct module defined with environment {a} ran with {r}"
            ctx.model_mismatch("K-rt environment binding", {"defer": d, "ns": a, "installed": i}, m, r, of)
        else:
            ctx.validated()

    # ---------------- generated sets
    sets = []
    hg = HG.HGen(ctx.rng)
    for _ in range(ctx.size(180, 1200)):
        h = hg.hierarchy()
        sets.append(("inh", h, HG.sources(h)))
    ig = IG.IGen(ctx.rng, own_globals=0.1, shadow=0.05)
    for _ in range(ctx.size(180, 1200)):
        ts = ig.tset()
        sets.append(("imp", ts, IG.sources(ts)))
    scratch_root = os.path.join(lib.BUILD, f"c31_scratch_{os.getpid()}")
    os.makedirs(scratch_root, exist_ok=True)
    keys = {}
    try:
        for idx, (kind, s, srcs) in enumerate(sets):
            if idx % 3 == 1:
                # non-ASCII identifiers (block, macro, alias, variable names in several scripts) and non-ASCII text:
                # the generated module has to carry them through the file / zip and the import system
                srcs = HG.unicodify(srcs, text="ñ€✓ü")
                ctx.count("unicode-identifiers")
            src_env = jinja2.Environment(loader=jinja2.DictLoader(srcs))
            for n, src in srcs.items():
                w = kgen(ctx, src_env, n, src)
                ctx.case()
                ctx.count("kgen")
                if w:
                    ctx.model_mismatch("K-gen defer_init erases exactly the default argument", {"name": n, "source": src},
                                       "equal up to the default argument", w, None)
                else:
                    ctx.validated()
                k = ModuleLoader.get_template_key(n)
                if keys.setdefault(k, n) != n:
                    ctx.reject({"names": [keys[k], n]}, "two template names share a module key", None)
                if ModuleLoader.get_module_filename(n) != k + ".py":
                    ctx.model_mismatch("K-rt module file name", {"name": n}, k + ".py", ModuleLoader.get_module_filename(n),
                                       None)
            # configuration axis (the compiling and the loading environment are configured alike), sampled
            ek = HG.ENV_KINDS[(idx // 4) % len(HG.ENV_KINDS)] if idx % 4 == 2 else "plain"
            mods = kind == "imp" and idx % 3 == 0
            comp_env = (HG.make_env(jinja2, jinja2.DictLoader(srcs), ek) if kind == "inh"
                        else IG.make_env(jinja2, s, srcs, kind=ek))
            ref = render(jinja2, kind, s, srcs, jinja2.DictLoader(srcs), ek, mods)
            ctx.count("env:" + ek)
            for mode in (None, "stored", "deflated", "split"):
                target = os.path.join(scratch_root, f"s{idx}_{mode or 'dir'}" + (".zip" if mode in ("stored", "deflated") else ""))
                target2 = target + "_b.zip"
                try:
                    try:
                        if mode == "split":
                            # the set divided over two archives (filter_func), one a folder and one a zip, found through
                            # ONE ModuleLoader with several paths, in either order
                            if idx % 2:
                                continue
                            names = sorted(srcs)
                            first = set(names[::2])
                            comp_env.compile_templates(target, zip=None, log_function=lambda x: None, ignore_errors=False,
                                                       filter_func=lambda n: n in first)
                            comp_env.compile_templates(target2, zip="deflated", log_function=lambda x: None,
                                                       ignore_errors=False, filter_func=lambda n: n not in first)
                            paths = [target, target2] if idx % 4 else [target2, target]
                            got = render(jinja2, kind, s, srcs, ModuleLoader(paths), ek, mods)
                        else:
                            comp_env.compile_templates(target, zip=mode, log_function=lambda x: None, ignore_errors=False)
                            got = render(jinja2, kind, s, srcs, ModuleLoader(target), ek, mods)
                    except Exception as e:  # noqa
                        got = "X:compile_templates/ModuleLoader:" + type(e).__name__ + ":" + str(e)[:80]
                finally:
                    for tg in (target, target2):
                        if os.path.isdir(tg):
                            shutil.rmtree(tg, ignore_errors=True)
                        elif os.path.exists(tg):
                            os.unlink(tg)
                nontriv = len(srcs) >= 2 and ref.startswith("O ") and len(ref) > 6
                case = {"kind": kind, "sources": srcs, "set": s, "zip": mode, "env": ek, "modules": mods}
                ctx.case(sample={"sources": srcs, "zip": mode, "render": ref} if nontriv else None,
                         key=(idx, mode) if nontriv else None)
                ctx.count("zip:" + str(mode))
                ctx.count("result:" + ("ok" if ref.startswith("O ") else ref[:12]))
                if got != ref:
                    ctx.reject(case, f"precompiled ({mode or 'folder'}) renders {got[:120]} but source loading renders "
                                     f"{ref[:120]}", None)
                else:
                    ctx.validated()
    finally:
        shutil.rmtree(scratch_root, ignore_errors=True)
    fs_stream(ctx, jinja2, ModuleLoader)
    multi_env_stream(ctx, jinja2, ModuleLoader)
    broken_probe(ctx, jinja2, ModuleLoader)
    non_normal_probe(ctx, jinja2, ModuleLoader)
    literal_names_stream(ctx, jinja2, ModuleLoader)
    bytecode_probe(ctx)
    prefix_loader_probe(ctx, jinja2, ModuleLoader)
    same_source_stream(ctx, jinja2, ModuleLoader)


SPELLINGS = ["%s", "./%s", "/%s", ".//%s", "%s", "%s"]


def respell(rng, src, names):
    """write the template names inside include / import / from / extends tags the way people do with a
    FileSystemLoader: './x', '/x', './/x' all mean x there (split_template_path drops '.' and empty parts)"""
    import re

    def sub(m):
        return m.group(1) + repr(rng.choice(SPELLINGS) % m.group(2))
    pat = r"((?:include|import|from|extends)\s+\[?\s*)'(" + "|".join(re.escape(n) for n in names) + r")'"
    return re.sub(pat, sub, src)


def fs_stream(ctx, jinja2, ModuleLoader):
    """source loading through a FileSystemLoader (which normalises names) against the module loader"""
    hg = HG.HGen(ctx.rng)
    ig = IG.IGen(ctx.rng, own_globals=0.0, shadow=0.0)
    root = os.path.join(lib.BUILD, f"c31_fs_{os.getpid()}")
    try:
        for idx in range(ctx.size(120, 1200)):
            if idx % 2:
                s = hg.hierarchy()
                kind, srcs = "inh", HG.sources(s)
            else:
                s = ig.tset()
                kind, srcs = "imp", IG.sources(s)
            names = list(srcs)
            # every template also uses an ENVIRONMENT global (range): a template reached through a non-normal spelling must
            # still be created with the environment's globals
            srcs = {n: respell(ctx.rng, src, names) + "{{ range(2)|list|length }}" for n, src in srcs.items()}
            sdir = os.path.join(root, f"s{idx}", "src")
            os.makedirs(sdir, exist_ok=True)
            for n, src in srcs.items():
                with open(os.path.join(sdir, n), "w", encoding="utf-8", newline="") as f:
                    f.write(src)
            mode = (None, "stored", "deflated")[idx % 3]
            target = os.path.join(root, f"s{idx}", "out" + (".zip" if mode else ""))
            try:
                fs_env = jinja2.Environment(loader=jinja2.FileSystemLoader(sdir))
                def direct(loader):
                    # each template fetched directly under non-normal spellings and rendered with its own context
                    env = jinja2.Environment(loader=loader)
                    res = []
                    for n in sorted(srcs):
                        for sp in ("./%s", "/%s", ".//%s"):
                            try:
                                res.append(env.get_template(sp % n).render(x="X"))
                            except Exception as e:  # noqa
                                res.append("X:" + type(e).__name__)
                    return " ## " + " | ".join(res)
                ref = render(jinja2, kind, s, srcs, jinja2.FileSystemLoader(sdir)) + direct(jinja2.FileSystemLoader(sdir))
                try:
                    fs_env.compile_templates(target, zip=mode, log_function=lambda x: None, ignore_errors=False)
                    got = render(jinja2, kind, s, srcs, ModuleLoader(target)) + direct(ModuleLoader(target))
                except Exception as e:  # noqa
                    got = "X:compile_templates/ModuleLoader:" + type(e).__name__ + ":" + str(e)[:80]
            finally:
                shutil.rmtree(os.path.join(root, f"s{idx}"), ignore_errors=True)
            respelled = any(("'./" in v) or ("'/" in v) for v in srcs.values())
            nontriv = respelled and ref.startswith("O ") and len(ref) > 6
            ctx.case(sample={"sources": srcs, "zip": mode, "render": ref, "loader": "FileSystemLoader"} if nontriv else None,
                     key=("fs", idx) if nontriv else None)
            ctx.count("fs-source:" + ("respelled" if respelled else "plain"))
            if got != ref:
                ctx.reject({"kind": kind, "sources": srcs, "set": s, "zip": mode, "loader": "fs"},
                           f"precompiled ({mode or 'folder'}) renders {got[:120]} but loading the same files through "
                           f"FileSystemLoader renders {ref[:120]}",
                           "C31:unnormalised-template-name" if respelled and "NotFound" in got else None)
            else:
                ctx.validated()
    finally:
        shutil.rmtree(root, ignore_errors=True)


def rel_world(jinja2, loader):
    import posixpath

    class RelEnv(jinja2.Environment):
        def join_path(self, template, parent):
            if template.startswith("./"):
                return posixpath.normpath(posixpath.join(posixpath.dirname(parent), template))
            return template
    return RelEnv(loader=loader, autoescape=lambda name: bool(name) and name.endswith(".html"))


def same_source_case(jinja2, ModuleLoader, srcs, mode, target):
    def all_renders(env):
        res = {}
        for n in sorted(srcs):
            try:
                res[n] = env.get_template(n).render(x="<b>&")
            except Exception as e:  # noqa
                res[n] = "X:" + type(e).__name__
        return res
    try:
        ref = all_renders(rel_world(jinja2, jinja2.DictLoader(srcs)))
        try:
            if mode == "deflated":
                # the `extensions` argument: html templates into one archive, everything else (filter_func) into a
                # folder, both behind one ModuleLoader
                rel_world(jinja2, jinja2.DictLoader(srcs)).compile_templates(target, zip=mode, log_function=lambda x: None,
                                                                             ignore_errors=False, extensions=["html"])
                rel_world(jinja2, jinja2.DictLoader(srcs)).compile_templates(
                    target + "_rest", zip=None, log_function=lambda x: None, ignore_errors=False,
                    filter_func=lambda n: not n.endswith(".html"))
                try:
                    got = all_renders(rel_world(jinja2, ModuleLoader([target, target + "_rest"])))
                finally:
                    shutil.rmtree(target + "_rest", ignore_errors=True)
            else:
                rel_world(jinja2, jinja2.DictLoader(srcs)).compile_templates(target, zip=mode, log_function=lambda x: None,
                                                                             ignore_errors=False)
                got = all_renders(rel_world(jinja2, ModuleLoader(target)))
        except Exception as e:  # noqa
            got = {"*": "X:compile_templates/ModuleLoader:" + type(e).__name__ + ":" + str(e)[:80]}
    finally:
        if os.path.isdir(target):
            shutil.rmtree(target, ignore_errors=True)
        elif os.path.exists(target):
            os.unlink(target)
    return ref, got


def same_source_stream(ctx, jinja2, ModuleLoader):
    """sets in which several templates have IDENTICAL source text but different names, rendered in an environment
    where the name matters: autoescape decided per name (extension), relative includes resolved by an overridden
    join_path, and the template's own name printed ({{ self }})"""
    shapes = ["<{{ x }}>", "{% include './greeting.txt' %}<{{ x }}>", "{{ self }}:{{ x }}", "{% import './lib.html' as l %}{{ l.m(x) }}",
              "{% extends './base.html' %}{% block b %}{{ x }}{{ super() }}{% endblock %}"]
    dirs = ["de", "en", "fr"]
    rng = ctx.rng
    root = os.path.join(lib.BUILD, f"c31_same_{os.getpid()}")
    os.makedirs(root, exist_ok=True)
    try:
        for idx in range(ctx.size(60, 600)):
            srcs = {}
            for d in dirs:
                srcs[f"{d}/greeting.txt"] = f"{d}-hello {{{{ x }}}}"
                srcs[f"{d}/lib.html"] = "{% macro m(v) %}" + d + "[{{ v }}]{% endmacro %}"
                srcs[f"{d}/base.html"] = d + "({% block b %}base{{ x }}{% endblock %})"
            for _ in range(rng.randint(1, 3)):
                shape = rng.choice(shapes)
                for d in rng.sample(dirs, rng.randint(2, 3)):
                    srcs[f"{d}/page{len(srcs)}.{rng.choice(['html', 'txt'])}"] = shape
                if rng.random() < 0.5:
                    srcs[f"card{len(srcs)}.html"] = shape.replace("./", "de/")
                    srcs[f"card{len(srcs)}.txt"] = shape.replace("./", "de/")
            mode = (None, "stored", "deflated")[idx % 3]
            target = os.path.join(root, f"s{idx}" + (".zip" if mode else ""))

            ref, got = same_source_case(jinja2, ModuleLoader, srcs, mode, target)
            dup = len(set(srcs.values())) < len(srcs)
            ctx.case(sample={"sources": srcs, "zip": mode, "renders": ref} if dup and idx < 2 else None,
                     key=("same", idx) if dup else None)
            ctx.count("same-source-set")
            if got != ref:
                bad = sorted(n for n in ref if got.get(n) != ref[n])[:3]
                ctx.reject({"sources": srcs, "zip": mode, "differs": {n: [got.get(n), ref[n]] for n in bad}},
                           f"name-dependent environment: precompiled and source renders differ for {bad}: "
                           f"{[(got.get(n), ref[n]) for n in bad][:2]}", None)
            else:
                ctx.validated()
    finally:
        shutil.rmtree(root, ignore_errors=True)


def prefix_loader_probe(ctx, jinja2, ModuleLoader):
    """recorded finding C31-prefixloader-template-name, re-observed on every run (name-dependent renders differ), together
    with the name-independent renders of the same PrefixLoader sets, which must agree"""
    root = os.path.join(lib.BUILD, f"c31_pfx_{os.getpid()}")
    os.makedirs(root, exist_ok=True)
    try:
        for i, (body, known) in enumerate([("{{ self }}|{{ v }}", True), ("<{{ v }}>{% include 'html/y' %}", False),
                                           ("{% extends 'txt/base' %}{% block b %}{{ v }}{{ super() }}{% endblock %}", False)]):
            def loader():
                return jinja2.PrefixLoader({"html": jinja2.DictLoader({"x": body, "y": "Y{{ v }}"}),
                                            "txt": jinja2.DictLoader({"base": "B[{% block b %}b{% endblock %}]"})})
            ae = (lambda n: bool(n) and n.startswith("html/")) if known else False
            target = os.path.join(root, f"p{i}")

            def run(ld):
                try:
                    return jinja2.Environment(loader=ld, autoescape=ae).get_template("html/x").render(v="<b>")
                except Exception as e:  # noqa
                    return "X:" + type(e).__name__
            try:
                ref = run(loader())
                jinja2.Environment(loader=loader(), autoescape=ae).compile_templates(target, zip=None, log_function=lambda x: None,
                                                                                   ignore_errors=False)
                got = run(ModuleLoader(target))
            finally:
                shutil.rmtree(target, ignore_errors=True)
            ctx.case()
            ctx.count("probe-prefix-loader")
            if got != ref:
                ctx.reject({"body": body, "loader": "PrefixLoader", "source": ref, "precompiled": got},
                           f"PrefixLoader source renders {ref!r}, precompiled renders {got!r}",
                           "C31:prefixloader-source-template-has-local-name" if known else None)
            else:
                ctx.validated()
    finally:
        shutil.rmtree(root, ignore_errors=True)


BYTECODE_CODE = r"""
import os, sys, shutil, json
import jinja2
from jinja2 import Environment, DictLoader, ModuleLoader
assert not sys.dont_write_bytecode
root = sys.argv[1]
sets = json.load(sys.stdin)
out = []
for i, srcs in enumerate(sets):
    target = os.path.join(root, "bc%d" % i)
    def allr(loader):
        env = Environment(loader=loader)
        res = {}
        for n in sorted(srcs):
            try:
                res[n] = env.get_template(n).render(x="X")
            except Exception as e:
                res[n] = "X:" + type(e).__name__
        return res
    ref = allr(DictLoader(srcs))
    Environment(loader=DictLoader(srcs)).compile_templates(target, zip=None, log_function=lambda x: None, ignore_errors=False)
    first = allr(ModuleLoader(target))          # writes __pycache__
    cached = any(d == "__pycache__" for _, ds, _ in os.walk(target) for d in ds)
    second = allr(ModuleLoader(target))         # a new loader on the same folder reads the bytecode written before
    out.append({"ref": ref, "first": first, "second": second, "pycache": cached})
    shutil.rmtree(target, ignore_errors=True)
print(json.dumps(out))
"""


def bytecode_probe(ctx):
    """configuration axis: Python writes bytecode (this check's own process runs with PYTHONDONTWRITEBYTECODE=1).  In a
    subprocess with bytecode writing enabled, sets compiled into FRESH folders are loaded through two successive
    ModuleLoaders (the second one finds the __pycache__ the first one wrote) and compared with source loading"""
    import json
    hg = HG.HGen(ctx.rng)
    ig = IG.IGen(ctx.rng, own_globals=0.0, shadow=0.0)
    sets = []
    for i in range(ctx.size(12, 120)):
        if i % 2:
            sets.append(HG.sources(hg.hierarchy()))
        else:
            sets.append(IG.sources(ig.tset()))
    root = os.path.join(lib.BUILD, f"c31_bc_{os.getpid()}")
    os.makedirs(root, exist_ok=True)
    try:
        rc, out, err = lib.sh([lib.PY, "-c", BYTECODE_CODE, root], timeout=600, inp=json.dumps(sets), cwd="/",
                              env=dict(lib.IMPL_ENV, PYTHONDONTWRITEBYTECODE=""))
    finally:
        shutil.rmtree(root, ignore_errors=True)
    if rc != 0:
        ctx.broken.append("C31 bytecode-writing subprocess failed: " + err.strip().splitlines()[-1][:200] if err.strip() else "rc")
        return
    res = json.loads(out.strip().splitlines()[-1])
    for srcs, r in zip(sets, res):
        ctx.case()
        ctx.count("bytecode-writing-enabled" + (":pycache" if r["pycache"] else ""))
        if r["first"] != r["ref"] or r["second"] != r["ref"]:
            ctx.reject({"sources": srcs, "zip": None, "bytecode": True, "result": r},
                       "with bytecode writing enabled a set compiled into a fresh folder renders differently from source "
                       "(first or second ModuleLoader)", None)
        else:
            ctx.validated()


def literal_names_stream(ctx, jinja2, ModuleLoader):
    """template sets of a loader whose names are plain keys (DictLoader), with names that are legal but not in normal
    form (leading slash, ./ segment, doubled slash, .. segment), referenced by exactly those names through extends /
    import / from-import / include: the source loader finds them, the precompiled set must too.  (The mirror image -
    a non-normal spelling of a name stored in normal form - is the recorded finding and is not generated here.)"""
    rng = ctx.rng
    spellings = ["/%s", "./%s", "mail//%s", "a/./%s", "%s", "x/../%s", "//%s", "%s/", "./%s/."]
    root = os.path.join(lib.BUILD, f"c31_lit_{os.getpid()}")
    os.makedirs(root, exist_ok=True)
    try:
        for idx in range(ctx.size(45, 450)):
            base, libn, leaf, page, page2 = (rng.choice(spellings) % n for n in
                                             ("layout.html", "macros.html", "body.txt", "page.html", "other.html"))
            if len({base, libn, leaf, page, page2}) < 5:
                continue
            missing = rng.choice(spellings) % "nothing.txt"
            srcs = {
                base: "B[{% block a %}ba{% endblock %}|{% block b %}bb{{ x }}{% endblock %}]",
                libn: "{% macro m(v) %}M<{{ v }}>{% endmacro %}{% set k = 'K' %}",
                leaf: "leaf{{ x }}",
                page: "{%% extends %r %%}{%% import %r as l %%}{%% block a %%}pa{{ l.m(x) }}{{ super() }}{%% include %r %%}{%% endblock %%}"
                      % (base, libn, leaf),
                page2: "{%% from %r import m, k with context %%}{{ m(k) }}|{%% include [%r, %r] %%}|{%% include %r ignore missing %%}"
                       "|{%% include %r %s %%}" % (libn, missing, leaf, missing, page, rng.choice(["", "without context"])),
            }
            mode = (None, "stored", "deflated")[idx % 3]
            target = os.path.join(root, f"s{idx}" + (".zip" if mode else ""))

            def all_renders(loader):
                env = jinja2.Environment(loader=loader)
                res = {}
                for n in sorted(srcs):
                    try:
                        res[n] = env.get_template(n).render(x="X")
                    except Exception as e:  # noqa
                        res[n] = "X:" + type(e).__name__
                return res
            try:
                ref = all_renders(jinja2.DictLoader(srcs))
                try:
                    jinja2.Environment(loader=jinja2.DictLoader(srcs)).compile_templates(
                        target, zip=mode, log_function=lambda x: None, ignore_errors=False)
                    got = all_renders(ModuleLoader(target))
                except Exception as e:  # noqa
                    got = {"*": "X:compile_templates/ModuleLoader:" + type(e).__name__ + ":" + str(e)[:80]}
            finally:
                if os.path.isdir(target):
                    shutil.rmtree(target, ignore_errors=True)
                elif os.path.exists(target):
                    os.unlink(target)
            ctx.case(sample={"sources": srcs, "zip": mode, "renders": ref} if idx < 2 else None, key=("lit", idx))
            ctx.count("literal-non-normal-names")
            if got != ref:
                bad = sorted(n for n in ref if got.get(n) != ref[n])[:3]
                ctx.reject({"sources": srcs, "zip": mode, "loader": "DictLoader-all", "differs": {n: [got.get(n), ref[n]] for n in bad}},
                           f"names stored in non-normal form: precompiled and DictLoader renders differ for {bad}: "
                           f"{[(got.get(n), ref[n]) for n in bad][:2]}", None)
            else:
                ctx.validated()
    finally:
        shutil.rmtree(root, ignore_errors=True)


def non_normal_probe(ctx, jinja2, ModuleLoader):
    """recorded finding C31-non-normalising-source-loader, re-observed on every run: a source loader that does not
    normalise names (DictLoader) against the module loader, names spelled ./x, /x, .//x"""
    root = os.path.join(lib.BUILD, f"c31_nn_{os.getpid()}")
    os.makedirs(root, exist_ok=True)
    try:
        for i, (spell, ign) in enumerate([("./x", True), ("/x", True), (".//x", False), ("x", False)]):
            srcs = {"x": "X", "main": "[{%% include %r%s %%}]" % (spell, " ignore missing" if ign else "")}
            target = os.path.join(root, f"p{i}")

            def run(loader):
                try:
                    return jinja2.Environment(loader=loader).get_template("main").render()
                except Exception as e:  # noqa
                    return "X:" + type(e).__name__
            try:
                ref = run(jinja2.DictLoader(srcs))
                jinja2.Environment(loader=jinja2.DictLoader(srcs)).compile_templates(target, zip=None, log_function=lambda x: None,
                                                                                  ignore_errors=False)
                got = run(ModuleLoader(target))
            finally:
                shutil.rmtree(target, ignore_errors=True)
            ctx.case()
            ctx.count("probe-non-normal-name")
            if got != ref:
                ctx.reject({"sources": srcs, "zip": None, "loader": "DictLoader", "differs": {"main": [got, ref]}},
                           f"DictLoader source renders {ref!r}, precompiled renders {got!r} for the name {spell!r}",
                           "C31:non-normal-name-found-only-precompiled" if spell != "x" else None)
            else:
                ctx.validated()
    finally:
        shutil.rmtree(root, ignore_errors=True)


def broken_probe(ctx, jinja2, ModuleLoader):
    """hypothesis of C31: every template of the set compiles.  Probe: a set that violates it is not precompiled
    silently — compile_templates(ignore_errors=False) raises TemplateSyntaxError, and with the default
    ignore_errors=True the skipped template is reported through log_function and is TemplateNotFound afterwards"""
    srcs = {"main": "<{% include 'broken' ignore missing %}>", "broken": "{% if %}", "ok": "fine"}
    root = os.path.join(lib.BUILD, f"c31_broken_{os.getpid()}")
    try:
        for mode in (None, "stored", "deflated"):
            env = jinja2.Environment(loader=jinja2.DictLoader(srcs))
            target = os.path.join(root, f"strict_{mode or 'dir'}" + (".zip" if mode else ""))
            os.makedirs(root, exist_ok=True)
            ctx.case()
            ctx.count("probe-broken-template")
            try:
                env.compile_templates(target, zip=mode, log_function=lambda x: None, ignore_errors=False)
                ctx.reject({"sources": srcs, "zip": mode},
                           "compile_templates(ignore_errors=False) accepted a set with a template that does not compile", None)
            except jinja2.TemplateSyntaxError:
                ctx.validated()
            except Exception as e:  # noqa
                ctx.reject({"sources": srcs, "zip": mode}, f"compile_templates raised {type(e).__name__} for a syntax error", None)
            log = []
            target = os.path.join(root, f"lenient_{mode or 'dir'}" + (".zip" if mode else ""))
            ctx.case()
            try:
                env.compile_templates(target, zip=mode, log_function=log.append)
                told = any("Could not compile" in m and "broken" in m for m in log)
                e2 = jinja2.Environment(loader=ModuleLoader(target))
                try:
                    e2.get_template("broken")
                    found = True
                except jinja2.TemplateNotFound:
                    found = False
                if not told or found or e2.get_template("ok").render() != "fine":
                    ctx.reject({"sources": srcs, "zip": mode, "log": log},
                               "a template that does not compile was skipped without a log message, or is loadable", None)
                else:
                    ctx.validated()
            except Exception as e:  # noqa
                ctx.reject({"sources": srcs, "zip": mode}, f"lenient compile_templates raised {type(e).__name__}: {e}", None)
    finally:
        shutil.rmtree(root, ignore_errors=True)


ME_SOURCES = {
    "layout": "L<{{ x|tag }}>{% block b %}lb<{{ x|tag }}{{ nope|tag }}>{% endblock %}",
    "page": "{% extends layout %}{% block b %}pb<{{ x|tag }}>{{ super() }}{% endblock %}",
    "inc": "I<{{ x|tag }}{% if x is marked %}!{% endif %}>",
    "user": "U<{{ x|tag }}>{% include target %}|{% import other as m %}{{ m.f(x) }}",
    "lib": "{% macro f(v) %}F<{{ v|tag }}>{% endmacro %}",
}


def make_world(jinja2, loaders):
    """two differently configured environments (filter, test, undefined type); loaders = (for A, for B)"""
    envs = {}
    for label, loader, undef in (("a", loaders[0], jinja2.Undefined), ("b", loaders[1], jinja2.ChainableUndefined)):
        e = jinja2.Environment(loader=loader, undefined=undef)
        e.filters["tag"] = (lambda lab: (lambda v: f"{lab}:{type(v).__name__}"))(label)
        e.tests["marked"] = (lambda lab: (lambda v: lab == "b"))(label)
        envs[label] = e
    return envs


def run_history(jinja2, envs, ops):
    """ops: ("get", env, name) | ("render", env, name, {var: ("name", n) | ("obj", env2, n)})"""
    out = []
    for op in ops:
        try:
            if op[0] == "get":
                envs[op[1]].get_template(op[2])
                out.append("ok")
            else:
                data = {"x": 1}
                for k, v in op[3].items():
                    data[k] = v[1] if v[0] == "name" else envs[v[1]].get_template(v[2])
                out.append(envs[op[1]].get_template(op[2]).render(data))
        except Exception as e:  # noqa
            out.append("X:" + type(e).__name__)
    return out


def multi_env_stream(ctx, jinja2, ModuleLoader):
    """histories over TWO environments: one ModuleLoader object shared by both (or one per environment over the
    same archive), loads and renders interleaved, Template objects of one environment used by the other through
    extends / include / import; against two source-loading environments running the same history"""
    rng = ctx.rng
    root = os.path.join(lib.BUILD, f"c31_me_{os.getpid()}")
    os.makedirs(root, exist_ok=True)

    def ref_arg(name):
        k = rng.random()
        if k < 0.4:
            return ("name", name)
        return ("obj", rng.choice("ab"), name)

    try:
        for idx in range(ctx.size(150, 1500)):
            ops = []
            for _ in range(rng.randint(2, 6)):
                k = rng.random()
                e = rng.choice("ab")
                if k < 0.3:
                    ops.append(("get", e, rng.choice(list(ME_SOURCES))))
                elif k < 0.5:
                    ops.append(("render", e, rng.choice(["layout", "inc"]), {}))
                elif k < 0.8:
                    ops.append(("render", e, "page", {"layout": ref_arg("layout")}))
                else:
                    ops.append(("render", e, "user", {"target": ref_arg(rng.choice(["inc", "layout"])), "other": ref_arg("lib")}))
            mode = (None, "stored", "deflated")[idx % 3]
            shared = rng.random() < 0.6
            target = os.path.join(root, f"h{idx}" + (".zip" if mode else ""))
            try:
                ref = run_history(jinja2, make_world(jinja2, (jinja2.DictLoader(ME_SOURCES), jinja2.DictLoader(ME_SOURCES))), ops)
                try:
                    make_world(jinja2, (jinja2.DictLoader(ME_SOURCES), None))["a"].compile_templates(
                        target, zip=mode, log_function=lambda x: None, ignore_errors=False)
                    ml = ModuleLoader(target)
                    got = run_history(jinja2, make_world(jinja2, (ml, ml if shared else ModuleLoader(target))), ops)
                except Exception as e:  # noqa
                    got = ["X:compile_templates/ModuleLoader:" + type(e).__name__ + ":" + str(e)[:80]]
            finally:
                if os.path.isdir(target):
                    shutil.rmtree(target, ignore_errors=True)
                elif os.path.exists(target):
                    os.unlink(target)
            cross = any(op[0] == "render" and any(v[0] == "obj" and v[1] != op[1] for v in op[3].values()) for op in ops)
            both = len({op[1] for op in ops}) == 2
            nontriv = both and any(not r.startswith("X:") and r != "ok" for r in ref)
            case = {"ops": ops, "zip": mode, "shared_loader": shared, "sources": ME_SOURCES}
            ctx.case(sample=dict(case, results=ref) if nontriv and cross else None, key=("me", idx) if nontriv else None)
            ctx.count("multi-env:" + ("shared-loader" if shared else "loader-per-env") + (":cross-object" if cross else ""))
            if got != ref:
                ctx.reject(dict(case, precompiled=got, source=ref),
                           f"two-environment history: precompiled gives {got} but source loading gives {ref}", None)
            else:
                ctx.validated()
    finally:
        shutil.rmtree(root, ignore_errors=True)


def render(jinja2, kind, s, srcs, loader, env_kind="plain", modules=False):
    if kind == "inh":
        env = HG.make_env(jinja2, loader, env_kind)
        return HG.real_render_src(jinja2, None, s["chain"][0], s["data"], HG.extends_data(s), env=env)[0]
    r = IG.real_render(jinja2, s, env=IG.make_env(jinja2, s, loader=loader, kind=env_kind))
    if modules and "async" not in env_kind:
        # Template.module of every template of the set (exported names and values) belongs to "renders exactly like"
        for n in s["templates"]:
            if n == s["main"] and (s.get("objects") or s.get("lists") or s.get("names")):
                continue
            r += " || " + n + ": " + IG.real_module(jinja2, s, n, env=IG.make_env(jinja2, s, loader=loader, kind=env_kind))
    return r


def replay(ctx, data):
    jinja2 = lib.use_repo_jinja()
    from jinja2.loaders import ModuleLoader
    case = data.get("case")
    if data.get("kind") == "failing-input" and case is not None and case.get("loader") == "DictLoader-all":
        srcs, mode = case["sources"], case["zip"]
        target = os.path.join(lib.BUILD, f"c31_replay_{os.getpid()}" + (".zip" if mode else ""))

        def allr(loader):
            env = jinja2.Environment(loader=loader)
            res = {}
            for n in sorted(srcs):
                try:
                    res[n] = env.get_template(n).render(x="X")
                except Exception as e:  # noqa
                    res[n] = "X:" + type(e).__name__
            return res
        try:
            ref = allr(jinja2.DictLoader(srcs))
            jinja2.Environment(loader=jinja2.DictLoader(srcs)).compile_templates(target, zip=mode, log_function=lambda x: None)
            got = allr(ModuleLoader(target))
        finally:
            if os.path.isdir(target):
                shutil.rmtree(target, ignore_errors=True)
            elif os.path.exists(target):
                os.unlink(target)
        bad = sorted(n for n in ref if got.get(n) != ref[n])
        for n in bad[:5]:
            print(f"  {n}: source {ref[n]!r}  precompiled {got.get(n)!r}")
        if bad:
            ctx.reject(case, f"names stored in non-normal form: renders differ for {bad[:3]}")
        return
    if data.get("kind") == "failing-input" and case is not None and case.get("loader") == "DictLoader":
        srcs = case["sources"]
        target = os.path.join(lib.BUILD, f"c31_replay_{os.getpid()}")

        def run1(loader):
            try:
                return jinja2.Environment(loader=loader).get_template("main").render()
            except Exception as e:  # noqa
                return "X:" + type(e).__name__
        try:
            ref = run1(jinja2.DictLoader(srcs))
            jinja2.Environment(loader=jinja2.DictLoader(srcs)).compile_templates(target, zip=None, log_function=lambda x: None)
            got = run1(ModuleLoader(target))
        finally:
            shutil.rmtree(target, ignore_errors=True)
        print("source     :", ref, "\nprecompiled:", got)
        if got != ref:
            ctx.reject(case, f"DictLoader source renders {ref!r}, precompiled renders {got!r}", data.get("signature"))
        return
    if data.get("kind") == "failing-input" and case is not None and "differs" in case:
        mode = case["zip"]
        target = os.path.join(lib.BUILD, f"c31_replay_{os.getpid()}" + (".zip" if mode else ""))
        ref, got = same_source_case(jinja2, ModuleLoader, case["sources"], mode, target)
        bad = sorted(n for n in ref if got.get(n) != ref[n])
        for n in bad[:5]:
            print(f"  {n}: source {ref[n]!r}  precompiled {got.get(n)!r}")
        if bad:
            ctx.reject(case, f"name-dependent environment: precompiled and source renders differ for {bad[:3]}")
        return
    if data.get("kind") == "failing-input" and case is not None and "ops" in case:
        ops = [tuple(o[:3]) + (({k: tuple(v) for k, v in o[3].items()},) if len(o) > 3 else ()) for o in case["ops"]]
        mode = case["zip"]
        target = os.path.join(lib.BUILD, f"c31_replay_{os.getpid()}" + (".zip" if mode else ""))
        ref = run_history(jinja2, make_world(jinja2, (jinja2.DictLoader(ME_SOURCES), jinja2.DictLoader(ME_SOURCES))), ops)
        try:
            try:
                make_world(jinja2, (jinja2.DictLoader(ME_SOURCES), None))["a"].compile_templates(
                    target, zip=mode, log_function=lambda x: None, ignore_errors=False)
                ml = ModuleLoader(target)
                got = run_history(jinja2, make_world(jinja2, (ml, ml if case["shared_loader"] else ModuleLoader(target))), ops)
            except Exception as e:  # noqa
                got = ["X:compile_templates/ModuleLoader:" + type(e).__name__ + ":" + str(e)[:80]]
        finally:
            if os.path.isdir(target):
                shutil.rmtree(target, ignore_errors=True)
            elif os.path.exists(target):
                os.unlink(target)
        print("ops        :", ops, "\nsource     :", ref, "\nprecompiled:", got)
        if got != ref:
            ctx.reject(case, f"two-environment history: precompiled gives {got} but source loading gives {ref}")
        return
    if data.get("kind") != "failing-input" or case is None or "sources" not in case:
        print("replay: this file names a broken theorem/correspondence, not an input:", data.get("broken"))
        return run(ctx)
    srcs, s, kind, mode = case["sources"], case["set"], case["kind"], case["zip"]
    use_fs = case.get("loader") == "fs"
    if kind == "inh":
        s = dict(s, templates=[dict(t, tops=[tuple(x) if x[0] == "x" else x for x in t["tops"]]) for t in s["templates"]])
    target = os.path.join(lib.BUILD, f"c31_replay_{os.getpid()}" + (".zip" if mode else ""))
    src_loader = jinja2.DictLoader(srcs)
    sdir = os.path.join(lib.BUILD, f"c31_replay_src_{os.getpid()}")
    if use_fs:
        os.makedirs(sdir, exist_ok=True)
        for n, src in srcs.items():
            with open(os.path.join(sdir, n), "w", encoding="utf-8", newline="") as f:
                f.write(src)
        src_loader = jinja2.FileSystemLoader(sdir)
    src_env = (HG.make_env(jinja2, src_loader, case.get('env', 'plain')) if kind == 'inh'
               else IG.make_env(jinja2, s, loader=src_loader, kind=case.get('env', 'plain')))
    ek, mods = case.get("env", "plain"), case.get("modules", False)
    if mode == "split":
        print("replay: split archives are re-run as a plain folder"); mode = None
    ref = render(jinja2, kind, s, srcs, src_loader, ek, mods)
    try:
        try:
            src_env.compile_templates(target, zip=mode, log_function=lambda x: None, ignore_errors=False)
            got = render(jinja2, kind, s, srcs, ModuleLoader(target), ek, mods)
        except Exception as e:  # noqa
            got = "X:compile_templates/ModuleLoader:" + type(e).__name__ + ":" + str(e)[:80]
    finally:
        if os.path.isdir(target):
            shutil.rmtree(target, ignore_errors=True)
        elif os.path.exists(target):
            os.unlink(target)
        shutil.rmtree(sdir, ignore_errors=True)
    print("source     :", ref, "\nprecompiled:", got)
    if got != ref:
        ctx.reject(case, f"precompiled ({mode or 'folder'}) renders {got[:120]} but source loading renders {ref[:120]}")
