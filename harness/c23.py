"""C23 — string and number filters satisfy their documented contracts.

proof : Properties/C23.v (truncate bound / leeway identity, indent only inserts, center,
        wordcount, filesizeformat prefix, wordwrap preserves text, int / float total for every
        conversion behaviour whose exceptions are caught) + a regenerated obligation file: the
        `except` clauses of do_int / do_float read from the current filters.py (T2) must cover
        TypeError, ValueError and OverflowError, and the kind table must have no raising row.
tie   : T5 translator: the current source of do_truncate as a Lib/PyFilt term, Gen_filt_truncate proves
        interpreted source term = Model.FiltStr.do_truncate for all inputs (rsplit(" ", 1)[0] is one primitive);
        K-rt  extracted Model.FiltStr == the real filters through Environment.call_filter on
        edge-case strings and numbers (truncate, indent, center, wordcount, splitlines,
        filesizeformat unit selection, int / float outcome shapes per value kind; the CPython
        conversion table itself is validated row by row against int() / float()).
oracle: the documented contract evaluated on the real results.  Thin wrappers (upper lower
        capitalize trim replace format striptags urlencode title round) have no theorem: their
        results are only compared with the Python definition they wrap.
"""
import itertools
import math
import os
import sys
import textwrap

from . import lib
from .filt_common import cps, uncps

sys.path.insert(0, os.path.join(lib.ROOT, "gen"))

RULE = ("truncate: edge-case strings x lengths 0..len+3 x killwords x end in {'...', '', U+2026, '--'} x leeway in "
        "{policy default, 0, 1, 5} (non-trivial = the text is actually cut); indent: strings over {a, space, \\n, "
        "\\r\\n, \\r, U+2028, \\x0b} up to length 5 + edge strings x width {0, 2, -1, '>>', ''} x first x blank "
        "(non-trivial = >= 2 lines); center / wordcount / splitlines / wordwrap on the same strings plus over-long and hyphenated words x width x break_long_words x break_on_hyphens (independently) x wrap string; "
        "filesizeformat: every power of the base +-1, 0..1100, random ints up to 10^30, both bases; int / float: "
        "several representative values for each of the 15 value kinds (numeric spellings, inf, nan, huge, bool, None, "
        "containers); distinct = (filter, arguments, input).")

EDGE = ["", " ", "a", "foo bar baz bar", "Hello World, this is jinja", "nospaceshereatallinthisword", "  lead", "trail  ",
        "a b", "ab cd ef", "é ü ß", "日本語 テキスト です", "a\tb c", "word-with-hyphens and-more", "x" * 30 + " y",
        "tab\tsep arated", "a  b   c", "𝒳 astral chars", "ends with space ", "a b c d e f g"]
LINES = ["a\nb", "a\n\nb", "a\r\nb\rc", "\n", "\n\n", "a\n", "\na", "a b c", "a\x0bb\x0cc", "a\x1cb\x1dc\x1ed",
         "a\x85b", "  a\n  b\n", "a\n \nb", "line one\nline two is longer\n\nlast", "\r\n\r\n", "a\r", "\ra", "x\n\r\ny"]


def exn(e):
    return "ERR " + type(e).__name__


# ------------------------------------------------------------------ truncate
def tie_truncate(ctx, env, env2):
    cases = []
    for s in EDGE + LINES[:6]:
        for length in sorted(set(list(range(0, min(len(s), 12) + 4)) + [len(s) - 1, len(s), len(s) + 1, 255])):
            if length < 0:
                continue
            for kw in (False, True):
                for end in ("...", "", "…", "--"):
                    for lw in (None, 0, 1, 5):
                        cases.append((s, length, kw, end, lw))
    cases += [("abc", -1, False, "", 0), ("abc", 5, False, "...", -1), ("abc", 2, True, "...", None)]
    step = 1 if ctx.tier == "thorough" else 3
    cases = cases[::step] + cases[-3:]
    lines, meta = [], []
    for e, pol in ((env, 5), (env2, 0)):
        for (s, length, kw, end, lw) in cases:
            lines.append(f"truncate {pol} {length} {int(kw)} {cps(end)} {'?' if lw is None else lw} {cps(s)}")
            meta.append((e, pol, s, length, kw, end, lw))
    out = ctx.driver("filtstr", lines)
    for (e, pol, s, length, kw, end, lw), m in zip(meta, out):
        try:
            r = e.call_filter("truncate", s, (length, kw, end, lw))
            text = "OK " + cps(r)
        except Exception as ex:  # noqa: BLE001
            r, text = None, exn(ex)
        case = {"filter": "truncate", "s": s, "length": length, "killwords": kw, "end": end, "leeway": lw, "policy": pol}
        eff = pol if lw is None else lw
        cut = r is not None and r != s
        ctx.case(sample=case if cut and len(ctx.samples) < 2 else None, key=("truncate", s, length, kw, end, lw, pol) if cut else None)
        ctx.count("truncate")
        of = None
        if r is not None:
            if len(r) > length + eff:
                of = f"result has {len(r)} characters, more than length + leeway = {length + eff}"
            elif len(s) <= length + eff and r != s:
                of = "text within the leeway was changed"
            elif len(s) > length + eff and not (r.endswith(end) and s.startswith(r[:len(r) - len(end)]) and len(r) <= length):
                of = "truncated result is not a prefix of the text followed by the end marker within the length"
        elif m.startswith("OK"):
            of = f"raised {text[4:]} on valid arguments"
        if of:
            ctx.reject(case, of, None)
        elif text != m:
            ctx.model_mismatch("K-rt do_truncate", case, m, text, None)
        else:
            ctx.validated()


def tie_truncate_markup(ctx, aenv):
    """truncate with a safe (Markup) input: the plain end marker is escaped after the length
    arithmetic (model FiltHtml.truncate_markup); the raw-length bound is judged by the oracle"""
    from markupsafe import Markup
    lines, meta = [], []
    for s in ("a" * 30, "foo bar baz qux quux", "x y", "&amp; &lt;b&gt; and more text"):
        for length in (3, 5, 9, 12):
            for kw in (False, True):
                for end in ("...", "<<<", "&", "'\"", "", "…"):
                    for lw in (0, 2):
                        lines.append(f"truncatem {length} {int(kw)} p{cps(end)} {lw} {cps(s)}")
                        meta.append((s, length, kw, end, lw))
    out = ctx.driver("filthtml", lines)
    for (s, length, kw, end, lw), m in zip(meta, out):
        case = {"filter": "truncate", "markup_input": s, "length": length, "killwords": kw, "end": end, "leeway": lw}
        ctx.count("truncate_markup")
        try:
            r = aenv.call_filter("truncate", Markup(s), (length, kw, end, lw))
            text = "OK " + cps(str(r))
        except AssertionError:
            r, text = None, "ERR AssertionError"
        except Exception as ex:  # noqa: BLE001
            r, text = None, exn(ex)
        nontriv = r is not None and str(r) != s and any(c in end for c in "<>&'\"")
        ctx.case(key=("truncate_markup", s, length, kw, end, lw) if nontriv else None)
        of = sig = None
        if r is not None and len(r) > length + lw:
            of = (f"truncate of a safe string returned {len(r)} raw characters for length {length} + leeway {lw}: "
                  "the end marker is escaped after the length arithmetic")
            sig = "C23:truncate-markup-end-escaped-after-length"
        elif r is None and m.startswith("OK"):
            of = f"raised {text[4:]} on valid arguments"
        if of:
            ctx.reject(case, of, sig)
            if text != m:
                ctx.model_mismatch("K-rt do_truncate (Markup input)", case, m, text, None)
        elif text != m:
            ctx.model_mismatch("K-rt do_truncate (Markup input)", case, m, text, None)
        else:
            ctx.validated()


# ------------------------------------------------------------------ indent / center / wordcount / splitlines / wordwrap
def small_strings(ctx):
    alpha = ["a", " ", "\n", "\r\n", "\r", " ", "\x0b"]
    n = ctx.size(4, 5)
    out = []
    for k in range(0, n + 1):
        for t in itertools.product(alpha, repeat=k):
            out.append("".join(t))
    return out


def doc_lines(s):
    """the lines of a text as documented: every line break ends a line; a text ending with a break
    has an empty last line (independent of do_indent's append-a-newline quirk)"""
    keep = s.splitlines(keepends=True)
    lines = s.splitlines()
    if not lines or keep[-1] != lines[-1]:
        lines.append("")
    return lines


def spec_indent(s, ind, first, blank):
    lines = doc_lines(s)
    out = []
    for i, line in enumerate(lines):
        put = first if i == 0 else (blank or line != "")
        out.append((ind if put else "") + line)
    return "\n".join(out)


def tie_lines(ctx, env):
    strings = small_strings(ctx) + EDGE + LINES
    lines, meta = [], []
    widths = [0, 2, -1, ">>", ""]
    for idx, s in enumerate(strings):
        for w in (widths if idx % 3 == 0 or len(s) <= 3 else widths[1:4:2]):
            for first in (False, True):
                for blank in (False, True):
                    wt = f"i{w}" if isinstance(w, int) else "s" + cps(w)
                    lines.append(f"indent {wt} {int(first)} {int(blank)} {cps(s)}")
                    meta.append(("indent", s, (w, first, blank)))
        for w in (0, len(s) + 1, len(s) + 4, 7):
            lines.append(f"center {w} {cps(s)}")
            meta.append(("center", s, (w,)))
        lines.append(f"splitlines {cps(s)}")
        meta.append(("splitlines", s, ()))
        if s.isascii():
            lines.append(f"wordcount {cps(s)}")
            meta.append(("wordcount", s, ()))
    out = ctx.driver("filtstr", lines)
    for (f, s, args), m in zip(meta, out):
        case = {"filter": f, "s": s, "args": list(args)}
        of = None
        sig = None
        try:
            if f == "indent":
                r = env.call_filter("indent", s, args)
                text = "OK " + cps(r)
                if r != spec_indent(s, " " * args[0] if isinstance(args[0], int) else args[0], args[1], args[2]):
                    of = "result is not the lines of the text with the indentation inserted where documented"
                    if s.endswith("\r"):
                        of = "a trailing lone carriage return is dropped (a trailing LF or CRLF is kept as a line break)"
                        sig = "C23:indent-trailing-lone-cr"
                nontriv = len((s + "\n").splitlines()) >= 2
            elif f == "center":
                r = env.call_filter("center", s, args)
                text = "OK " + cps(r)
                pad = max(0, args[0] - len(s))
                if len(r) != len(s) + pad or r.strip(" ") != s.strip(" ") or abs((len(r) - len(r.lstrip(" "))) - (len(r) - len(r.rstrip(" ")))) > 1 + 2 * len(s) and s.strip(" ") == s:
                    of = "result is not the text padded to the width"
                if s.strip(" ") == s and s and pad:
                    left = len(r) - len(r.lstrip(" "))
                    if abs(left - (pad - left)) > 1:
                        of = "padding is not balanced"
                nontriv = pad > 0
            elif f == "splitlines":
                r = s.splitlines()
                text = "L " + ";".join(cps(x) for x in r)
                nontriv = len(r) >= 2
            else:
                r = env.call_filter("wordcount", s)
                text = f"N {r}"
                import re
                if r != len(re.findall(r"\w+", s)):
                    of = "not the number of words"
                nontriv = r >= 2
        except Exception as ex:  # noqa: BLE001
            text, of, nontriv = exn(ex), f"raised {type(ex).__name__}", False
        ctx.case(sample=case if nontriv and len(ctx.samples) < 4 and f == "indent" and len(s) > 6 else None,
                 key=(f, s, args) if nontriv else None)
        ctx.count(f)
        if of:
            ctx.reject(case, of, sig)
            if text != m:
                ctx.model_mismatch("K-rt do_" + f, case, m, text, None)
        elif text != m:
            ctx.model_mismatch("K-rt do_" + f if f != "splitlines" else "K-rt str.splitlines model", case, m, text, None)
        else:
            ctx.validated()
    # wordwrap: composition over splitlines (model's do_wordwrap with textwrap.wrap as the oracle it is)
    ws_chars = " \t\n\r\x0b\x0c\x1c\x1d\x1e\x85   "
    long_words = ["see " + "x" * 30 + " end", "a-very-long-hyphenated-compound-word and more",
                  "short https://example.com/a/very/long/path/without/any/space tail", "x" * 25, "ab-" * 12 + "z",
                  "tab\tseparated-" + "y" * 18, "é" * 14 + " ü-" + "ß" * 11]
    for s in EDGE + LINES + long_words + small_strings(ctx)[::7]:
        for width in (1, 5, 10, 79):
            # the two flags vary independently (a crosswise mix-up only shows when they differ)
            for blw, boh in ((True, True), (True, False), (False, True), (False, False)):
                for wrapstring in ((None, "\n", "\r\n", " | ") if blw == boh else (None, "\r\n")):
                    case = {"filter": "wordwrap", "s": s, "width": width, "break_long_words": blw,
                            "break_on_hyphens": boh, "wrapstring": wrapstring}
                    ctx.count("wordwrap")
                    try:
                        r = env.call_filter("wordwrap", s, (width, blw, wrapstring, boh))
                    except Exception as ex:  # noqa: BLE001
                        ctx.case()
                        ctx.reject(case, f"raised {type(ex).__name__}", None)
                        continue
                    wsx = "\n" if wrapstring is None else wrapstring
                    pieces = [textwrap.wrap(line, width=width, expand_tabs=False, replace_whitespace=False,
                                            break_long_words=blw, break_on_hyphens=boh) for line in s.splitlines()]
                    model = wsx.join(wsx.join(p) for p in pieces)
                    strip = lambda x: "".join(c for c in x if c not in ws_chars and not c.isspace())  # noqa: E731
                    of = None
                    if wsx.strip() == "" and strip(r) != strip(s):
                        of = "non-whitespace text is not preserved in order"
                    elif blw and wsx in ("\n", "\r\n"):
                        too_long = [l for l in r.split(wsx) if len(l) > width]
                        if too_long:
                            of = (f"a line of {len(too_long[0])} characters at width {width} although long words "
                                  "may be broken (break_long_words=true)")
                    nontriv = sum(len(p) for p in pieces) >= 2
                    ctx.case(key=("wordwrap", s, width, blw, boh, wrapstring) if nontriv else None)
                    if of:
                        ctx.reject(case, of, None)
                    elif r != model:
                        ctx.model_mismatch("K-rt do_wordwrap composition", case, model, r, None)
                    else:
                        ctx.validated()


# ------------------------------------------------------------------ filesizeformat
def tie_filesize(ctx, env):
    vals = set(range(0, 1101, 7)) | {0, 1, 2, 999, 1000, 1001, 1023, 1024, 1025, -5, -5000, 999999, 999949, 999950,
                                     1048575, 1048524, 10 ** 9 - 1}
    for base in (1000, 1024):
        for k in range(1, 11):
            vals |= {base ** k - 1, base ** k, base ** k + 1, 5 * base ** k // 2}
    for _ in range(ctx.size(300, 3000)):
        vals.add(ctx.rng.randrange(10 ** ctx.rng.randint(1, 30)))
    vals = sorted(vals)
    # the filter works on float(value): the contract is evaluated on the double nearest to the
    # value (exact for the small and power-of-two cases), i.e. on the integer int(float(v))
    lines = [f"filesize {int(float(v))} {b}" for v in vals for b in (0, 1)]
    out = ctx.driver("filtstr", lines)
    i = 0
    for v in vals:
        for binary in (False, True):
            m = out[i]
            i += 1
            case = {"filter": "filesizeformat", "value": v, "binary": binary}
            ctx.count("filesizeformat")
            ctx.case(key=("filesize", v, binary) if v >= 1000 else None)
            try:
                r = env.call_filter("filesizeformat", v, (binary,))
            except Exception as ex:  # noqa: BLE001
                ctx.reject(case, f"raised {type(ex).__name__}", None)
                continue
            base = 1024 if binary else 1000
            prefixes = ["KiB", "MiB", "GiB", "TiB", "PiB", "EiB", "ZiB", "YiB"] if binary else ["kB", "MB", "GB", "TB", "PB", "EB", "ZB", "YB"]
            # documented contract: Bytes below the base, else the largest prefix not exceeding the value
            of = None
            real_v, v = v, int(float(v))
            if v == 1:
                want_unit = "Byte"
            elif v < base:
                want_unit = "Bytes"
            else:
                k = 0
                while k < 7 and v >= base ** (k + 2):
                    k += 1
                want_unit = prefixes[k]
            num_s, _, unit = r.partition(" ")
            if unit != want_unit:
                of = f"unit {unit!r}, expected {want_unit!r}"
            # model text through the formatting oracle
            p = m.split()
            if p[0] == "ONE":
                mt = "1 Byte"
            elif p[0] == "BYTES":
                mt = f"{p[1]} Bytes"
            else:
                mt = f"{int(p[2]) / int(p[3]):.1f} {prefixes[int(p[1])]}"
            close = False
            if mt != r and p[0] == "UNIT" and unit == prefixes[int(p[1])]:
                try:
                    close = abs(float(num_s) - int(p[2]) / int(p[3])) <= 0.1000001 * max(1.0, abs(float(num_s)) * 1e-12 + 1)
                except ValueError:
                    close = False
            v = real_v
            if of:
                ctx.reject(case, of, None)
            elif mt != r and not close:
                ctx.model_mismatch("K-rt do_filesizeformat", case, mt, r, None)
            else:
                ctx.validated()


# ------------------------------------------------------------------ int / float
KIND_NAMES = ["KStrInt", "KStrFloat", "KStrExpHuge", "KStrInf", "KStrNan", "KStrGarbage", "KStrHugeDigits",
              "KInt", "KHugeInt", "KFloatFinite", "KFloatInf", "KFloatNan", "KBool", "KNone", "KContainer"]


def kind_values():
    return {
        "KStrInt": ["42", "-7", " 12 ", "+3", "0", "1_000", "٤٢"],
        "KStrFloat": ["42.5", "1e3", "-0.0", " 3.25 ", "1_0.5", ".5", "1e-400"],
        "KStrExpHuge": ["1e999", "-1e400"],
        "KStrInf": ["inf", "-inf", "Infinity", "+INF"],
        "KStrNan": ["nan", "NaN", "-nan"],
        "KStrGarbage": ["", "abc", "12abc", "1,5", "0x1A", "--1", "1e", "é", " "],
        "KStrHugeDigits": ["9" * 5000],
        "KInt": [0, 1, -5, 2 ** 62, 10 ** 300],
        "KHugeInt": [10 ** 400, -(10 ** 309)],
        "KFloatFinite": [0.0, -2.5, 1e308, 5e-324],
        "KFloatInf": [float("inf"), float("-inf")],
        "KFloatNan": [float("nan")],
        "KBool": [True, False],
        "KNone": [None],
        "KContainer": [[], [1], {}, {"a": 1}, (1, 2), set()],
    }


def py_outcome(fn):
    try:
        fn()
        return "C"
    except TypeError:
        return "RT"
    except ValueError:
        return "RV"
    except OverflowError:
        return "RO"


def observe_filesize_nonfinite(ctx, env):
    """filesizeformat is specified on sizes (finite, non-negative numbers); what it does outside is
    recorded in the evidence, not judged: nan compares false with every unit and falls through to YB"""
    obs = {}
    for v in (float("nan"), float("inf"), -5000, 999999):
        try:
            obs[repr(v)] = env.call_filter("filesizeformat", v)
        except Exception as ex:  # noqa: BLE001
            obs[repr(v)] = "raised " + type(ex).__name__
    ctx.extra["filesizeformat_outside_domain"] = obs


def tie_numbers(ctx, env, letters):
    outer, inner, cf = letters
    kv = kind_values()
    lines = []
    for i, _ in enumerate(KIND_NAMES):
        lines.append(f"int {outer or '-'} {inner or '-'} {i}")
        lines.append(f"float {cf or '-'} {i}")
    # the table itself: rows with every exception caught / nothing caught expose k_int, k_float, k_int_float
    for i, _ in enumerate(KIND_NAMES):
        lines.append(f"int - - {i}")
        lines.append(f"float - {i}")
        lines.append(f"int TVO - {i}")
    out = ctx.driver("filtstr", lines)
    n = len(KIND_NAMES)
    sentinel = object()
    for i, k in enumerate(KIND_NAMES):
        m_int, m_float = out[2 * i], out[2 * i + 1]
        t_int, t_float, t_if = out[2 * n + 3 * i], out[2 * n + 3 * i + 1], out[2 * n + 3 * i + 2]
        for v in kv[k]:
            case = {"filter": "int/float", "kind": k, "value": repr(v)[:60]}
            # (1) the CPython table row for this value
            row_int = py_outcome(lambda: int(v, 10) if isinstance(v, str) else int(v))
            row_float = py_outcome(lambda: float(v))
            row_if = py_outcome(lambda: int(float(v))) if row_int != "C" and row_float == "C" else None
            ok_table = (row_int == t_int) and (row_float == t_float) and (row_if is None or row_if == t_if or t_if == "D")
            for name, model in (("int", m_int), ("float", m_float)):
                ctx.count(name)
                try:
                    r = env.call_filter(name, v, (sentinel,))
                    shape = "D" if r is sentinel else "C"
                except (TypeError, ValueError, OverflowError) as ex:
                    shape = {"TypeError": "RT", "ValueError": "RV", "OverflowError": "RO"}[type(ex).__name__]
                except Exception as ex:  # noqa: BLE001
                    shape = "X:" + type(ex).__name__
                ctx.case(sample=dict(case, filter=name, shape=shape) if shape == "D" and len(ctx.samples) < 6 else None,
                         key=(name, k, repr(v)[:40]))
                of = None
                sig = None
                if shape not in ("C", "D"):
                    of = f"{name} filter raised {shape} instead of returning the default"
                    sig = f"C23:{name}-raises-{shape}:{k}"
                elif shape == "C":
                    want = (int(v, 10) if isinstance(v, str) else int(v)) if (name == "int" and row_int == "C") else \
                           (int(float(v)) if name == "int" else float(v))
                    same = (r == want) or (isinstance(want, float) and math.isnan(want) and math.isnan(r))
                    if not same:
                        of = f"{name} filter returned {r!r}, the conversion gives {want!r}"
                if of:
                    ctx.reject(dict(case, filter=name), of, sig)
                elif not ok_table:
                    ctx.model_mismatch("CPython conversion table row " + k, dict(case, rows=[row_int, row_float, row_if]),
                                       [t_int, t_float, t_if], [row_int, row_float, row_if], None)
                elif shape != model:
                    ctx.model_mismatch("K-rt do_" + name, dict(case, filter=name), model, shape, None)
                else:
                    ctx.validated()
    # hypothesis probe (outside the 15 value kinds): a jinja Undefined is not a value the filters
    # convert — Undefined.__int__ / __float__ deliberately raise UndefinedError, which the filters
    # let through; the totality theorems exclude it (conv_exn has no UndefinedError)
    from jinja2 import Undefined, UndefinedError, ChainableUndefined
    for name in ("int", "float"):
        for u in (Undefined(name="x"), ChainableUndefined(name="x")):
            ctx.count("probe_undefined")
            ctx.case(key=("undefined", name, type(u).__name__))
            try:
                r = env.call_filter(name, u)
                ctx.extra.setdefault("undefined_probe", {})[f"{name}:{type(u).__name__}"] = f"returned {r!r}"
                ctx.validated()
            except UndefinedError:
                ctx.extra.setdefault("undefined_probe", {})[f"{name}:{type(u).__name__}"] = "UndefinedError (documented behaviour of Undefined)"
                ctx.validated()
            except Exception as ex:  # noqa: BLE001
                ctx.reject({"filter": name, "value": "Undefined"}, f"raised {type(ex).__name__}, neither the default nor UndefinedError", None)
    # base argument (oracle only: the documented prefix handling)
    for s, base in (("0x1A", 16), ("1A", 16), ("0b101", 2), ("777", 8), ("0o17", 8), ("zz", 36), ("12", 10), ("9", 8)):
        ctx.count("int_base")
        ctx.case(key=("int_base", s, base))
        try:
            r = env.call_filter("int", s, (0, base))
            try:
                want = int(s, base)
            except ValueError:
                try:
                    want = int(float(s))
                except (TypeError, ValueError, OverflowError):
                    want = 0
            if r != want:
                ctx.reject({"filter": "int", "value": s, "base": base}, f"returned {r}, expected {want}", None)
            else:
                ctx.validated()
        except Exception as ex:  # noqa: BLE001
            ctx.reject({"filter": "int", "value": s, "base": base}, f"raised {type(ex).__name__}", None)


# ------------------------------------------------------------------ thin wrappers
def wrappers(ctx, env, jinja2):
    from markupsafe import Markup
    import re
    from urllib.parse import quote
    strings = EDGE + LINES + ["<b>bold</b> &amp; <i>x</i>", "a/b c?d=e&f", "ǆ titlecase", "i̇stanbul İ", "ß"]
    def title(s):
        return "".join(item[0].upper() + item[1:].lower() for item in re.split(r"([-\s({\[<]+)", s) if item)
    table = [
        ("upper", (), lambda s: s.upper()), ("lower", (), lambda s: s.lower()),
        ("capitalize", (), lambda s: s.capitalize()), ("trim", (), lambda s: s.strip()),
        ("trim", (" a",), lambda s: s.strip(" a")), ("replace", ("a", "XY"), lambda s: s.replace("a", "XY")),
        ("replace", (" ", "_", 1), lambda s: s.replace(" ", "_", 1)),
        ("title", (), title), ("striptags", (), lambda s: Markup(s).striptags()),
        ("urlencode", (), lambda s: quote(s.encode("utf-8", "surrogatepass") if False else s, safe="/")),
        ("format", None, None),
    ]
    for s in strings:
        for name, args, ref in table:
            ctx.count("wrapper_" + name)
            ctx.case()
            try:
                if name == "format":
                    r = env.call_filter("format", "%s-%s|" + s.replace("%", ""), ("x", 3))
                    want = ("%s-%s|" + s.replace("%", "")) % ("x", 3)
                else:
                    r = env.call_filter(name, s, args)
                    want = ref(s)
                if str(r) != str(want):
                    ctx.reject({"filter": name, "s": s, "args": list(args or ())}, f"returned {r!r}, the wrapped definition gives {want!r}", None)
                else:
                    ctx.validated()
            except Exception as ex:  # noqa: BLE001
                ctx.reject({"filter": name, "s": s}, f"raised {type(ex).__name__}", None)
    # urlencode of mappings / pair iterables: "&".join(quote_plus(k)=quote_plus(v)) over the ITEMS, for every
    # Mapping type (the documented parameter type is Mapping), and of scalars that print differently but compare
    # equal (1 / True / 1.0), in one process and in both orders
    import collections
    import types
    from urllib.parse import quote_plus

    def qs(pairs):
        return "&".join(f"{quote_plus(str(k), safe='')}={quote_plus(str(v), safe='')}" for k, v in pairs)
    base_maps = [{"ab": 1}, {"a b": "c&d", "x": "é/ü"}, {"abc": 1, "k": "v w"}, {}, {"k": 1}, {"page": 1, "debug": True},
                 {"a+b": "c+d e", "q?": "#frag%20=", "~-._": "*'()!"}, {"+": "+", " ": " "},
                 {"a": 1.0, "b": 1, "c": True, "d": 0, "e": False, "f": 0.0}]
    for m in base_maps:
        for make in (dict, lambda d: list(d.items()), lambda d: tuple(d.items()), types.MappingProxyType,
                     collections.OrderedDict, lambda d: collections.ChainMap(d), lambda d: collections.UserDict(d)):
            v = make(dict(m))
            ctx.count("wrapper_urlencode_mapping")
            ctx.case(key=("urlencode", type(v).__name__, repr(m)))
            case = {"filter": "urlencode", "value_type": type(v).__name__, "items": [[str(k), repr(x)] for k, x in m.items()]}
            try:
                r = env.call_filter("urlencode", v)
            except Exception as ex:  # noqa: BLE001
                ctx.reject(case, f"raised {type(ex).__name__} for a {type(v).__name__} of (key, value) items", None)
                continue
            if r != qs(m.items()):
                ctx.reject(case, f"returned {r!r}, the query string of the items is {qs(m.items())!r}", None)
            else:
                ctx.validated()
    for seq in ((1, True, 1.0, "1"), (True, 1, 1.0), (1.0, True, 1), (0, False, 0.0, -0.0), (False, 0), (2 ** 70, float(2 ** 70))):
        for v in seq:
            ctx.count("wrapper_urlencode_scalar")
            ctx.case(key=("urlencode_scalar", repr(seq), repr(v)))
            try:
                r = env.call_filter("urlencode", v)
                from urllib.parse import quote
                if r != quote(str(v), safe="/"):
                    ctx.reject({"filter": "urlencode", "value": repr(v), "after": repr(seq)},
                               f"returned {r!r}, expected {quote(str(v), safe='/')!r} (values quoted before: {seq!r})", None)
                else:
                    ctx.validated()
            except Exception as ex:  # noqa: BLE001
                ctx.reject({"filter": "urlencode", "value": repr(v)}, f"raised {type(ex).__name__}", None)
    for v in (42.55, 42.45, -0.5, 0.5, 1.5, 2.5, 1234.5678, 0, 7, -7.25, 1e-9, float("inf"), float("-inf"), float("nan")):
        for prec in (0, 1, 2, -1):
            for method in ("common", "ceil", "floor"):
                ctx.count("wrapper_round")
                ctx.case()
                # round is a thin wrapper: it must agree with its definition, exceptions included
                # (math.ceil(inf) raises OverflowError, math.floor(nan) ValueError — Python's own behaviour)
                try:
                    want = round(v, prec) if method == "common" else getattr(math, method)(v * (10 ** prec)) / (10 ** prec)
                except (OverflowError, ValueError) as ex:
                    want = type(ex)
                try:
                    r = env.call_filter("round", v, (prec, method))
                    if isinstance(want, type):
                        ctx.reject({"filter": "round", "value": repr(v), "precision": prec, "method": method},
                                   f"returned {r!r} where the definition raises {want.__name__}", None)
                        continue
                    if r != want and not (isinstance(r, float) and math.isnan(r) and math.isnan(want)):
                        ctx.reject({"filter": "round", "value": v, "precision": prec, "method": method}, f"returned {r!r}, expected {want!r}", None)
                    else:
                        ctx.validated()
                except Exception as ex:  # noqa: BLE001
                    if isinstance(want, type) and isinstance(ex, want):
                        ctx.validated()
                    else:
                        ctx.reject({"filter": "round", "value": repr(v)}, f"raised {type(ex).__name__}", None)


# ------------------------------------------------------------------ entry-point / spelling / environment / history matrix
class StrSub(str):
    """a user str subclass (soft_str keeps it; str() goes through __str__)"""
    def __str__(self):
        return str.__str__(self)


def matrix(ctx, jinja2):
    import re
    import types
    from markupsafe import Markup
    from urllib.parse import quote
    from .filt_matrix import Matrix
    mx = Matrix(ctx, jinja2, autoescape_group=True)
    texts = ["", "hello world", "  padded  ", "MiXeD case-word (x)", "a\nb c\r\nd", "é ü ǆ", "<b>x</b> &amp; y", "foo bar baz qux quux corge"]
    if ctx.tier != "thorough":
        texts = texts[:2] + texts[3:7:2] + texts[6:]
    kinds = [("str", str), ("Markup", Markup), ("StrSub", StrSub)]
    odd = [42, True, None, 3.5, jinja2.Undefined(name="u")]
    title_re = re.compile(r"([-\s({\[<]+)")

    def ref_title(s):
        return "".join(item[0].upper() + item[1:].lower() for item in title_re.split(s) if item)
    try:
        for t in texts:
            for kname, K in kinds:
                v = K(t)
                plain = kname == "str"
                for w in (0, 9, 20):
                    mx.apply("C23", "center", v, (w,), ("width",), expect=(lambda t=t, w=w: t.center(w)) if plain else None, auto_same=plain)
                mx.apply("C23", "center", v, (), (), expect=(lambda t=t: t.center(80)) if plain else None)
                for chars in ((), (None,), (" ",), ("xh d",)):
                    mx.apply("C23", "trim", v, chars, ("chars",), expect=(lambda t=t, c=chars: t.strip(*c)) if plain else None)
                for f, ref in (("title", ref_title), ("capitalize", str.capitalize), ("upper", str.upper), ("lower", str.lower),
                               ("wordcount", lambda x: len(re.findall(r"\w+", x))), ("striptags", lambda x: Markup(x).striptags())):
                    mx.apply("C23", f, v, (), (), expect=(lambda t=t, ref=ref: ref(t)) if plain else None)
                for a in (("a", "XY"), (" ", "_", 1), ("l", "L", None), ("o", "0", 0), ("", "-", 2)):
                    mx.apply("C23", "replace", v, a, ("old", "new", "count"),
                             expect=(lambda t=t, a=a: t.replace(a[0], a[1], -1 if len(a) < 3 or a[2] is None else a[2])) if plain else None,
                             # plain text and plain arguments: the autoescape-on branch gives the same text
                             auto_same=plain and not any(c in t + a[0] + a[1] for c in "<>&'\""))
                for a in ((9, False, "...", 0), (5, True, "…", 2), (255, False, "...", None), (12,), (7, True)):
                    mx.apply("C23", "truncate", v, a, ("length", "killwords", "end", "leeway"), auto_same=plain)
                for a in ((10,), (5, True, "\n", False), (7, False, None, True), (79, True, " | ")):
                    mx.apply("C23", "wordwrap", v, a, ("width", "break_long_words", "wrapstring", "break_on_hyphens"), auto_same=plain)
                for a in ((), (2,), (">>", True), (4, False, True), (0, True, True)):
                    mx.apply("C23", "indent", v, a, ("width", "first", "blank"), auto_same=plain)
                mx.apply("C23", "urlencode", v, (), (), expect=(lambda t=t: quote(t, safe="/")) if plain else None)
        for v in odd:
            for f in ("center", "trim", "title", "capitalize", "upper", "lower", "wordcount", "striptags", "urlencode", "truncate",
                      "wordwrap", "indent"):
                mx.apply("C23", f, v, (), ())
            mx.apply("C23", "replace", v, ("e", "E"), ("old", "new", "count"))
        # format: positional arguments, or keyword arguments, not both
        for K in (str, Markup, StrSub):
            mx.apply("C23", "format", K("%s-%s|%%"), ("x", 3), (), expect=(lambda: "x-3|%") if K is str else None)
            mx.apply("C23", "format", K("%(a)s and %(b)05.1f"), {"a": "<x>", "b": 2.25}, (), expect=(lambda: "<x> and 002.2") if K is str else None)
            mx.apply("C23", "format", K("no placeholders"), (), (), expect=(lambda: "no placeholders") if K is str else None)
            mx.apply("C23", "format", K("%d"), ("x",), ())
            # format is `string % values`: a single CONTAINER argument is one value, not the argument list
            for tmpl, args in (("%s", ((1, 2),)), ("%s", ([1, 2],)), ("%s", ({"a": 1},)), ("%r|%s", ((1,), "x")), ("%s", ((),)),
                               ("%(a)s", ({"a": 1},)), ("%s and %s", ((1, 2),)), ("%s", (0,)), ("%s", ("",)), ("%s", (None,)), ("%s", (False,))):
                mx.apply("C23", "format", K(tmpl), args, (), expect=(lambda tmpl=tmpl, args=args: tmpl % args) if K is str else None)
        # FALSY BUT VALID arguments: width 0, empty end / wrapstring / chars / new, count 0, precision 0, default 0 / "" / False
        t0 = "foo bar baz qux"
        mx.apply("C23", "truncate", t0, (9, True, "", 0), ("length", "killwords", "end", "leeway"), expect=lambda: t0[:9])
        mx.apply("C23", "truncate", t0, (9, False, "", 0), ("length", "killwords", "end", "leeway"), expect=lambda: "foo bar")
        mx.apply("C23", "wordwrap", t0, (7, True, ""), ("width", "break_long_words", "wrapstring"), expect=lambda: "foo barbaz qux")
        mx.apply("C23", "indent", "a\nb", ("", True, True), ("width", "first", "blank"), expect=lambda: "a\nb")
        mx.apply("C23", "indent", "a\nb", (0, True), ("width", "first"), expect=lambda: "a\nb")
        mx.apply("C23", "trim", " x ", ("",), ("chars",), expect=lambda: " x ")
        mx.apply("C23", "replace", "aaa", ("a", "", 2), ("old", "new", "count"), expect=lambda: "a", auto_same=True)
        mx.apply("C23", "replace", "aaa", ("a", "b", 0), ("old", "new", "count"), expect=lambda: "aaa", auto_same=True)
        from markupsafe import escape as _esc
        for val, a in ((Markup("a<b>a a"), ("a", "<x>", 1)), (Markup("a a a"), ("a", Markup("<i>"), 2)), ("a&a a", ("a", Markup("<i>"), 1)),
                       (Markup("aaa"), ("a", "b", 0)), ("x<x", ("x", "y", None))):
            # autoescape on: Markup.replace on the (escaped) text with escaped plain arguments, count honoured
            def auto_ref(val=val, a=a):
                sv = val if isinstance(val, Markup) else (_esc(val) if any(hasattr(x, "__html__") for x in a[:2]) else val)
                return sv.replace(a[0], a[1], -1 if a[2] is None else a[2])
            mx.apply("C23", "replace", val, a, ("old", "new", "count"), auto_expect=auto_ref)
        mx.apply("C23", "center", "x", (0,), ("width",), expect=lambda: "x")
        mx.apply("C23", "int", "x", (False,), ("default",), expect=lambda: False)
        mx.apply("C23", "float", "x", ("",), ("default",), expect=lambda: "")
        mx.apply("C23", "filesizeformat", 0, (False,), ("binary",), expect=lambda: "0 Bytes")
        mx.apply("C23", "filesizeformat", -0.0, (), (), expect=lambda: "0 Bytes")
        # urlencode of mappings and pair iterables
        for m in ({"ab": 1}, {"a b": "c&d", "x": "é/ü"}, {}):
            for make in (dict, lambda d: list(d.items()), types.MappingProxyType, lambda d: iter(list(d.items()))):
                mx.apply("C23", "urlencode", make(dict(m)), (), (), fresh_value=lambda m=m, make=make: make(dict(m)))
        # numbers
        for v in (0, 1, 999, 1000, 1024, 10 ** 6, 5 * 1024 ** 3, 10 ** 24, 2.5e6, "2048", True, 1023.9):
            for a in ((), (False,), (True,)):
                mx.apply("C23", "filesizeformat", v, a, ("binary",))
        import math
        import decimal
        import fractions

        def ref_round(v, precision=0, method="common"):
            # the documented contract: rounds to the precision with the method, and "even if rounded to 0
            # precision, a float is returned"
            if method not in ("common", "ceil", "floor"):
                raise jinja2.exceptions.FilterArgumentError("method")
            if method == "common":
                return float(round(v, precision))
            return float(getattr(math, method)(v * (10 ** precision)) / (10 ** precision))
        for v in (42.55, 2.5, -0.5, 7, 42, -3, 0, 1234.5678, True, "3.7", decimal.Decimal("2.675"), fractions.Fraction(7, 2)):
            for a in ((), (0, "common"), (1, "floor"), (2, "ceil"), (-1, "common"), (1,), (0, "bogus"), (0, "ceil"), (0, "floor")):
                mx.apply("C23", "round", v, a, ("precision", "method"), expect=lambda v=v, a=a: ref_round(v, *a))
        for v in ("42", "0x1A", "abc", 3.9, None, True, "1e3", " 7 ", float("inf"), 10 ** 400, [1], Markup("12"), StrSub("13")):
            # the default comes back exactly as given, whatever its type
            def ref_int(v=v, default=0, base=10):
                try:
                    return int(v, base) if isinstance(v, str) else int(v)
                except (TypeError, ValueError, OverflowError):
                    try:
                        return int(float(v))
                    except (TypeError, ValueError, OverflowError):
                        return default

            def ref_float(v=v, default=0.0):
                try:
                    return float(v)
                except (TypeError, ValueError, OverflowError):
                    return default
            for a in ((), (0, 10), (7, 16), (-1, 8), (5,), (2.5,), ("7",), (True,), (None,), (-0.75, 16), (Markup("x"),)):
                mx.apply("C23", "int", v, a, ("default", "base"), expect=lambda a=a, ref_int=ref_int: ref_int(*((v,) + a)))
            for a in ((), (0.5,), ("d",), (7,), (True,), (None,)):
                mx.apply("C23", "float", v, a, ("default",), expect=lambda a=a, ref_float=ref_float: ref_float(*((v,) + a)))
        mx.history_pass()
        mx.alternation_pass(envnames=("sync", "async"))
    finally:
        mx.close()
    # configuration history: a policy changed between two applications on ONE environment must take
    # effect at once (nothing derived from env.policies may be cached), also in an overlay made before
    for mk in (lambda: jinja2.Environment(), lambda: jinja2.Environment(enable_async=True)):
        env = mk()
        ov = env.overlay()
        text = "foo bar baz qux quux"
        for leeway in (5, 0, 3, 5):
            env.policies["truncate.leeway"] = leeway
            fresh = jinja2.Environment()
            fresh.policies["truncate.leeway"] = leeway
            want = fresh.call_filter("truncate", text, (15,))
            for which, e in (("environment", env), ("overlay", ov)):
                ctx.count("policy_history")
                ctx.case(key=("policy_history", env.is_async, which, leeway))
                got = e.from_string("{{ t|truncate(15) }}").render(t=text) if not e.is_async else \
                    mx_render_async(e, "{{ t|truncate(15) }}", t=text)
                if got != want or e.call_filter("truncate", text, (15,)) != want:
                    ctx.reject({"filter": "truncate", "policy": "truncate.leeway", "value": leeway, "through": which},
                               f"after changing the policy on the same environment the result is {got!r}, a fresh environment gives {want!r}", None)
                else:
                    ctx.validated()


def mx_render_async(env, src, **data):
    import asyncio
    loop = asyncio.new_event_loop()
    try:
        return loop.run_until_complete(env.from_string(src).render_async(**data))
    finally:
        loop.close()


# ------------------------------------------------------------------ regenerated obligations
LETTER = {"TypeError": "T", "ValueError": "V", "OverflowError": "O"}
SUPER = {"Exception": "TVO", "BaseException": "TVO", "ArithmeticError": "O"}


def to_letters(names):
    out = ""
    for n in names:
        out += LETTER.get(n, SUPER.get(n, ""))
    return "".join(sorted(set(out)))


def regenerated(ctx):
    import filt_facts
    try:
        hi = filt_facts.caught_classes(lib.REPO, "do_int")
        hf = filt_facts.caught_classes(lib.REPO, "do_float")
        if len(hi) != 2 or len(hf) != 1:
            raise filt_facts.TranslatorError(f"do_int has {len(hi)} handlers, do_float {len(hf)} (expected 2 and 1)")
    except Exception as e:  # noqa: BLE001
        ctx.obligations += 1
        ctx.obligation_names.append("FiltGen_c23 (regenerated)")
        ctx.broken.append(f"translator gen/filt_facts.py failed on do_int/do_float: {e}")
        return ("TV", "TVO", "TV")
    letters = (to_letters(hi[0]), to_letters(hi[1]), to_letters(hf[0]))
    coq = {"T": "TypeError", "V": "ValueError", "O": "OverflowError"}
    lst = lambda ls: "[" + "; ".join(coq[c] for c in ls) + "]"  # noqa: E731
    text = f"""(* generated by harness/c23.py from the except clauses of do_int / do_float in filters.py *)
From Coq Require Import List Bool ZArith.
Import ListNotations.
From JV Require Import Model.FiltStr Proofs.FiltStrProofs Properties.C23.
Definition caught_int_outer : list exn := {lst(letters[0])}.   (* {hi[0]} *)
Definition caught_int_inner : list exn := {lst(letters[1])}.   (* {hi[1]} *)
Definition caught_float : list exn := {lst(letters[2])}.       (* {hf[0]} *)
Theorem handlers_cover : covers caught_int_outer /\\ covers caught_int_inner /\\ covers caught_float.
Proof. vm_compute. repeat split; reflexivity. Qed.
Theorem int_total_now : forall (V I F : Type) is_str int_str int_val float_val int_float,
  (forall v b e, int_str v b = Raises e -> conv_exn e) -> (forall v e, int_val v = Raises e -> conv_exn e) ->
  (forall v e, float_val v = Raises e -> conv_exn e) -> (forall f e, int_float f = Raises e -> conv_exn e) ->
  forall v d b, exists i, do_int V I F is_str int_str int_val float_val int_float caught_int_outer caught_int_inner v d b = Returns i.
Proof. intros. apply C23_int_total; try assumption; apply handlers_cover. Qed.
Theorem float_total_now : forall (V F : Type) float_val,
  (forall v e, float_val v = Raises e -> conv_exn e) ->
  forall v d, exists f, do_float V F float_val caught_float v d = Returns f.
Proof. intros. apply C23_float_total; try assumption; apply handlers_cover. Qed.
Theorem table_total_now :
  forallb (fun k => match int_shape caught_int_outer caught_int_inner k, float_shape caught_float k with
                    | SRaises _, _ | _, SRaises _ => false | _, _ => true end) all_kinds = true.
Proof. vm_compute. reflexivity. Qed.
"""
    ctx.pending_parts.append(("Handlers", text, 4))
    ctx.extra["except_clauses"] = {"do_int": [list(h) for h in hi], "do_float": [list(h) for h in hf]}
    return letters


def run(ctx):
    jinja2 = lib.use_repo_jinja()
    ctx.extra["rule"] = RULE
    ctx.extra["no_theorem_wrappers"] = ("upper lower capitalize trim replace format striptags urlencode title round: "
                                        "no non-trivial theorem; results compared with the wrapped Python definition only")
    ctx.assumptions += [
        "CPython's int() and float() raise nothing but TypeError, ValueError, OverflowError (hypotheses H_int_str, H_int_val, H_float_val, H_int_float; the kind table is validated row by row in every run)",
        "textwrap.wrap only drops or moves whitespace (wrap_preserves) and every str.splitlines boundary character is whitespace (linebreak_is_space)",
        "\\w is modelled on ASCII for the wordcount tie (the theorem is for any character class)",
        "the .1f formatting of filesizeformat is an oracle; float(value) is exact for the integers compared exactly",
    ]
    ctx.pending_parts = []
    letters = regenerated(ctx)
    from .c22 import source_equations, flush_obligations
    from . import filt_common as fc
    source_equations(ctx, "truncate")
    bg = fc.Background(lambda: (ctx.proof("C23"), flush_obligations(ctx, "Gen_filt_c23")))
    env = jinja2.Environment()
    env2 = jinja2.Environment()
    env2.policies["truncate.leeway"] = 0
    g = fc.guarded
    g(ctx, "int/float kinds", tie_numbers, ctx, env, letters)
    g(ctx, "truncate", tie_truncate, ctx, env, env2)
    g(ctx, "truncate (Markup)", tie_truncate_markup, ctx, jinja2.Environment(autoescape=True))
    g(ctx, "filesizeformat outside domain", observe_filesize_nonfinite, ctx, env)
    g(ctx, "indent/center/wordcount/wordwrap", tie_lines, ctx, env)
    g(ctx, "filesizeformat", tie_filesize, ctx, env)
    g(ctx, "wrappers", wrappers, ctx, env, jinja2)
    g(ctx, "matrix", matrix, ctx, jinja2)
    bg.join()


def replay(ctx, data):
    jinja2 = lib.use_repo_jinja()
    case = data.get("case")
    if data.get("kind") != "failing-input" or case is None:
        print("replay: this file names a broken theorem/correspondence, not an input:", data.get("broken"))
        return run(ctx)
    print("case:", case, "\nwhat:", data.get("what"))
    env = jinja2.Environment()
    if case.get("filter") in ("int", "float") and "kind" in case:
        v = eval(case["value"], {"inf": float("inf"), "nan": float("nan")})  # values are reprs of plain literals
        try:
            print("real:", repr(env.call_filter(case["filter"], v))[:80])
        except Exception as ex:  # noqa: BLE001
            print("real raised", type(ex).__name__)
            ctx.reject(case, f"{case['filter']} filter raised {type(ex).__name__} instead of returning the default", data.get("signature"))
        return
    return run(ctx)
