"""Shared helpers of the expression-pipeline checks (C02, C08, C20).

Expressions are nested tuples (the same shapes as the Coq type ExprAst.expr):
  ('C', v) ('N', name) ('B', op, a, b) ('U', op, a) ('!', a) ('&', a, b) ('|', a, b) ('~', [es])
  ('cmp', a, [(op, e)..]) ('?', t, a, b|None) ('.', a, name) ('[]', a, k) ('sl', a, lo, hi, st)
  ('L', [es]) ('T', [es]) ('D', [(k, v)..]) ('call', f, [args], [(key, e)..]) ('F', a, name, [args])
  ('is', a, name, [args])
Values are Python values: int, bool, None, str, Markup, list, tuple, dict, Obj, Fn.
"""
import ast
import asyncio
import re

from . import lib

BINOPS = {"add": "+", "sub": "-", "mul": "*", "div": "/", "floordiv": "//", "mod": "%", "pow": "**"}
UNOPS = {"neg": "-", "pos": "+"}
CMPOPS = {"eq": "==", "ne": "!=", "lt": "<", "lteq": "<=", "gt": ">", "gteq": ">=", "in": "in", "notin": "not in"}
ALL_IB = "ib=" + "+".join(BINOPS)
ALL_IU = "iu=neg+pos"


# ------------------------------------------------------------------ probe values
class Obj:
    """probe object with an attribute map AND an item map (possibly the same names)"""
    __slots__ = ("_oid", "_attrs", "_items")

    def __init__(self, oid, attrs, items):
        object.__setattr__(self, "_oid", oid)
        object.__setattr__(self, "_attrs", dict(attrs))
        object.__setattr__(self, "_items", list(items))

    def __getattr__(self, name):
        try:
            return object.__getattribute__(self, "_attrs")[name]
        except KeyError:
            raise AttributeError(name) from None

    def __getitem__(self, key):
        for k, v in object.__getattribute__(self, "_items"):
            try:
                if k == key:
                    return v
            except Exception:
                pass
        raise KeyError(key)

    def __repr__(self):
        return "<o%d>" % object.__getattribute__(self, "_oid")


class ProbeCallError(RuntimeError):
    pass


class Fn:
    """opaque callable: f0 raises, fN returns (N, [args], [(key, value)..]); calls are logged"""

    def __init__(self, fid, log):
        self.fid = fid
        self.log = log

    def __call__(self, *args, **kw):
        self.log.append(("call", self.fid, list(args), list(kw.items())))
        if self.fid == 0:
            raise ProbeCallError("f0")
        return (self.fid, list(args), [(k, v) for k, v in kw.items()])

    def __repr__(self):
        return "<f%d>" % self.fid


def _markup():
    from markupsafe import Markup
    return Markup


# ------------------------------------------------------------------ s-expression encoding
def enc_str(s, tag="s"):
    return "(" + tag + "".join(" %d" % ord(c) for c in s) + ")"


def enc_value(v):
    """full encoding (driver input)"""
    Markup = _markup()
    if v is None:
        return "n"
    if v is True or v is False:
        return "(b %d)" % int(v)
    if isinstance(v, int):
        return "(i %d)" % v
    if isinstance(v, Markup):
        return enc_str(str(v), "m")
    if isinstance(v, str):
        return enc_str(v)
    if isinstance(v, list):
        return "(l" + "".join(" " + enc_value(x) for x in v) + ")"
    if isinstance(v, tuple):
        return "(t" + "".join(" " + enc_value(x) for x in v) + ")"
    if isinstance(v, dict):
        return "(d" + "".join(" " + enc_value(k) + " " + enc_value(x) for k, x in v.items()) + ")"
    if isinstance(v, Obj):
        at = object.__getattribute__(v, "_attrs")
        it = object.__getattribute__(v, "_items")
        return ("(o %d (a" % object.__getattribute__(v, "_oid") + "".join(" " + enc_str(k) + " " + enc_value(x) for k, x in at.items())
                + ") (k" + "".join(" " + enc_value(k) + " " + enc_value(x) for k, x in it) + "))")
    if isinstance(v, Fn):
        return "(f %d)" % v.fid
    if isinstance(v, float):
        raise ValueError("floats are not driver inputs")
    raise ValueError("cannot encode %r" % (v,))


def enc_expr(e):
    t = e[0]
    if t == "C":
        return "(C " + enc_value(e[1]) + ")"
    if t == "N":
        return "(N " + enc_str(e[1]) + ")"
    if t == "B":
        return "(B %s %s %s)" % (e[1], enc_expr(e[2]), enc_expr(e[3]))
    if t == "U":
        return "(U %s %s)" % (e[1], enc_expr(e[2]))
    if t == "!":
        return "(! %s)" % enc_expr(e[1])
    if t in "&|":
        return "(%s %s %s)" % (t, enc_expr(e[1]), enc_expr(e[2]))
    if t == "~":
        return "(~" + "".join(" " + enc_expr(x) for x in e[1]) + ")"
    if t == "cmp":
        return "(cmp " + enc_expr(e[1]) + "".join(" (%s %s)" % (o, enc_expr(x)) for o, x in e[2]) + ")"
    if t == "?":
        return "(? %s %s%s)" % (enc_expr(e[1]), enc_expr(e[2]), "" if e[3] is None else " " + enc_expr(e[3]))
    if t == ".":
        return "(. %s %s)" % (enc_expr(e[1]), enc_str(e[2]))
    if t == "[]":
        return "([] %s %s)" % (enc_expr(e[1]), enc_expr(e[2]))
    if t == ".i":          # dotted integer subscript  x.0  (the same node as x[0], another spelling)
        return "([] %s (C (i %d)))" % (enc_expr(e[1]), e[2])
    if t == "sl":
        return "(sl %s %s)" % (enc_expr(e[1]), " ".join("_" if x is None else enc_expr(x) for x in e[2:5]))
    if t in "LT":
        return "(" + t + "".join(" " + enc_expr(x) for x in e[1]) + ")"
    if t == "D":
        return "(D" + "".join(" (%s %s)" % (enc_expr(k), enc_expr(v)) for k, v in e[1]) + ")"
    if t == "call":
        return ("(call " + enc_expr(e[1]) + " (args" + "".join(" " + enc_expr(x) for x in e[2]) + ") (kw"
                + "".join(" (%s %s)" % (enc_str(k), enc_expr(x)) for k, x in e[3]) + "))")
    if t in ("F", "is"):
        return "(%s %s %s%s)" % (t, enc_expr(e[1]), enc_str(e[2]), "".join(" " + enc_expr(x) for x in e[3]))
    raise ValueError(t)


def enc_env(data):
    return "(env" + "".join(" " + enc_str(k) + " " + enc_value(v) for k, v in data.items()) + ")"


def parse_sx(s):
    toks = re.findall(r"\(|\)|[^\s()]+", s)
    pos = 0

    def item():
        nonlocal pos
        t = toks[pos]
        pos += 1
        if t == "(":
            out = []
            while toks[pos] != ")":
                out.append(item())
            pos += 1
            return out
        return t
    out = []
    while pos < len(toks):
        out.append(item())
    return out


def canon_model(sx):
    """model's printed value (parsed s-expression) -> comparable structure"""
    if sx == "n":
        return ("n",)
    t = sx[0]
    if t == "i":
        return ("i", int(sx[1])) if sx[1] != "BIG" else ("i", "BIG")
    if t == "b":
        return ("b", sx[1] == "1")
    if t in "sm":
        return (t, "".join(chr(int(c)) for c in sx[1:]))
    if t in "lt":
        return (t, [canon_model(x) for x in sx[1:]])
    if t == "d":
        return ("d", [(canon_model(sx[i]), canon_model(sx[i + 1])) for i in range(1, len(sx), 2)])
    if t in "of":
        return (t, int(sx[1]))
    if t == "u":
        return ("u", sx[1]) + ((canon_model(sx[2])[1],) if len(sx) > 2 else ())
    if t == "F":
        try:
            return ("F", int(sx[1]) / int(sx[2]))
        except (OverflowError, ValueError):
            return ("F", "?")
    raise ValueError(sx)


def canon_real(v):
    """a value produced by the real engine -> the same comparable structure"""
    Markup = _markup()
    from jinja2 import Undefined
    from jinja2.exceptions import SecurityError
    from jinja2.utils import missing
    if v is None:
        return ("n",)
    if v is True or v is False:
        return ("b", v)
    if isinstance(v, int):
        return ("i", v)
    if isinstance(v, float):
        return ("F", v)
    if isinstance(v, Markup):
        return ("m", str(v))
    if isinstance(v, str):
        return ("s", v)
    if isinstance(v, list):
        return ("l", [canon_real(x) for x in v])
    if isinstance(v, tuple):
        return ("t", [canon_real(x) for x in v])
    if isinstance(v, dict):
        return ("d", [(canon_real(k), canon_real(x)) for k, x in v.items()])
    if isinstance(v, Obj):
        return ("o", object.__getattribute__(v, "_oid"))
    if isinstance(v, Fn):
        return ("f", v.fid)
    if isinstance(v, Undefined):
        if v._undefined_exception is SecurityError:
            return ("u", "sec", str(v._undefined_name))
        if v._undefined_obj is missing:
            if v._undefined_hint and "inline if-expression" in v._undefined_hint:
                return ("u", "cond")
            return ("u", "name", str(v._undefined_name))
        if isinstance(v._undefined_name, str):
            return ("u", "attr", str(v._undefined_name))
        return ("u", "item")
    return ("?", type(v).__name__)


def canon_res(field):
    """'ok <value>' / 'err <class>' of the driver -> ('ok', structure) / ('err', class)"""
    field = field.strip()
    if field.startswith("ok"):
        sx = parse_sx(field[2:])
        return ("ok", canon_model(sx[0]))
    return ("err", field.split()[1])


def canon_text(field):
    field = field.strip()
    if field.startswith("ok"):
        return ("ok", canon_model(parse_sx(field[2:])[0])[1])
    return ("err", field.split()[1])


def canon_log(field):
    out = []
    for ev in parse_sx(field):
        if ev[0] == "call":
            out.append(("call", int(ev[1]), [canon_model(x) for x in ev[2]],
                        [(canon_model(ev[3][i])[1], canon_model(ev[3][i + 1])) for i in range(0, len(ev[3]), 2)]))
        elif ev[0] == "bin":
            out.append(("bin", ev[1], canon_model(ev[2]), canon_model(ev[3])))
        else:
            out.append(("un", ev[1], canon_model(ev[2])))
    return out


def canon_real_log(log):
    out = []
    for ev in log:
        if ev[0] == "call":
            out.append(("call", ev[1], [canon_real(x) for x in ev[2]], [(k, canon_real(x)) for k, x in ev[3]]))
        elif ev[0] == "bin":
            out.append(("bin", ev[1], canon_real(ev[2]), canon_real(ev[3])))
        else:
            out.append(("un", ev[1], canon_real(ev[2])))
    return out


def split_fields(line):
    """'S .. | SL .. | P ..' -> dict"""
    out = {}
    for part in line.split(" | "):
        part = part.strip()
        k, _, v = part.partition(" ")
        out[k] = v
    return out


def err_class(e):
    from jinja2.exceptions import SecurityError, TemplateAssertionError, TemplateRuntimeError, TemplateSyntaxError, UndefinedError
    if isinstance(e, ProbeCallError):
        return "call"
    if isinstance(e, UndefinedError):
        return "undef"
    if isinstance(e, SecurityError):
        return "sec"
    if isinstance(e, TemplateAssertionError):
        return "nofilter" if "named" in str(e) else "X:TemplateAssertionError"
    if isinstance(e, TemplateSyntaxError):
        return "X:TemplateSyntaxError"
    if isinstance(e, TemplateRuntimeError):
        return "nofilter" if "named" in str(e) else "X:TemplateRuntimeError"
    if isinstance(e, ZeroDivisionError):
        return "zero"
    if isinstance(e, TypeError):
        return "type"
    if isinstance(e, KeyError):
        return "key"
    if isinstance(e, ValueError):
        return "value"
    return "X:" + type(e).__name__


# ------------------------------------------------------------------ source text
def src_const(v):
    if v is None:
        return "none"
    if v is True:
        return "true"
    if v is False:
        return "false"
    if isinstance(v, int):
        assert v >= 0
        return str(v)
    if isinstance(v, float):
        assert v >= 0 and v == v and v != float("inf")
        return repr(v)
    if isinstance(v, str):
        assert '"' not in v and "\\" not in v and "\n" not in v
        return '"' + v + '"'
    raise ValueError(v)


def to_src(e):
    """fully parenthesised Jinja source (precedence plays no role: that is K-parse's job)"""
    t = e[0]
    p = lambda x: "(" + to_src(x) + ")"  # noqa: E731
    if t == "C":
        return src_const(e[1])
    if t == "N":
        return e[1]
    if t == "B":
        return p(e[2]) + " " + BINOPS[e[1]] + " " + p(e[3])
    if t == "U":
        return UNOPS[e[1]] + p(e[2])
    if t == "!":
        return "not " + p(e[1])
    if t == "&":
        return p(e[1]) + " and " + p(e[2])
    if t == "|":
        return p(e[1]) + " or " + p(e[2])
    if t == "~":
        return " ~ ".join(p(x) for x in e[1])
    if t == "cmp":
        return p(e[1]) + "".join(" " + CMPOPS[o] + " " + p(x) for o, x in e[2])
    if t == "?":
        return p(e[2]) + " if " + p(e[1]) + ("" if e[3] is None else " else " + p(e[3]))
    if t == ".":
        return p(e[1]) + "." + e[2]
    if t == "[]":
        return p(e[1]) + "[" + to_src(e[2]) + "]"
    if t == ".i":
        base = to_src(e[1]) if e[1][0] in ("N", ".i", ".") else p(e[1])
        return base + "." + str(e[2])
    if t == "sl":
        lo, hi, st = e[2:5]
        s = ("" if lo is None else to_src(lo)) + ":" + ("" if hi is None else to_src(hi))
        if st is not None:
            s += ":" + to_src(st)
        return p(e[1]) + "[" + s + "]"
    if t == "L":
        return "[" + ", ".join(to_src(x) for x in e[1]) + "]"
    if t == "T":
        return "(" + ", ".join(to_src(x) for x in e[1]) + ("," if len(e[1]) == 1 else "") + ")"
    if t == "D":
        return "{" + ", ".join(to_src(k) + ": " + to_src(v) for k, v in e[1]) + "}"
    if t == "callx":        # call with *args / **kwargs (reference-evaluator stream only; outside the Coq model)
        parts = [to_src(x) for x in e[2]] + [k + "=" + to_src(x) for k, x in e[3]]
        if e[4] is not None:
            parts.append("*" + to_src(e[4]))
        if e[5] is not None:
            parts.append("**" + to_src(e[5]))
        return p(e[1]) + "(" + ", ".join(parts) + ")"
    if t == "call":
        return p(e[1]) + "(" + ", ".join([to_src(x) for x in e[2]] + [k + "=" + to_src(x) for k, x in e[3]]) + ")"
    if t == "F":
        return p(e[1]) + "|" + e[2] + ("(" + ", ".join(to_src(x) for x in e[3]) + ")" if e[3] else "")
    if t == "is":
        return p(e[1]) + " is " + e[2] + ("(" + ", ".join(to_src(x) for x in e[3]) + ")" if e[3] else "")
    raise ValueError(t)


def from_node(node):
    """real jinja2.nodes expression -> tuple form (None when outside the modelled syntax)"""
    from jinja2 import nodes
    bin_names = {nodes.Add: "add", nodes.Sub: "sub", nodes.Mul: "mul", nodes.Div: "div",
                 nodes.FloorDiv: "floordiv", nodes.Mod: "mod", nodes.Pow: "pow"}
    f = from_node
    if isinstance(node, nodes.Const):
        return ("C", node.value)
    if isinstance(node, nodes.Name):
        return ("N", node.name)
    if type(node) in bin_names:
        return ("B", bin_names[type(node)], f(node.left), f(node.right))
    if isinstance(node, nodes.Neg):
        return ("U", "neg", f(node.node))
    if isinstance(node, nodes.Pos):
        return ("U", "pos", f(node.node))
    if isinstance(node, nodes.Not):
        return ("!", f(node.node))
    if isinstance(node, nodes.And):
        return ("&", f(node.left), f(node.right))
    if isinstance(node, nodes.Or):
        return ("|", f(node.left), f(node.right))
    if isinstance(node, nodes.Concat):
        return ("~", [f(x) for x in node.nodes])
    if isinstance(node, nodes.Compare):
        return ("cmp", f(node.expr), [(o.op, f(o.expr)) for o in node.ops])
    if isinstance(node, nodes.CondExpr):
        return ("?", f(node.test), f(node.expr1), None if node.expr2 is None else f(node.expr2))
    if isinstance(node, nodes.Getattr):
        return (".", f(node.node), node.attr)
    if isinstance(node, nodes.Getitem):
        if isinstance(node.arg, nodes.Slice):
            s = node.arg
            return ("sl", f(node.node), *[None if x is None else f(x) for x in (s.start, s.stop, s.step)])
        return ("[]", f(node.node), f(node.arg))
    if isinstance(node, nodes.List):
        return ("L", [f(x) for x in node.items])
    if isinstance(node, nodes.Tuple):
        return ("T", [f(x) for x in node.items])
    if isinstance(node, nodes.Dict):
        return ("D", [(f(p.key), f(p.value)) for p in node.items])
    if isinstance(node, nodes.Call):
        if node.dyn_args is not None or node.dyn_kwargs is not None:
            return ("?unsupported", "dyn")
        return ("call", f(node.node), [f(x) for x in node.args], [(k.key, f(k.value)) for k in node.kwargs])
    if isinstance(node, (nodes.Filter, nodes.Test)):
        if node.kwargs or node.dyn_args is not None or node.dyn_kwargs is not None:
            return ("?unsupported", "kwargs")
        return ("F" if isinstance(node, nodes.Filter) else "is", f(node.node), node.name, [f(x) for x in node.args])
    return ("?unsupported", type(node).__name__)


# ------------------------------------------------------------------ environments
def model_cfg(mode, ae=False, vol=False, rtae=False, ib=None, iu=None, pert=False):
    fl = []
    if mode == "sandbox":
        fl += ["sb", "ib=" + "+".join(ib if ib is not None else BINOPS), "iu=" + "+".join(iu if iu is not None else UNOPS)]
    if mode == "async":
        fl.append("async")
    if mode == "noopt":
        fl.append("noopt")
    if ae:
        fl.append("ae")
    if vol:
        fl.append("vol")
    if rtae:
        fl.append("rtae")
    if pert:
        fl.append("pert")
    return ",".join(fl) or "-"


_ENVS = {}


def real_env(mode, ae=False):
    """the four environments of C02/C08 (cached)"""
    key = (mode, ae)
    if key in _ENVS:
        return _ENVS[key]
    import jinja2
    from jinja2.sandbox import SandboxedEnvironment
    if mode == "default":
        env = jinja2.Environment(autoescape=ae)
    elif mode == "async":
        env = jinja2.Environment(autoescape=ae, enable_async=True)
    elif mode == "noopt":
        env = jinja2.Environment(autoescape=ae, optimized=False)
    elif mode == "sandbox":
        class SB(SandboxedEnvironment):
            intercepted_binops = frozenset(BINOPS.values())
            intercepted_unops = frozenset(UNOPS.values())
        env = SB(autoescape=ae)
    else:
        raise ValueError(mode)
    env.globals.clear()     # no range/dict/lipsum/cycler/joiner/namespace: names are context-only
    _ENVS[key] = env
    return env


_LOOP = None


def guarded(ctx, fn, *a, seconds=10.0, **k):
    """run one case under lib.cpu_guard; an overrun is a SKIPPED case (counted), never a verdict.  Returns (done, value)."""
    global _LOOP
    try:
        with lib.cpu_guard(seconds):
            return True, fn(*a, **k)
    except lib.Hang:
        _LOOP = None                     # the event loop may have been interrupted in the middle of a step
        ctx.case()
        ctx.count("skipped_cpu_guard")
        import sys
        print("cpu_guard: skipped", getattr(fn, "__name__", "case"), repr(a[:2])[:300], file=sys.stderr)
        return False, None


def run_async(coro):
    global _LOOP
    if _LOOP is None:
        _LOOP = asyncio.new_event_loop()
    return _LOOP.run_until_complete(coro)


def real_value(env, src, data):
    """('ok', canon) / ('err', class) of compile_expression(src, undefined_to_none=False)(**data)"""
    try:
        fn = env.compile_expression(src, undefined_to_none=False)
    except Exception as e:
        return ("err", "compile:" + err_class(e))
    try:
        return ("ok", canon_real(fn(**data)))
    except RecursionError:
        return ("err", "X:RecursionError")
    except Exception as e:
        return ("err", err_class(e))


def real_render(env, tsrc, data):
    try:
        t = env.from_string(tsrc)
    except Exception as e:
        return ("err", "compile:" + err_class(e))
    try:
        if env.is_async:
            return ("ok", run_async(t.render_async(**data)))
        return ("ok", t.render(**data))
    except Exception as e:
        return ("err", err_class(e))


# ------------------------------------------------------------------ K-gen: emitted Python
class _Norm(ast.NodeTransformer):
    def __init__(self, tmap):
        self.tmap = tmap

    def visit_Name(self, node):
        n = node.id
        n = re.sub(r"^l_\d+_", "l_", n)
        n = self.tmap.get(n, n)
        return ast.Name(id=n, ctx=ast.Load())

    def visit_Call(self, node):
        self.generic_visit(node)
        if isinstance(node.func, ast.Name):
            if node.func.id == "cond_expr_undefined":
                node.args = []
            elif node.func.id == "__F__":
                return ast.Constant(value=node.args[0].value / node.args[1].value if not isinstance(node.args[0], ast.UnaryOp)
                                    else -node.args[0].operand.value / node.args[1].value)
        return node

    def visit_UnaryOp(self, node):
        self.generic_visit(node)
        # -5 written as a literal and -(5) fold to the same constant
        if isinstance(node.op, ast.USub) and isinstance(node.operand, ast.Constant) and type(node.operand.value) in (int, float):
            return ast.Constant(value=-node.operand.value)
        return node


def norm_py(text_or_node, tmap=None):
    node = ast.parse(text_or_node, mode="eval").body if isinstance(text_or_node, str) else text_or_node
    node = _Norm(tmap or {}).visit(node)
    return ast.dump(node)


def real_output_code(env, tsrc):
    """compile `tsrc` (one {{ e }} possibly inside an autoescape block) with raw=True and
    return ('C', text) for constant output, ('X', normalised ast dump) for run-time code,
    ('E', class) for a compile error"""
    try:
        code = env.compile(tsrc, raw=True)
    except Exception as e:
        return ("E", err_class(e))
    mod = ast.parse(code)
    root = [n for n in mod.body if isinstance(n, (ast.FunctionDef, ast.AsyncFunctionDef)) and n.name == "root"][0]
    tmap = {}
    ys = []
    for st in ast.walk(root):
        if isinstance(st, ast.Try) and st.body and isinstance(st.body[0], ast.Assign):
            a = st.body[0]
            v = a.value
            if (isinstance(v, ast.Subscript) and isinstance(v.value, ast.Attribute) and v.value.attr in ("filters", "tests")
                    and isinstance(v.slice, ast.Constant)):
                tmap[a.targets[0].id] = ("t_F_" if v.value.attr == "filters" else "t_T_") + v.slice.value
    for st in ast.walk(root):
        if isinstance(st, ast.Yield) and st.value is not None and not (isinstance(st.value, ast.Constant) and st.value.value is None):
            ys.append(st.value)
    if len(ys) != 1:
        return ("E", "shape:%d-yields" % len(ys))
    y = ys[0]
    if isinstance(y, ast.Constant):
        return ("C", y.value)
    if isinstance(y, ast.Call) and len(y.args) == 1:
        return ("X", norm_py(y.args[0], tmap))
    return ("E", "shape")


def model_value_py(c):
    """canonical model value (canon_model) -> the Python value it denotes; ValueError outside ints / bools / None / strings /
    Markup / lists / tuples / dicts"""
    t = c[0]
    if t == "n":
        return None
    if t == "i" and c[1] != "BIG":
        return c[1]
    if t == "b":
        return c[1]
    if t == "s":
        return c[1]
    if t == "m":
        return _markup()(c[1])
    if t == "l":
        return [model_value_py(x) for x in c[1]]
    if t == "t":
        return tuple(model_value_py(x) for x in c[1])
    if t == "d":
        return {model_value_py(k): model_value_py(v) for k, v in c[1]}
    raise ValueError(c)


def constant_text_agrees(fold, gen, real_code):
    """K-gen normal form for a constant the model KNOWS (fold line 'K <value> | ...') but cannot PRINT (repr of strings
    containing quotes, ...): by construction its output_child falls back to run-time code (the constant as a display, or
    with optimized=False the unfolded expression), while the engine writes str(constant) into the template data.  Both
    agree iff str() of the model's constant is the engine's text.  True / False, or None when this does not apply."""
    if not (fold.startswith("K") and gen.startswith("X ") and real_code[0] == "C"):
        return None
    try:
        value = model_value_py(canon_model(parse_sx(fold.split(" | ")[0][2:])[0]))
    except (ValueError, IndexError, RecursionError, TypeError):
        return None
    return str(value) == real_code[1]


# ------------------------------------------------------------------ generators
STR_POOL = ["", "a", "ab", "<b>", "x&y", "q'r"]
INT_POOL = [0, 1, 2, 3, 7, -1, -4]
NAMES_BY_TYPE = {
    "int": ["i0", "i1"], "str": ["s0", "s1"], "mk": ["m0"], "bool": ["b0"], "none": ["n0"], "list": ["l0", "l1"],
    "tuple": ["t0"], "dict": ["d0"], "obj": ["o1", "o2"], "fn": ["f1", "f2", "f0"], "undef": ["u0"],
}
ATTR_NAMES = ["a", "k", "b", "zz"]


def make_data(rng, log):
    Markup = _markup()
    o2 = Obj(2, {"b": [1, 2], "a": Markup("<m>")}, [("c", "<c>"), (1, 5)])
    o1 = Obj(1, {"a": rng.choice(INT_POOL), "k": "attr", "b": o2, "_p": 5},
             [("a", "item"), ("k", rng.choice(INT_POOL)), (0, "zero"), ("zz", [3, 4]), ("_q", 6)])
    return {
        "i0": rng.choice(INT_POOL), "i1": rng.choice(INT_POOL),
        "s0": rng.choice(STR_POOL), "s1": rng.choice(STR_POOL),
        "m0": Markup(rng.choice(["<i>", "m", "a&amp;"])),
        # keys that are str SUBCLASS instances / plain strings naming attributes and items of the probe objects
        "mk0": Markup(rng.choice(ATTR_NAMES)), "sk0": rng.choice(ATTR_NAMES),
        "b0": rng.choice([True, False]), "n0": None,
        "l0": rng.choice([[1, 2, 3], [], [0, "a"], ["<", Markup("<b>")]]), "l1": rng.choice([["a", "b"], [2, 1], [[1], 2]]),
        "t0": rng.choice([(1, 2), (), ("a",)]),
        "d0": rng.choice([{"a": 1, "k": "<v>"}, {1: "one", "a": "x"}, {}]),
        "o1": o1, "o2": o2,
        # nested sequences with long rows: g0[r][c] == 100 * r + c, rows of 12 / 25 / 31 / 3 items
        "g0": [[100 * r + c for c in range(n)] for r, n in enumerate((12, 25, 31, 3))],
        "f1": Fn(1, log), "f2": Fn(2, log), "f0": Fn(0, log),
    }


# ------------------------------------------------------------------ size bound of a generated expression
# (a power tower or a repeated repetition computes "forever" inside ONE C call of the engine, which no guard can
#  interrupt: such trees are never generated.  Data independent: names stand for the largest value of their pool.)
SIZE_LIMIT = 4e6        # bits of an int / items of a sequence


class Huge(Exception):
    pass


def size_bound(e, pert=False):
    """(kind, m): kind 'i' (number: m = bits) / 's' (sequence or string: m = items) / '?' ; raises Huge beyond SIZE_LIMIT.
    `pert`: results of operators may have been replaced by value + 1000 (C20's perturbing hooks)"""
    def chk(k, m):
        if m > SIZE_LIMIT:
            raise Huge()
        return (k, m)

    def num(m):
        return chk("i", (max(m, 11) + 1) if pert else m)

    def go(e):
        t = e[0]
        if t == "C":
            v = e[1]
            if isinstance(v, bool) or v is None:
                return ("i", 1)
            if isinstance(v, int):
                return chk("i", max(v.bit_length(), 1))
            if isinstance(v, float):
                return ("i", 64)
            return chk("s", max(len(v), 1))
        if t == "N":
            n = e[1]
            if n in ("i0", "i1", "b0", "n0", "u0", "fi", "f0", "b1", "mi0", "mf0", "ie0"):
                return ("i", 4)
            if n == "hs0":
                return ("i", 8)
            if n in ("s0", "s1", "m0", "mk0", "sk0", "us0", "us1"):
                return ("s", 8)
            return ("?", 31)
        if t == "B":
            (ka, ma), (kb, mb) = go(e[2]), go(e[3])
            op = e[1]
            if op == "pow":
                if mb > 24:
                    raise Huge()
                return num(max(ma, 1) * 2.0 ** mb)
            if op == "mul":
                if ka == "i" and kb == "i":
                    return num(ma + mb)
                worst = 0
                for (k1, m1), (k2, m2) in (((ka, ma), (kb, mb)), ((kb, mb), (ka, ma))):
                    if k2 != "s":                      # k2 may be the repetition count of sequence 1
                        if m2 > 40:
                            raise Huge()
                        worst = max(worst, m1 * 2.0 ** m2)
                return chk("?" if "?" in (ka, kb) else "s", max(worst, ma + mb))
            if op in ("add", "mod"):
                if ka == "i" and kb == "i":
                    return num(max(ma, mb) + 1)
                return chk("?", ma + mb + (12 if pert else 0))
            return num(max(ma, mb) + 1)
        if t == "U":
            return num(go(e[2])[1]) if go(e[2])[0] == "i" else go(e[2])
        if t == "!":
            go(e[1])
            return ("i", 1)
        if t in ("&", "|"):
            (ka, ma), (kb, mb) = go(e[1]), go(e[2])
            return (ka if ka == kb else "?", max(ma, mb))
        if t == "~":
            return chk("s", sum(go(x)[1] for x in e[1]) + 1)
        if t == "cmp":
            go(e[1])
            for _, x in e[2]:
                go(x)
            return ("i", 1)
        if t == "?":
            go(e[1])
            a = go(e[2])
            b = go(e[3]) if e[3] is not None else ("?", 1)
            return (a[0] if a[0] == b[0] else "?", max(a[1], b[1]))
        if t in (".", ".i"):
            return ("?", max(go(e[1])[1], 31))
        if t == "[]":
            go(e[2])
            return ("?", max(go(e[1])[1], 31))
        if t == "sl":
            for x in e[2:5]:
                if x is not None:
                    go(x)
            return ("s", go(e[1])[1])
        if t in ("L", "T"):
            return chk("s", sum(go(x)[1] for x in e[1]) + len(e[1]) + 1)
        if t == "D":
            return chk("s", sum(go(k)[1] + go(v)[1] for k, v in e[1]) + len(e[1]) + 1)
        if t in ("call", "callx"):
            go(e[1])
            for x in e[2]:
                go(x)
            for _, x in e[3]:
                go(x)
            if t == "callx":
                for x in e[4:6]:
                    if x is not None:
                        go(x)
            return ("?", 64)
        if t in ("F", "is"):
            m = go(e[1])[1]
            for x in e[3]:
                m = max(m, go(x)[1])
            if t == "is":
                return ("i", 1)
            if e[2] in ("length", "count", "int", "abs", "sum", "first", "last"):
                return ("i" if e[2] not in ("first", "last") else "?", max(m, 31))
            return chk("?", m + 64)
        return ("?", 64)
    return go(e)


def small_enough(e, pert=False):
    try:
        size_bound(e, pert)
        return True
    except Huge:
        return False
    except RecursionError:
        return False


class EGen:
    """type-directed random expression trees; `const_rich` prefers literals (C08),
    `arith` prefers operators (C20)"""

    def __init__(self, rng, const_rich=False, arith=False, filters=True):
        self.r = rng
        self.const_rich = const_rich
        self.arith = arith
        self.filters = filters
        self.pert = False           # C20: operator results may be perturbed by +1000
        self._nest = False

    def atom(self, ty):
        r = self.r
        use_const = r.random() < (0.8 if self.const_rich else 0.35)
        if ty == "int":
            return ("C", r.choice([0, 1, 2, 3, 5, 10])) if use_const else ("N", r.choice(NAMES_BY_TYPE["int"]))
        if ty == "str":
            if use_const:
                c = ("C", r.choice(["", "a", "ab", "<b>", "x&y", "A b"]))
                if self.const_rich and r.random() < 0.3:
                    return ("F", c, "safe", [])
                return c
            return ("N", r.choice(NAMES_BY_TYPE["str"] + NAMES_BY_TYPE["mk"]))
        if ty == "bool":
            return ("C", r.choice([True, False])) if use_const else ("N", "b0")
        if ty == "list":
            if use_const:
                return ("L", [self.atom(r.choice(["int", "str"])) for _ in range(r.randint(0, 3))])
            return ("N", r.choice(NAMES_BY_TYPE["list"] + NAMES_BY_TYPE["tuple"]))
        if ty == "dict":
            if use_const:
                return ("D", [(("C", r.choice(["a", "k", 1])), self.atom(r.choice(["int", "str"]))) for _ in range(r.randint(0, 2))])
            return ("N", "d0")
        if ty == "obj":
            return ("N", r.choice(NAMES_BY_TYPE["obj"]))
        if ty == "fn":
            return ("N", r.choice(NAMES_BY_TYPE["fn"]))
        if ty == "none":
            if use_const and self.const_rich and r.random() < 0.35:
                # a CONSTANT expression whose value is the environment's undefined object
                return r.choice([(".", ("D", []), "a"), ("[]", ("L", []), ("C", 0)), ("[]", ("D", [(("C", "k"), ("C", 1))]), ("C", "a")), (".i", ("L", [("C", 1)]), 3)])
            return ("C", None) if use_const else ("N", r.choice(["n0", "u0"]))
        return self.atom(r.choice(["int", "str", "bool", "list", "dict", "obj", "none"]))

    def gen(self, d, ty="any"):
        """a tree whose values stay small (size_bound): towers of powers / repetitions are regenerated"""
        if self._nest:
            return self._gen(d, ty)
        self._nest = True
        try:
            for _ in range(10):
                e = self._gen(d, ty)
                if small_enough(e, self.pert):
                    return e
            return self.atom(ty)
        finally:
            self._nest = False

    def _gen(self, d, ty="any"):
        r = self.r
        if ty == "any":
            ty = r.choice(["int", "int", "str", "str", "bool", "list", "dict", "obj", "none"])
        if d <= 0 or r.random() < 0.12:
            return self.atom(ty)
        if r.random() < 0.07:            # type confusion: exercise the error paths
            return self.gen(d - 1, r.choice(["int", "str", "list", "none", "obj", "bool"]))
        g = lambda t="any": self.gen(d - 1, t)  # noqa: E731
        if ty == "int":
            k = r.randint(0, 13 if not self.arith else 8)
            if k <= 4:
                return ("B", r.choice(["add", "sub", "mul", "floordiv", "mod", "add", "sub"]), g("int"), g("int"))
            if k == 5:
                # constant or computed exponent (a folded negative base with a run-time exponent is a class of its own)
                return ("B", "pow", g("int"), ("C", r.choice([0, 1, 2, 3])) if r.random() < 0.5 else self.atom("int") if r.random() < 0.7 else g("int"))
            if k == 6:
                return ("U", r.choice(["neg", "pos"]), g("int"))
            if k == 7:
                return ("B", "div", g("int"), g("int"))
            if k == 8:
                return ("?", g("bool"), g("int"), g("int") if r.random() < 0.8 else None)
            if k == 9:
                return ("F", g(r.choice(["str", "list", "dict"])), r.choice(["length", "count"]), [])
            if k == 10:
                return ("F", g("int"), "abs", [])
            if k == 11:
                return ("[]", g("list"), g("int"))
            if k == 12:
                return (r.choice("&|"), g("int"), g("int"))
            return self.access(d)
        if ty == "str":
            k = r.randint(0, 11)
            if k <= 2:
                return ("~", [g(r.choice(["str", "str", "int", "any"])) for _ in range(r.randint(2, 3))])
            if k == 3:
                return ("B", "add", g("str"), g("str"))
            if k == 4:
                if r.random() < 0.3:     # printf-style formatting with constant / variable operands (opaque to the model's value)
                    fmt = r.choice([("%s", 1), ("a%sb", 1), ("%s-%s", 2), ("%d", 1), ("<%s>", 1)])
                    arg = g(r.choice(["int", "str"])) if fmt[1] == 1 else ("T", [g("int"), g("str")])
                    return ("B", "mod", ("C", fmt[0]) if r.random() < 0.8 else ("F", ("C", fmt[0]), "safe", []), arg)
                return ("B", "mul", g("str"), ("C", r.choice([0, 1, 2, 3])))
            if k == 5 and self.filters:
                return ("F", g("str"), r.choice(["upper", "lower", "string", "safe", "escape", "e"]), [])
            # filter ARGUMENTS that are themselves autoescape-sensitive constants (a ~ with a safe operand, a join)
            sens = (lambda: ("~", [self.atom("str"), ("F", ("C", r.choice(["<b>", "x&y"])), "safe", [])])
                    if r.random() < 0.6 else ("F", ("L", [self.atom("str"), ("F", ("C", "<i>"), "safe", [])]), "join", []))
            arg = (lambda: sens() if (self.const_rich and r.random() < 0.35) else g("str"))
            if k == 6 and self.filters:
                return ("F", g("list"), "join", [arg()] if r.random() < 0.7 else [])
            if k == 7 and self.filters:
                return ("F", g("any"), r.choice(["default", "d"]), [arg()] + ([("C", True)] if r.random() < 0.3 else []))
            if k == 8:
                return ("sl", g("str"), *[(g("int") if r.random() < 0.5 else None) for _ in range(3)])
            if k == 9:
                return ("[]", g("str"), g("int"))
            if k == 10:
                return ("?", g("bool"), g("str"), g("str") if r.random() < 0.7 else None)
            return self.access(d)
        if ty == "bool":
            k = r.randint(0, 9)
            if k <= 2:
                t = r.choice(["int", "str"])
                n = r.choice([1, 1, 2, 3])
                return ("cmp", g(t), [(r.choice(["eq", "ne", "lt", "lteq", "gt", "gteq"]), g(t)) for _ in range(n)])
            if k == 3:
                return ("cmp", g(r.choice(["int", "str"])), [(r.choice(["in", "notin"]), g(r.choice(["list", "str", "dict"])))])
            if k == 4:
                return ("!", g("any"))
            if k == 5:
                return (r.choice("&|"), g("bool"), g("any"))
            if k == 6:
                return ("is", g("any"), r.choice(["defined", "undefined", "none", "string", "number", "integer", "boolean",
                                                  "mapping", "sequence", "callable", "true", "false"]), [])
            if k == 7:
                return ("is", g("int"), r.choice(["odd", "even"]), [])
            if k == 8:
                return ("is", g("int"), r.choice(["divisibleby", "eq", "ne", "lt", "gt", "le", "ge"]), [g("int")])
            if self.const_rich and r.random() < 0.4:
                return ("is", g("str"), r.choice(["eq", "ne", "in"]), [("~", [self.atom("str"), ("F", ("C", "<b>"), "safe", [])])])
            return ("is", g("any"), "in", [g(r.choice(["list", "str"]))])
        if ty == "list":
            k = r.randint(0, 6)
            if k <= 1:
                return ("L", [g() for _ in range(r.randint(0, 3))])
            if k == 2:
                return ("T", [g() for _ in range(r.randint(0, 3))])
            if k == 3:
                return ("B", "add", g("list"), g("list"))
            if k == 4:
                return ("sl", g("list"), *[(g("int") if r.random() < 0.5 else None) for _ in range(3)])
            if k == 5 and self.filters:
                return ("F", g(r.choice(["str", "list", "dict"])), "list", [])
            return ("B", "mul", g("list"), ("C", r.choice([0, 1, 2])))
        if ty == "dict":
            if r.random() < 0.6:
                return ("D", [(("C", r.choice(["a", "k", "b", 1, 2])) if r.random() < 0.8 else g("str"), g()) for _ in range(r.randint(0, 3))])
            return self.atom("dict")
        if ty == "obj":
            return self.atom("obj") if r.random() < 0.6 else self.access(d)
        if ty == "none":
            k = r.randint(0, 3)
            if k == 0:
                return ("call", self.atom("fn"), [g() for _ in range(r.randint(0, 2))],
                        [(r.choice(["p", "q"]), g())] if r.random() < 0.3 else [])
            if k == 1:
                return ("?", g("bool"), g(), None)
            return self.access(d)
        return self.atom(ty)

    def access(self, d):
        """attribute / subscript syntax on objects and dicts with an attribute AND an item of
        the same name, on missing names, and chained"""
        r = self.r
        base = self.gen(d - 1, r.choice(["obj", "obj", "dict", "dict", "list", "none", "str"]))
        name = r.choice(ATTR_NAMES)
        k = r.randint(0, 3)
        if k == 0:
            return (".", base, name)
        if k == 1:
            # the subscript key as a literal, a variable (plain str / Markup), or a computed str-subclass value
            kk = r.randint(0, 6)
            key = (("C", name) if kk <= 1 else ("N", "mk0") if kk == 2 else ("N", "sk0") if kk == 3
                   else ("F", ("C", name), r.choice(["safe", "e", "escape"]), []) if kk == 4
                   else ("~", [("C", ""), ("F", ("C", name), "safe", [])]) if kk == 5
                   else ("F", ("C", name), "string", []))
            return ("[]", base, key)
        if k == 2:
            if r.random() < 0.5:
                # chains of dotted integer subscripts on nested sequences: x.A.B with one and two digit indexes
                a = r.choice([0, 1, 2, 3])
                b = r.choice([0, 1, 2, 5, 10, 11, 20, 24, 30, 100])
                e1 = (".i", ("N", "g0"), a) if r.random() < 0.8 else ("[]", ("N", "g0"), ("C", a))
                return (".i", e1, b) if r.random() < 0.8 else ("[]", e1, ("C", b))
            return (".i", base, r.choice([0, 1, 5, 10])) if r.random() < 0.3 else ("[]", base, ("C", r.choice([0, 1, 5])))
        return (".", (".", base, "b"), name)


def size(e):
    if not isinstance(e, tuple):
        return 0
    n = 1
    for x in e[1:]:
        if isinstance(x, tuple):
            n += size(x)
        elif isinstance(x, list):
            for y in x:
                if isinstance(y, tuple) and y and isinstance(y[0], str) and len(y[0]) <= 4 and y[0] in ALL_TAGS:
                    n += size(y)
                elif isinstance(y, tuple):
                    n += sum(size(z) for z in y if isinstance(z, tuple))
    return n


ALL_TAGS = {"C", "N", "B", "U", "!", "&", "|", "~", "cmp", "?", ".", ".i", "[]", "sl", "L", "T", "D", "call", "F", "is"}


def kinds(e, acc=None):
    """set of node kinds in an expression (for the distinct / non-trivial rule)"""
    acc = set() if acc is None else acc
    if isinstance(e, tuple) and e and isinstance(e[0], str) and e[0] in ALL_TAGS:
        acc.add(e[0] + (":" + e[1] if e[0] in ("B", "U") else ""))
        for x in e[1:]:
            kinds(x, acc)
    elif isinstance(e, (list, tuple)):
        for x in e:
            kinds(x, acc)
    return acc


def use_jinja():
    return lib.use_repo_jinja()
