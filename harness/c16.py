"""C16 — autoescaping escapes each value exactly once.

proof : Properties/C16.v (unescape_escape, unescape_app_aligned, escape_once for ALL templates of
        the language T of Model/EscLang.v by a logical relation between the on and the off run)
tie   : K-lang  extracted EscLang.render == real Environment(autoescape=b0).from_string(print t)
        .render(data) for generated T programs (all filters of T, constant and runtime-decided
        {% autoescape %} blocks, both flags), K-esc extracted escape / unescape5 vs markupsafe.escape
        / an independent python unescape5 / html.unescape on escaped text.
oracle: on the REAL engine: unescape5(render with autoescape on) == render with autoescape off
        (i) for T programs inside the theorem's hypotheses, (ii) for template SETS from the shared
        generator (include / import / extends / super / macros / call / set blocks) restricted to
        escaping-neutral constructs, (iii) hypothesis probes.
"""
import html
import re

from . import lib
from . import esc_lang as L
from . import esc_lang2 as L2
from .gen_templates import TGen

RULE = ("K-lang: LGen programs of T (depth 3, 2-5 top statements; mixes neutral / non-neutral filters, text with "
        "metacharacters and '&', {% autoescape true|false|flag %}), each rendered by the extracted model and the real "
        "engine under a random (environment autoescape, flag) pair; distinct = printed source + data + mode; non-trivial "
        "= output non-empty and the program uses at least one of macro call / call block / set block / filter block / "
        "`~`. O-T: LGen programs satisfying c16_ok (neutral filters, '&'-free text, only flag-decided autoescape "
        "blocks), real engine on vs off; non-trivial additionally requires that escaping changed the output "
        "(on != off). O-sets: template sets of the shared generator (meta data, neutral constructs, "
        "include/import/extends/super) on vs off; non-trivial = on != off. Probes: '&' look-alikes in template text; "
        "entity text in data.")


def py_unescape5(s):
    """independent left-to-right reading of the spec: decode exactly the five entities"""
    ents = (("&amp;", "&"), ("&lt;", "<"), ("&gt;", ">"), ("&#34;", '"'), ("&#39;", "'"))
    out = []
    i = 0
    while i < len(s):
        if s[i] == "&":
            for e, c in ents:
                if s.startswith(e, i):
                    out.append(c)
                    i += len(e)
                    break
            else:
                out.append("&")
                i += 1
        else:
            out.append(s[i])
            i += 1
    return "".join(out)


class NGen(TGen):
    """shared generator restricted further to what C16's statement allows: no position-sensitive
    access to rendered fragments (x[0], |first, |last), no escaping-sensitive comparison (in),
    no case mapping of entities (upper)."""

    def e_str(self, d=2):
        r = self.r
        k = r.random()
        if d <= 0 or k < 0.3:
            return self.lit_str()
        if k < 0.5:
            return r.choice(self.names) + "|string"
        if k < 0.7:
            return f"({self.e_str(d-1)} ~ {self.e_any(d-1)})"
        if k < 0.85:
            return f"({self.e_str(d-1)})|{r.choice(['lower', 'string'])}"
        if k < 0.89:
            lst = self.e_hlist() if r.random() < 0.6 else "(" + self.e_list(d-1) + ")"
            j = r.random()
            sep = self.lit_str() if j < 0.5 else (r.choice(self.names) + "|string" if j < 0.8 or not self.macros else self.macro_call())
            return f"{lst}|join({sep})"
        if k < 0.95:
            # filters invoked THROUGH other filters over lists that hold rendered fragments
            h = self.e_hlist()
            return r.choice([f"{h}|map('string')|join({self.lit_str()})", f"{h}|map('lower')|join",
                             f"[{h}, {self.e_hlist()}]|map('join', {self.lit_str()})|join({self.lit_str()})",
                             f"[{h}]|map('join')|join", f"{h}|select('string')|join({r.choice(self.names)}|string)",
                             f"{h}|map('default', {self.lit_str()}, true)|join"])
        if k < 0.97 and self.macros:
            # str.format / format_map with a rendered fragment as the PATTERN (Markup.format escapes the arguments:
            # neutral by MarkupSafe's contract; also the sandbox's wrapped format)
            j = r.random()
            if j < 0.25:
                return f"(({self.macro_call()})|string ~ '[{{0:s}}|{{1!s}}|{{0:3}}]').format({r.choice(self.names)}|string, {r.choice(self.names)}|string)"
            if j < 0.5:
                return f"(({self.macro_call()})|string ~ '[{{}}|{{}}]').format({self.e_any(0)}, {r.choice(self.names)}|string)"
            return f"(({self.macro_call()})|string ~ '[{{k}}]').format_map({{'k': {r.choice(self.names)}|string}})"
        return f"({self.e_str(d-1)} if {self.e_cond(d-1)} else {self.e_str(d-1)})"

    def e_hlist(self):
        """heterogeneous list literal (only ever consumed by join, never printed as a list): literals, data
        names (which may hold a set-block / macro result, i.e. Markup) and macro calls in any order"""
        r = self.r
        items = []
        for _ in range(r.randint(0, 4)):
            j = r.random()
            if j < 0.2:
                items.append(self.e_int(0))
            elif j < 0.45:
                items.append(self.lit_str())
            elif j < 0.8 or not self.macros:
                items.append(r.choice(self.names) + "|string")
            else:
                items.append(self.macro_call())
        return "[" + ", ".join(items) + "]"

    def e_cond(self, d=2):
        r = self.r
        k = r.random()
        if d <= 0 or k < 0.35:
            return r.choice(self.names) + r.choice([" is defined", " is undefined", "", " is none", " is string"])
        if k < 0.6:
            return f"{self.e_int(d-1)} {r.choice(['<', '<=', '==', '!=', '>', '>='])} {self.e_int(d-1)}"
        if k < 0.8:
            return f"({self.e_cond(d-1)} {r.choice(['and', 'or'])} {self.e_cond(d-1)})"
        if k < 0.9:
            return f"not {self.e_cond(d-1)}"
        return r.choice(["true", "false", "loop is defined"])

    def e_any(self, d=2):
        r = self.r
        k = r.random()
        if k < 0.3:
            return self.e_int(d)
        if k < 0.6:
            return self.e_str(d)
        if k < 0.72:
            return r.choice(self.names)
        if k < 0.78:
            return r.choice(self.names) + r.choice([".k", "['n']", ".missing"])
        if k < 0.86:
            return self.e_cond(d)
        if k < 0.93 and self.macros:
            return self.macro_call()
        return self.e_list(d)


def neutral_set_filters(src):
    """the shared generator puts filters on set blocks regardless of `neutral`: `upper` maps the entities of the
    captured Markup to &LT; ... (not one of the five entities unescape5 decodes) and `replace` compares escaped with
    unescaped text — both are outside C16's statement; keep the set-block-with-filter shape with neutral filters"""
    src = re.sub(r"(\{% set \w+) \| upper %\}", r"\1 | lower %}", src)
    return re.sub(r"(\{% set \w+) \| replace\((?:[^%]|%(?!\}))*\) %\}", r"\1 | trim %}", src)


# hand-written shapes the generators do not produce: recursive loops (return_buffer_contents),
# self.block() calls, module rendering of an imported template
EXTRA_SETS = [
    ({"main.html": "{% for i in tree recursive %}[{{ i.v }}{% if i.c %}{{ loop(i.c) }}{% endif %}]{% endfor %}"},
     lambda g: {"tree": [{"v": g.word(), "c": [{"v": g.word(), "c": []}, {"v": g.word(), "c": []}]}]}),
    ({"main.html": "{% block b %}{{ a }}{% endblock %}|{{ self.b() }}|{% set x = self.b() %}{{ x }}{{ x ~ a }}"},
     lambda g: {"a": g.word()}),
    ({"main.html": "{% import 'lib.html' as l with context %}{{ l }}|{{ l.m(a) }}|{{ l.m(a) ~ a }}",
      "lib.html": "{{ a }}{% macro m(p) %}<{{ p }}>{{ a }}{% endmacro %}"},
     lambda g: {"a": g.word()}),
    ({"main.html": "{% extends 'base.html' %}{% block b %}{{ a }}{{ super() }}{% set s = super() %}{{ s }}{{ s ~ a }}{% endblock %}",
      "base.html": "[{% block b %}{{ a ~ a }}{% endblock %}]"},
     lambda g: {"a": g.word()}),
    ({"main.html": "{% macro m(p) %}{{ p }}{{ caller(p) }}{% endmacro %}{% call(q) m(a) %}{{ q }}{% set z %}{{ q }}{% endset %}{{ z }}{{ z ~ q }}{% endcall %}"},
     lambda g: {"a": g.word()}),
    ({"main.html": "{% macro m(p) %}<{{ p }}>{% endmacro %}{% set s %}{{ a }}:{% endset %}{{ (m(a) ~ '{}|{k}').format(a, k=b) }}{{ (s ~ '{k}').format_map({'k': a}) }}"
                   "{{ [m(a), m(b), a]|join(s) }}{{ [a, m(a)]|join(m(b)) }}"},
     lambda g: {"a": g.word(), "b": g.word()}),
    ({"main.html": "{% macro m(p) %}<{{ p }}>{% endmacro %}{% set s %}{{ a }}{% endset %}{{ [[m(a), b], [s, m(b)]]|map('join', ', ')|join('; ') }}"
                   "{{ [m(a), s, b]|map('string')|join('-') }}{{ [m(a), b]|select('string')|join(s) }}{{ [[s, a]]|map('join')|first }}"
                   "{{ [m(b), a]|map('default', 'd', true)|map('lower')|join }}"},
     lambda g: {"a": g.word(), "b": g.word()}),
    # a filtered set block whose filter does not return a string: the VALUE (number, list) is used afterwards
    ({"main.html": "{% set n | int %}4{{ k }}{% endset %}{{ n + 1 }}|{% set l | length %}abc{% endset %}{{ l * 2 }}|{% set f | float %}{{ k }}.5{% endset %}"
                   "{{ f * 2 }}|{% set w | wordcount %}a b{% endset %}{{ w - 1 }}|{% set q | list %}xy{% endset %}{{ q|length }}{{ a }}"},
     lambda g: {"a": g.word(), "k": g.r.randint(0, 9)}),
    ({"main.html": "{% include 'inc.html' %}{% set x %}{% include 'inc.html' %}{% endset %}{{ x }}{{ x ~ a }}",
      "inc.html": "{{ a }}{% set y %}{{ a }}{% endset %}{{ y }}"},
     lambda g: {"a": g.word()}),
]


GEN_BUG = ("a macro / call block returned a generator object: {% include ... without context %} inside a buffered frame "
           "compiles to `yield from` (Markup(generator) with autoescape on, TypeError in concat with autoescape off)")
GEN_SIG = "C16:include-without-context-in-buffered-frame"


def nontrivial_T(t):
    f = L.features(t)
    return bool(f & {"eM", "sA", "sB", "sX", "eC", "eK"})


def run(ctx):
    jinja2 = lib.use_repo_jinja()
    import markupsafe
    ctx.extra["rule"] = RULE
    ctx.assumptions += [
        "programs of T follow the generator's naming discipline (fresh set / loop / parameter / macro names, used only "
        "in scope): the model evaluates macro and caller bodies in the dynamic environment (scoping is C03's subject)",
        "html.unescape agrees with unescape5 on text whose every '&' starts one of &amp; &lt; &gt; &#34; &#39; "
        "(checked on every produced output; the stdlib function is outside the model)",
        "filters of T are modelled on ASCII text (lower / upper)",
        "constant folding of output expressions yields the value of the runtime evaluation (C08's subject); the "
        "generator keeps Markup-producing filters off all-constant operands",
    ]
    ctx.proof("C16")
    ctx.proof("C16inc")
    from . import c15 as _c15
    _c15.translator_tie(ctx)      # the output-path table regenerated from compiler.py / runtime.py (shared with C15)

    # ---------------- K-esc: escape / unescape5
    strs = []
    alpha = ["&", "<", ">", '"', "'", "a", ";", "#", "l", "t", "m", "p", "g", "3", "4", "9", " "]
    for _ in range(ctx.size(1000, 15000)):
        strs.append("".join(ctx.rng.choice(alpha) for _ in range(ctx.rng.randint(0, 10))))
    strs += ["&amp;", "&lt;", "&gt;", "&#34;", "&#39;", "&amp;lt;", "&&amp;", "&am&amp;p;", "&#3&#39;4;", "&lt", "&#x27;"]
    eo = ctx.driver("esc", ["E " + L.enc(s) for s in strs])
    uo = ctx.driver("esc", ["U " + L.enc(s) for s in strs])
    esc_texts = []
    for s, e, u in zip(strs, eo, uo):
        m_esc, m_spec = [L.dec(x) for x in e.split(" ")]
        real = str(markupsafe.escape(s))
        ctx.case(key=("esc", s) if any(c in s for c in "&<>\"'") else None)
        ctx.count("k_esc")
        if m_esc != real or m_spec != real:
            ctx.model_mismatch("K-esc escape", {"s": s}, m_esc, real,
                               None if py_unescape5(real) == s else "unescape5(escape(s)) != s on the real escape")
            continue
        if L.dec(u) != py_unescape5(s):
            ctx.model_mismatch("K-esc unescape5 (extracted vs independent python reading)", {"s": s}, L.dec(u),
                               py_unescape5(s), None)
            continue
        esc_texts.append(real)
        ctx.validated()
    # on escaped text the stdlib function must agree with unescape5 (assumption above)
    for s in esc_texts:
        if html.unescape(s) != py_unescape5(s):
            ctx.reject({"escaped": s}, "html.unescape and unescape5 differ on text produced by escape",
                       "C16:html-unescape-differs-on-escaped-text")
            break

    # ---------------- K-lang: extracted evaluator vs real engine
    n_prog = ctx.size(600, 9000)
    cases = []
    for i in range(n_prog):
        g = L.LGen(ctx.rng, neutral=ctx.rng.random() < 0.4, safe_ok=ctx.rng.random() < 0.3,
                   text=("safe", "meta", "amp"), ae="01f", depth=3)
        t = g.program(wrap_flag=ctx.rng.random() < 0.2)
        d, dl = g.data()
        cases.append((ctx.rng.random() < 0.5, ctx.rng.random() < 0.5, t, d, dl))
    # error paths: unknown macro, too many arguments, caller() without a call block
    cases.append((True, True, [("O", ("M", 999, []))], {}, {}))
    cases.append((True, True, [("D", 101, [], [("T", "x")]), ("O", ("M", 101, [("L", "a")]))], {}, {}))
    cases.append((False, True, [("D", 101, [], [("O", ("K",))]), ("O", ("M", 101, []))], {}, {}))
    outs = ctx.driver("esc", [L.render_line(*c) for c in cases])
    for c, o in zip(cases, outs):
        b0, flag, t, d, dl = c
        m = L.parse_render(o)
        src = L.pr_body(t)
        real = L.real_render(jinja2, b0, flag, t, d, dl, src)
        nt = bool(m) and nontrivial_T(t)
        ctx.case(sample={"tie": "K-lang", "autoescape": b0, "flag": flag, "source": src, "data": {f"n{k}": v for k, v in d.items()},
                         "lists": {f"n{k}": v for k, v in dl.items()}, "model": m} if nt and len(ctx.samples) < 2 else None,
                 key=("klang", src, repr(d), repr(dl), b0, flag) if nt else None)
        ctx.count("k_lang_error" if m is None else "k_lang")
        if m != real:
            of = judge_T(jinja2, t, d, dl, src) if L_c16_ok(ctx, t) else None
            ctx.model_mismatch("K-lang EscLang.render vs Template.render",
                               {"kind": "T", "autoescape": b0, "flag": flag, "source": src, "prog": t, "data": d, "lists": dl},
                               m, real, of, "C16:T-program" if of else None)
        else:
            ctx.validated()

    # ---------------- O-T: the property on the real engine for programs inside the hypotheses
    n_o = ctx.size(600, 9000)
    progs = []
    for i in range(n_o):
        g = L.LGen(ctx.rng, neutral=True, safe_ok=False, text=("safe", "meta"), ae="f", depth=3)
        t = g.program(wrap_flag=ctx.rng.random() < 0.35)
        d, dl = g.data()
        progs.append((t, d, dl))
    preds = ctx.driver("esc", [L.pred_line(True, t) for t, _, _ in progs])
    for (t, d, dl), p in zip(progs, preds):
        src = L.pr_body(t)
        if p.split(" ")[0] != "1":
            ctx.model_mismatch("generator/c16_ok", {"source": src}, p, "1 expected", None)
            continue
        w = judge_T(jinja2, t, d, dl, src, ctx)
        if w:
            ctx.reject({"kind": "T", "source": src, "prog": t, "data": d, "lists": dl}, w, "C16:T-program")

    # ---------------- O-sets: shared generator, include / import / extends / super
    n_sets = ctx.size(400, 5000)
    for idx in range(n_sets):
        g = NGen(ctx.rng, meta=True, neutral=True, depth=3,
                 features=["if", "for", "set", "setblock", "with", "macro", "call", "include", "import", "extends"])
        ts, main = g.template_set()
        ts = {k: neutral_set_filters(v) for k, v in ts.items()}
        data = g.data()
        mk = vary(ctx.rng, data)
        for kind in mk.plan.values():
            ctx.count("value_kind_" + kind)
        w = judge_set(jinja2, ts, main, mk, ctx)
        if w:
            ctx.reject({"kind": "set", "templates": ts, "data": data, "value_kinds": mk.plan}, w,
                       GEN_SIG if w == GEN_BUG else "C16:template-set")
    for ts, mk in EXTRA_SETS:
        for _ in range(ctx.size(15, 200)):
            g = TGen(ctx.rng, meta=True)
            data = mk(g)
            w = judge_set(jinja2, ts, "main.html", data, ctx, kind="extra", axis=ctx.rng.choice(SET_AXES))
            if w:
                ctx.reject({"kind": "set", "templates": ts, "data": data}, w, "C16:template-set")

    # ---------------- hypothesis probes
    # (i) template text with '&...;' look-alikes: the model must still predict the engine, and with the
    #     '&' of the TEXT replaced by a stand-in character the property must hold on the same template
    n_p = ctx.size(200, 3000)
    pcases = []
    for i in range(n_p):
        g = L.LGen(ctx.rng, neutral=True, safe_ok=False, text=("safe", "amp"), ae="f", depth=2)
        t = g.program()
        d, dl = g.data()
        pcases.append((t, d, dl))
    on = ctx.driver("esc", [L.render_line(True, True, t, d, dl) for t, d, dl in pcases])
    off = ctx.driver("esc", [L.render_line(False, False, t, d, dl) for t, d, dl in pcases])
    differs = 0
    for (t, d, dl), mo, mf in zip(pcases, on, off):
        src = L.pr_body(t)
        ro = L.real_render(jinja2, True, True, t, d, dl, src)
        rf = L.real_render(jinja2, False, False, t, d, dl, src)
        ctx.case(key=("probe-amp", src, repr(d), repr(dl)) if "&" in src else None)
        ctx.count("probe_amp_text")
        if (L.parse_render(mo), L.parse_render(mf)) != (ro, rf):
            ctx.model_mismatch("K-lang (probe: '&' in template text)", {"source": src, "data": d, "lists": dl},
                               [mo, mf], [ro, rf], None)
            continue
        ctx.validated()
        if ro is not None and rf is not None and py_unescape5(ro) != rf:
            differs += 1
        t2 = subst_text(t)
        w = judge_T(jinja2, t2, d, dl, L.pr_body(t2))
        if w:
            ctx.reject({"kind": "T", "source": L.pr_body(t2), "prog": t2, "data": d, "lists": dl},
                       "probe with neutralised text: " + w, "C16:T-program")
    ctx.extra["probe_amp_text_outputs_differing_as_the_model_predicts"] = differs
    run_sets(ctx, jinja2)
    # (ii) entity text in data is inside the hypotheses: counted in O-T / O-sets (METAS contain &amp; &lt; &#39;)


def run_sets(ctx, jinja2):
    """second round: template sets of Model/EscLang2.v (set block with filter, include, import, blocks / super())"""
    # K-sets: extracted EscLang2.render vs the real engine, every template with its own selector setting
    cases = []
    for _ in range(ctx.size(300, 4000)):
        st, d, dl, g = L2.gen_set(ctx.rng, neutral=ctx.rng.random() < 0.4, safe_ok=ctx.rng.random() < 0.2,
                                  text=("safe", "meta", "amp"), ae_ops="01f")
        cases.append((st, ctx.rng.random() < 0.5, d, dl, g.stats))
    outs = ctx.driver("esc2", [L2.render_line(st, fl, d, dl) for st, fl, d, dl, _ in cases])
    for (st, fl, d, dl, stats), o in zip(cases, outs):
        m = L.parse_render(o)
        real = L2.real_render(jinja2, st, fl, d, dl)
        feats = sorted(k.split(":")[0] for k in stats if k.split(":")[0] in ("include", "import", "block", "super", "setblock_filter"))
        nt = bool(m) and bool(feats)
        srcs, main = L2.sources(st)
        ctx.case(sample={"tie": "K-sets", "templates": srcs, "main": main, "flag": fl, "model": m} if nt and "super" in feats and len(ctx.samples) < 7 else None,
                 key=("ksets", repr(sorted(srcs.items())), repr(d), repr(dl), fl) if nt else None)
        ctx.count("k_sets")
        for f in feats:
            ctx.count("k_sets_with_" + f)
        if m != real:
            ctx.model_mismatch("K-sets EscLang2.render vs Template.render", {"kind": "set2", "templates": srcs, "main": main, "flag": fl,
                                                                         "data": d, "lists": dl}, m, real, None)
        else:
            ctx.validated()
    # H-sets: HISTORIES and configuration axes — a sequence of renders (flags / data alternating) on ONE environment,
    # through render / generate / render_async, sandboxed / unoptimized / async environments, must give what a
    # fresh default environment gives for each step (eval contexts, cached modules of imports, template cache)
    for _ in range(ctx.size(120, 900)):
        st, d, dl, g = L2.gen_set(ctx.rng, neutral=ctx.rng.random() < 0.5, safe_ok=False, text=("safe", "meta"), ae_ops="01f")
        g2 = L.LGen(ctx.rng)
        d2, dl2 = g2.data()
        axis = ctx.rng.choice(["plain", "async", "sandbox", "unoptimized", "finalize"])
        kw = {"async": {"enable_async": True}, "unoptimized": {"optimized": False}, "finalize": {"finalize": lambda x: x}}.get(axis, {})
        try:
            if axis == "sandbox":
                from jinja2.sandbox import SandboxedEnvironment
                srcs, main = L2.sources(st)
                env = SandboxedEnvironment(loader=jinja2.DictLoader(srcs), autoescape=jinja2.select_autoescape(("html",)))
            else:
                env, main = L2.make_env(jinja2, st, **kw)
        except Exception:
            continue
        seq = [(True, d, dl, "render"), (False, d2, dl2, "generate"), (True, d2, dl2, "async" if axis == "async" else "render"),
               (False, d, dl, "render"), (True, d, dl, "generate")]
        for step, (fl, dd, ll, how) in enumerate(seq):
            got = L2.render_with(env, main, fl, dd, ll, how)
            want = L2.real_render(jinja2, st, fl, dd, ll)
            ctx.case(key=("hist", repr(sorted(L2.sources(st)[0].items())), step, axis) if got else None)
            ctx.count("h_sets_" + axis)
            if got != want:
                srcs, _ = L2.sources(st)
                ctx.reject({"kind": "history", "templates": srcs, "axis": axis, "step": step, "how": how, "flag": fl},
                           f"render #{step} ({how}, {axis} environment, reused) gives {got!r}, a fresh environment gives {want!r}",
                           "C16:history")
            else:
                ctx.validated()
    # O-sets2: the property on the real engine for sets inside the hypotheses of C16_escape_once_sets
    for _ in range(ctx.size(300, 4000)):
        st, d, dl, g = L2.gen_set(ctx.rng, neutral=True, safe_ok=False, text=("safe", "meta"), ae_ops="f")
        on = L2.real_render(jinja2, dict(st, ae={t: True for t in st["ae"]}), True, d, dl)
        off = L2.real_render(jinja2, dict(st, ae={t: False for t in st["ae"]}), False, d, dl)
        srcs, main = L2.sources(st)
        w = judge_pair(on, off, ctx, ("osets2", repr(sorted(srcs.items())), repr(d), repr(dl)),
                       {"oracle": "O-sets2", "templates": srcs}, bool(g.stats), "o_sets2")
        if w:
            ctx.reject({"kind": "set2", "set": st, "data": d, "lists": dl}, w, "C16:template-set-2")


def subst_text(t):
    """replace '&' in template TEXT by U+00A7 (keeps literals and data untouched)"""
    def fs(s):
        k = s[0]
        if k == "T":
            return ("T", s[1].replace("&", "§"))
        if k == "I":
            return ("I", s[1], [fs(x) for x in s[2]], [fs(x) for x in s[3]])
        if k == "R":
            return ("R", s[1], s[2], [fs(x) for x in s[3]])
        if k == "B":
            return ("B", s[1], [fs(x) for x in s[2]])
        if k == "D":
            return ("D", s[1], s[2], [fs(x) for x in s[3]])
        if k in ("A", "X"):
            return (k, s[1], s[2], [fs(x) for x in s[3]])
        if k == "E":
            return ("E", s[1], [fs(x) for x in s[2]])
        return s
    return [fs(s) for s in t]


_pred_cache = {}


def L_c16_ok(ctx, t):
    line = L.pred_line(True, t)
    if line not in _pred_cache:
        _pred_cache[line] = ctx.driver("esc", [line])[0].split(" ")[0] == "1"
    return _pred_cache[line]


def judge_T(jinja2, t, d, dl, src, ctx=None):
    """the property on the real engine for one T program inside the hypotheses"""
    on = L.real_render(jinja2, True, True, t, d, dl, src)
    off = L.real_render(jinja2, False, False, t, d, dl, src)
    if t and len(t) == 1 and t[0][0] == "E" and t[0][1] == "f":
        # the whole program is inside {% autoescape flag %}: "on" decided at RUN TIME over a default-off
        # environment (volatile code paths only) must give the same text as the static "on"
        rt_on = L.real_render(jinja2, False, True, t, d, dl, src)
        if rt_on != on:
            return (f"runtime-decided autoescape (default off, flag true) renders {rt_on!r}, statically on renders {on!r}")
    return judge_pair(on, off, ctx, ("ot", src, repr(d), repr(dl)),
                      {"oracle": "O-T", "source": src, "data": {f"n{k}": v for k, v in d.items()}},
                      nontrivial_T(t), "o_T")


def judge_pair(on, off, ctx, key, sample, struct_nt, kind):
    if (on is None) != (off is None):
        if ctx:
            ctx.case(); ctx.count(kind + "_asym")
        if off is None and "<generator object root.<locals>.macro" in on:
            return GEN_BUG
        return f"rendering fails only with autoescape {'on' if on is None else 'off'}"
    if on is None:
        if ctx:
            ctx.case(); ctx.count(kind + "_error")
        return None
    nt = struct_nt and on != off
    if ctx:
        sample = dict(sample, on=on[:120], off=off[:120])
        ctx.case(sample=sample if nt and len(ctx.samples) < 5 else None, key=key if nt else None)
        ctx.count(kind)
    u = py_unescape5(on)
    if u != off:
        return f"unescape5(on) != off: on={on!r} off={off!r}"
    if html.unescape(on) != u:
        return f"html.unescape differs from unescape5 on the autoescaped output {on!r}"
    if ctx:
        ctx.validated()
    return None


class _S(str):
    def __str__(self):
        return str.__str__(self)


class _O:
    def __init__(self, v):
        self.v = v

    def __str__(self):
        return self.v

    def __repr__(self):
        return "O(" + self.v + ")"


class _It:
    """__iter__-only, re-iterable"""

    def __init__(self, items):
        self.items = items

    def __iter__(self):
        return iter(self.items)

    def __repr__(self):
        return "It" + repr(self.items)


class _Seq:
    """__getitem__ / __len__ only"""

    def __init__(self, items):
        self.items = items

    def __getitem__(self, i):
        return self.items[i]

    def __len__(self):
        return len(self.items)

    def __repr__(self):
        return "Seq" + repr(self.items)


def vary(rng, data):
    """value kinds: str subclasses and objects with __str__, bool / float of equal value, tuples, __iter__-only and
    __getitem__-only sequences, Mapping subclasses (a generator object prints its address: not comparable) — returns a factory of the data"""
    import collections
    plan = {}
    for k, v in data.items():
        r = rng.random()
        if isinstance(v, str):
            plan[k] = "S" if r < 0.15 else ("O" if r < 0.25 else None)
        elif isinstance(v, bool):
            plan[k] = None
        elif isinstance(v, int):
            plan[k] = "float" if r < 0.1 else ("bool" if r < 0.2 and v in (0, 1) else None)
        elif isinstance(v, list):
            plan[k] = "tuple" if r < 0.15 else ("iter" if r < 0.25 else ("seq" if r < 0.35 else None))
        elif isinstance(v, dict):
            plan[k] = "odict" if r < 0.3 else None
        else:
            plan[k] = None

    def make():
        out = {}
        for k, v in data.items():
            p = plan[k]
            out[k] = (_S(v) if p == "S" else _O(v) if p == "O" else float(v) if p == "float" else bool(v) if p == "bool"
                      else tuple(v) if p == "tuple" else _It(list(v)) if p == "iter" else _Seq(list(v)) if p == "seq"
                      else collections.OrderedDict(v) if p == "odict" else v)
        return out
    make.plan = {k: p for k, p in plan.items() if p}
    return make


SET_AXES = ("plain", "selector", "sandbox", "selector_sandbox", "immutable_sandbox", "async", "selector_async", "unoptimized")


def render_set(jinja2, ts, main, data, autoescape, axis="plain"):
    data = data() if callable(data) else data
    try:
        from jinja2 import sandbox
        cls, kw = jinja2.Environment, {}
        sel = axis.startswith("selector")
        base_axis = (axis[len("selector"):].lstrip("_") or "plain") if sel else axis
        if base_axis == "sandbox":
            cls = sandbox.SandboxedEnvironment
        elif base_axis == "immutable_sandbox":
            cls = sandbox.ImmutableSandboxedEnvironment
        elif base_axis == "async":
            kw["enable_async"] = True
        elif base_axis == "unoptimized":
            kw["optimized"] = False
        if autoescape is True and sel:
            # the same "on" through a name-based selector (off for a missing name): every template is *.html
            autoescape = jinja2.select_autoescape(("html",), default_for_string=False, default=False)
        env = cls(loader=jinja2.DictLoader(ts), autoescape=autoescape, **kw)
        return env.get_template(main).render(**data)
    except Exception:
        return None


def judge_set(jinja2, ts, main, data, ctx, kind="set", axis=None):
    if axis is None:
        axis = SET_AXES[hash((main, len(ts), len(repr(sorted(ts.items()))))) % len(SET_AXES)]
    if ctx:
        ctx.count("set_axis_" + axis)
    on = render_set(jinja2, ts, main, data, True, axis)
    off = render_set(jinja2, ts, main, data, False, axis)
    shown = repr(data()) if callable(data) else repr(data)
    return judge_pair(on, off, ctx, (kind, repr(sorted(ts.items())), shown),
                      {"oracle": "O-sets", "templates": ts, "data": shown}, True, "o_" + kind)


def replay(ctx, data):
    jinja2 = lib.use_repo_jinja()
    case = data.get("case")
    if data.get("kind") != "failing-input" or case is None:
        print("replay: this file names a broken theorem/correspondence, not an input:", data.get("broken"))
        return run(ctx)
    if case.get("kind") == "set":
        w = judge_set(jinja2, case["templates"], "main.html", case["data"], None)
        print("oracle:", w)
        if w:
            ctx.reject(case, w, "C16:template-set")
    elif case.get("kind") == "T":
        d = {int(k): v for k, v in case["data"].items()}
        dl = {int(k): v for k, v in case["lists"].items()}
        on = L.real_render(jinja2, True, True, None, d, dl, case["source"])
        off = L.real_render(jinja2, False, False, None, d, dl, case["source"])
        w = judge_pair(on, off, None, None, {}, True, "replay")
        print("on :", repr(on), "\noff:", repr(off), "\noracle:", w)
        if w:
            ctx.reject(case, w, "C16:T-program")
    elif case.get("kind") == "set2":
        st = case["set"]
        st = {"chain": [(t, b) for t, b in st["chain"]], "tt": {int(k): v for k, v in st["tt"].items()},
              "ae": {int(k): v for k, v in st["ae"].items()}}
        st = L2.retuple(st)
        d = {int(k): v for k, v in case["data"].items()}
        dl = {int(k): v for k, v in case["lists"].items()}
        on = L2.real_render(jinja2, dict(st, ae={t: True for t in st["ae"]}), True, d, dl)
        off = L2.real_render(jinja2, dict(st, ae={t: False for t in st["ae"]}), False, d, dl)
        w = judge_pair(on, off, None, None, {}, True, "replay")
        print("on :", repr(on), "\noff:", repr(off), "\noracle:", w)
        if w:
            ctx.reject(case, w, "C16:template-set-2")
    else:
        print("replay: unknown case kind", case)
