"""C26 — the LRU cache behaves like a least-recently-used map, also under concurrency.

proof:  Properties/C26.v (refinement of the reference LRU map for every operation sequence,
        representation invariant, capacity bound, only-KeyError) and Properties/C26conc.v
        (lock atomicity; single unlocked reads are linearizable; the torn double read witness)
tie  :  T5 translator: gen/lru_translate.py turns the current source of __getitem__, __setitem__,
        __delitem__, clear, __contains__, __len__, get, setdefault into terms of Lib/PyLru and the
        generated file proves  source term = model function  for all states and arguments, plus
        "every concurrent operation is wrapped in with self._wlock";
        K-rt sequential: extracted Model.LRU.run == real LRUCache on exhaustive small histories
        + random long ones (results after every operation, incl. copy / pickle round trips);
        K-rt concurrent: a sys.settrace line-level deterministic scheduler drives the real
        LRUCache methods in threads; every explored schedule's results must be linearizable
        w.r.t. the reference LRU map (extracted spec, cross-validated in the sequential run).
oracle: extracted Spec.LRUSpec.srun on the real results.
"""
import itertools
import pickle

from . import lib
from . import c26_sched

RULE = ("sequential: every history up to length L1 over the full 26-operation alphabet (3 keys) and up to L2 over the "
        "core alphabet {getitem, setitem, delitem} x 3 keys + keys(), capacities 1..3, plus random histories of length "
        "6..14; distinct = (capacity, history); non-trivial = at least one eviction (a setitem of an absent key on a "
        "full cache). concurrent: 2-3 threads x 1-3 operations from {get, getitem, setitem, delitem, contains, clear}, "
        "every line-boundary schedule up to the preemption bound; non-trivial = at least one preemption inside a "
        "locked method.")

FULL = ([f"g:{k}" for k in (1, 2, 3)] + [f"S:{k}" for k in (1, 2, 3)] + [f"D:{k}" for k in (1, 2, 3)]
        + [f"G:{k}:0" for k in (1, 2, 3)] + [f"T:{k}" for k in (1, 2, 3)] + [f"C:{k}" for k in (1, 2, 3)]
        + ["L", "X", "K", "V", "I", "R", "Y", "P"])
CORE = [f"g:{k}" for k in (1, 2, 3)] + [f"S:{k}" for k in (1, 2, 3)] + [f"D:{k}" for k in (1, 2, 3)] + ["K"]


def concretize(ops):
    """give every write a distinct value so that stale values are visible"""
    out = []
    for i, o in enumerate(ops):
        if o.startswith("S:") and o.count(":") == 1:
            out.append(f"{o}:{10 + i}")
        elif o.startswith("T:") and o.count(":") == 1:
            out.append(f"{o}:{50 + i}")
        else:
            out.append(o)
    return out


class _K(int):
    """an int subclass key: equal and hash-equal to the plain int"""


def _rep(k, i):
    """one of several ==-equal, hash-equal spellings of key k (the cache must treat them as one key)"""
    k = int(k)
    return (k, float(k), _K(k), True if k == 1 else k)[i % 4]


class _BadHash:
    """a key whose hash raises: every dict operation on it fails before anything is modified"""
    def __hash__(self):
        raise ZeroDivisionError("hash")

    def __eq__(self, other):
        return False


def _fault_key(kind):
    return [] if kind == "u" else {} if kind == "d" else _BadHash()


def real_run(LRUCache, cap, ops, variant=0):
    import copy as _copy
    c = LRUCache(cap)
    res = []
    for i, o in enumerate(ops):
        p = o.split(":")
        if variant and len(p) > 1 and p[0] in "gSDGTC":
            p = [p[0], _rep(p[1], i + variant)] + p[2:]
        try:
            t = p[0]
            if t == "g":
                r = "v%d" % c[int(p[1])]
            elif t == "S":
                c[int(p[1])] = int(p[2]); r = "N"
            elif t == "D":
                del c[int(p[1])]; r = "N"
            elif t == "G":
                r = "v%d" % c.get(int(p[1]), int(p[2]))
            elif t == "T":
                r = "v%d" % c.setdefault(int(p[1]), int(p[2]))
            elif t == "C":
                r = "bT" if int(p[1]) in c else "bF"
            elif t == "L":
                r = "n%d" % len(c)
            elif t == "X":
                x = c.clear(); r = "N" if x is None else "?"
            elif t == "K":
                r = "k" + ",".join(str(int(k)) for k in c.keys())
            elif t == "V":
                r = "w" + ",".join(str(k) for k in c.values())
            elif t == "I":
                r = "i" + ",".join(f"{int(k)}={v}" for k, v in c.items())
            elif t == "R":
                r = "k" + ",".join(str(int(k)) for k in reversed(c))
            elif t == "Y":
                c = c.copy() if (i + variant) % 2 == 0 else _copy.copy(c); r = "N"
            elif t == "P":
                c = pickle.loads(pickle.dumps(c, (i + variant) % (pickle.HIGHEST_PROTOCOL + 1))); r = "N"
            elif t == "F":
                # an operation with a key the dict rejects (unhashable / hash raises): must raise that error
                # and leave the cache exactly as it was
                fk, want = _fault_key(p[1]), ("eT" if p[1] in "ud" else "eZ")
                try:
                    if p[2] == "S":
                        c[fk] = 1
                    elif p[2] == "g":
                        c[fk]
                    elif p[2] == "D":
                        del c[fk]
                    elif p[2] == "G":
                        c.get(fk, 0)
                    elif p[2] == "T":
                        c.setdefault(fk, 0)
                    elif p[2] == "C":
                        fk in c
                    r = "f?none"
                except TypeError:
                    r = "eT"
                except ZeroDivisionError:
                    r = "eZ"
                r = "F" if r == want else "f?" + r
            else:
                raise AssertionError(o)
        except KeyError:
            r = "eK"
        except IndexError:
            r = "eI"
        except ValueError:
            r = "eV"
        except Exception as e:  # noqa
            r = "e?" + type(e).__name__
        res.append(r)
    return ";".join(res)


def has_eviction(spec_line, cap, ops):
    # cheap syntactic approximation measured on the history: count distinct keys written
    keys = set()
    for o in ops:
        if o[0] in "ST":
            keys.add(o.split(":")[1])
    return len(keys) > cap


def run(ctx):
    lib.use_repo_jinja()
    from jinja2.utils import LRUCache
    ctx.extra["rule"] = RULE
    ctx.assumptions += [
        "dict and deque single operations are atomic under the GIL (the scheduler pre-empts at source-line boundaries of utils.py only)",
        "keys are hashable with a total equality (modelled as N)",
    ]
    ctx.proof("C26")
    ctx.proof("C26conc")
    # translator tie: the current source of the LRUCache methods, as a term of Lib/PyLru, is proved
    # equal to the model for every state and argument; the concurrent operations are lock-wrapped
    import os, sys
    sys.path.insert(0, os.path.join(lib.ROOT, "gen"))
    import lru_translate
    try:
        vtext = lru_translate.emit(lib.SRC)
        ok, out = ctx.coq_obligation("Gen_lru", vtext, n_obligations=9)
        if ok:
            ctx.trusted.append("Gen_lru (source = model equations): " + " ".join(out.split()))
    except lru_translate.Untranslatable as e:
        ctx.broken.append(f"translator gen/lru_translate.py: LRUCache source left the translatable vocabulary: {e}")

    L1 = ctx.size(3, 4)
    L2 = ctx.size(5, 6)
    cases = []
    for cap in (1, 2, 3):
        for n in range(0, L1 + 1):
            for ops in itertools.product(FULL, repeat=n):
                cases.append((cap, concretize(ops)))
        for n in range(L1 + 1, L2 + 1):
            for ops in itertools.product(CORE, repeat=n):
                cases.append((cap, concretize(ops)))
    for _ in range(ctx.size(20000, 200000)):
        n = ctx.rng.randint(6, 14)
        cases.append((ctx.rng.randint(1, 4), concretize([ctx.rng.choice(FULL) for _ in range(n)])))
    # more keys than the small-scope alphabet and capacities up to 6: hits at every depth of a longer recency order
    WIDE = ([f"{o}:{k}" for o in "gSDC" for k in range(1, 8)] + [f"G:{k}:0" for k in range(1, 8)] + [f"T:{k}" for k in range(1, 8)]
            + [f"S:{k}" for k in range(1, 8)] * 2 + ["L", "K", "I", "R", "Y", "P"])
    for _ in range(ctx.size(15000, 150000)):
        n = ctx.rng.randint(8, 24)
        cases.append((ctx.rng.randint(3, 6), concretize([ctx.rng.choice(WIDE) for _ in range(n)])))
    # capacity 0 (outside the theorem's guard; create_cache never builds one): compared too
    for n in range(1, 3):
        for ops in itertools.product(CORE, repeat=n):
            cases.append((0, concretize(ops)))
    # histories with faulting operations (a key the dict rejects): identity steps of model and spec — the real
    # cache must raise the key's error and behave afterwards exactly as if the operation had not happened
    FAULTS = [f"F:{k}:{o}" for k in "udh" for o in "SgDGTC"]
    n_fault = 0
    for _ in range(ctx.size(6000, 60000)):
        n = ctx.rng.randint(4, 12)
        ops = [ctx.rng.choice(FULL) if ctx.rng.random() < 0.7 else ctx.rng.choice(FAULTS) for _ in range(n)]
        if any(o.startswith("F:") for o in ops):
            cases.append((ctx.rng.randint(1, 3), concretize(ops)))
            n_fault += 1
    ctx.count("seq_with_faulting_operations", n_fault)
    lines = [f"{cap} " + " ".join(o for o in ops if not o.startswith("F:")) for cap, ops in cases]
    out = ctx.driver("lru", lines)
    for (cap, ops), ln in zip(cases, out):
        m, s = ln[2:].split(" | S ")
        impl = real_run(LRUCache, cap, ops)
        if any(o.startswith("F:") for o in ops):
            parts = impl.split(";")
            if any(x != "F" for x, o in zip(parts, ops) if o.startswith("F:")):
                ctx.reject({"cap": cap, "ops": ops, "impl": impl}, "an operation with a key the dict rejects did not raise that key's error", None)
                continue
            impl = ";".join(x for x, o in zip(parts, ops) if not o.startswith("F:"))
        if len(ops) >= 3 and (len(ops) + cap) % 5 == 0:
            # the same history with ==-equal keys of other types (float, bool, int subclass), copy.copy
            # instead of .copy(), other pickle protocols: results must not change
            alt = real_run(LRUCache, cap, ops, variant=1 + len(ops) % 3)
            alt = ";".join(x for x, o in zip(alt.split(";"), ops) if not o.startswith("F:")) if any(o.startswith("F:") for o in ops) else alt
            if alt != impl:
                ctx.reject({"cap": cap, "ops": ops, "impl": impl, "with_equal_keys_of_other_types": alt},
                           "LRUCache results depend on the type of ==-equal keys / the copy or pickle route", None)
        nontriv = has_eviction(s, cap, ops)
        ctx.case(sample={"cap": cap, "ops": ops, "results": impl} if nontriv and len(ops) > 4 else None,
                 key=(cap, tuple(ops)) if nontriv else None)
        ctx.count(f"seq_len_{min(len(ops), 7)}")
        if cap == 0:
            if impl != m:
                ctx.model_mismatch("K-rt LRUCache (capacity 0)", {"cap": cap, "ops": ops}, m, impl, None)
            else:
                ctx.validated()
            continue
        if impl != s:
            ctx.reject({"cap": cap, "ops": ops, "impl": impl, "spec": s},
                       "LRUCache results differ from the reference LRU map", None)
        elif impl != m:
            ctx.model_mismatch("K-rt LRUCache sequential", {"cap": cap, "ops": ops}, m, impl, None)
        else:
            ctx.validated()

    c26_sched.explore(ctx, LRUCache)


def replay(ctx, data):
    lib.use_repo_jinja()
    from jinja2.utils import LRUCache
    case = data.get("case")
    if data.get("kind") != "failing-input" or case is None:
        print("replay: names a broken theorem/correspondence:", data.get("broken"))
        return run(ctx)
    if "schedule" in case:
        return c26_sched.replay(ctx, LRUCache, case)
    ln = ctx.driver("lru", [f"{case['cap']} " + " ".join(case["ops"])])[0]
    m, s = ln[2:].split(" | S ")
    impl = real_run(LRUCache, case["cap"], case["ops"])
    print("impl :", impl, "\nspec :", s, "\nmodel:", m)
    if impl != s:
        ctx.reject(case, "LRUCache results differ from the reference LRU map")
