"""C13 — equivalent syntax configurations render identically.

proof : Properties/C13.v (rules_sorted_by_length, longest_start_wins — every configuration and source;
        delimiter_invariance — EVERY skeleton, any two configurations satisfying the bundle skel_cfg;
        delimiter_invariance_families — default / <% %> <%= %> <%# #%> / $% %$ ${ } $# #$;
        delimiter_invariance_small_scope (incl. <!-- -->), line_statement_equiv_small_scope — enumerations;
        line_comment_equiv_refuted — witness) + obligations regenerated from lexer.py / environment.py by
        gen/lex_envfacts.py (lexer_cache_transparent, lexer_reads_are_model_fields, spontaneous_env_args,
        overlay_copies)
tie   : K-lex on both forms of line-statement templates; the regenerated tables
oracle: equal Template.render output across (a) consistent delimiter substitutions of a skeleton,
        (b) Environment vs Template(...) constructor vs overlay() and overlay chains, many configurations
        interleaved in one process (shared _lexer_cache, spontaneous-environment LRU of 10), re-rendered at
        the end with the first environments and compared with a fresh process, (c) whole-line block tags
        vs line statements under trim_blocks + lstrip_blocks, (d) whole-line comments vs line comments.
"""
import importlib.util
import json
import os

from . import lib
from . import lex_common as L
from . import c12

RULE = ("(a) skeletons (C12 generator: 1-6 tags, every modifier) unparsed with 4 delimiter sets x trim/lstrip, outputs "
        "compared; (b) ~70 configurations (5 delimiter sets x trim x lstrip x newline_sequence x keep) x sources, each "
        "rendered through a fresh Environment, Template(**kw), base.overlay(**kw) and a two-step overlay chain, in "
        "random interleaving; first environments re-used at the end; a fresh process recomputes a subset in reverse "
        "order; (c) line-structured templates (text lines, indented whole-line set/if/for tags not followed by a blank "
        "line) in block form and line-statement form; (d) the same for whole-line comments.  distinct = "
        "(configuration, source); non-trivial = at least one tag.")

KNOWN_SIG = "C13:whole-line-comment-as-line-comment-keeps-newline"


def load_translator():
    p = os.path.join(lib.ROOT, "gen", "lex_envfacts.py")
    spec = importlib.util.spec_from_file_location("lex_envfacts", p)
    m = importlib.util.module_from_spec(spec)
    spec.loader.exec_module(m)
    return m


def render(jinja2, mk, src):
    try:
        return "D " + mk().from_string(src).render() if not isinstance(mk, str) else mk
    except jinja2.TemplateSyntaxError as e:
        return "ERR " + str(e)
    except Exception as e:
        return "X:" + type(e).__name__ + ":" + str(e)[:80]


def safe(jinja2, f):
    try:
        return "D " + f()
    except jinja2.TemplateSyntaxError as e:
        return "ERR " + str(e)
    except Exception as e:
        return "X:" + type(e).__name__ + ":" + str(e)[:80]


# ---------------------------------------------------------------- (c)/(d) line-structured templates
def gen_lines(rng, with_comments):
    """list of (kind, indent, payload): kind in text / stmt / comment"""
    out = []
    depth = []
    n = rng.randint(1, 7)
    for _ in range(n):
        k = rng.random()
        ind = rng.choice(["", "", "  ", "\t", "    "])
        if k < 0.4:
            out.append(("text", "", rng.choice(["a", "  b", "x y", "<p>", "c  ", "-", "{{ 1 }} z", "{{ 'q' }}"])))
        elif with_comments and k < 0.7:
            out.append(("comment", ind, rng.choice(["c", "note one", "x y z"])))
        elif k < 0.75 and not with_comments:
            out.append(("stmt", ind, "set x = 1"))
        elif k < 0.88 and not with_comments:
            out.append(("stmt", ind, rng.choice(["if true", "for i in [1, 2]", "if 1 < 2",
                                                 "for i in [1,\n   2]", "if (1 <\n 2)", "for k in {'a':\n\t1}",
                                                 "for i in [1,\n\n 2,\n 3]", "if [(1,\n 2)]"])))
            depth.append(out[-1][2].split()[0])
        elif k < 0.9 and not with_comments:
            out.append(("stmt", ind, rng.choice(["set x = [1,\n 2]", "set x = (1 +\n  2)", "set x = {'a': (1,\n 2)}"])))
        elif depth and not with_comments:
            out.append(("stmt", ind, "end" + depth.pop()))
        else:
            out.append(("text", "", rng.choice(["t", " u", "v "])))
    while depth:
        out.append(("stmt", "", "end" + depth.pop()))
    return out


def write_lines(lines, line_form, final_nl, cfg=None):
    """written with the delimiter strings and line prefixes of `cfg` (default: {% %} {{ }} {# #} with # / ##)"""
    bs, be, vs, ve, cs, ce, lsp, lcp = cfg.d if cfg is not None else L.DELIMS["line"]
    parts = []
    for kind, ind, p in lines:
        if kind == "text":
            parts.append(p.replace("{{", vs).replace("}}", ve))
        elif kind == "stmt":
            parts.append(ind + (lsp + " " + p if line_form else bs + " " + p + " " + be))
        else:
            parts.append(ind + (lcp + " " + p if line_form else cs + " " + p + " " + ce))
    return "\n".join(parts) + ("\n" if final_nl else "")


def run(ctx):
    jinja2 = lib.use_repo_jinja()
    ctx.extra["rule"] = RULE
    ctx.assumptions += [
        "the regenerated tables reflect how a configuration reaches Lexer.__init__ (ast shapes recognised by gen/lex_envfacts.py; an unrecognised shape fails the obligation)",
        "delimiter_invariance and line_statement_equiv are Coq-checked on the stated small-scope domains only; beyond them they are covered by the render oracle",
        "functools.lru_cache(10) and LRUCache(50) behave as caches (C26 covers LRUCache)",
    ]
    ctx.proof("C13")

    # ---------------- T1: regenerated facts + obligations
    try:
        tr = load_translator()
        vtext = tr.coq_text(tr.facts(lib.REPO))
        ok, out = ctx.coq_obligation("LexEnvFacts", vtext, n_obligations=4)
        if ok:
            ctx.case(sample={"T1": "lexer_cache_transparent, lexer_reads_are_model_fields, spontaneous_env_args, overlay_copies"}, key="T1")
            ctx.validated()
    except Exception as e:  # TranslateError or a crash of the translator: broken obligation, the search below runs
        ctx.obligations += 4
        ctx.broken.append("T1 translator gen/lex_envfacts.py: %s: %s" % (type(e).__name__, e))

    settings = [(t, l) for t in (False, True) for l in (False, True)]

    # ---------------- (a) delimiter substitution
    tags1 = c12.all_tags(c12.TEXTS[:6], raw_full=True)
    sks = []
    for _ in range(ctx.size(2500, 25000)):
        n = ctx.rng.randint(1, 5)
        parts = []
        for i in range(n):
            parts.append("".join(ctx.rng.choice([" ", "\n", "\t", "a", "b\n", "z"]) for _ in range(ctx.rng.randint(0, 4))))
            parts.append(ctx.rng.choice(tags1))
        parts.append("".join(ctx.rng.choice([" ", "\n", "a"]) for _ in range(ctx.rng.randint(0, 3))))
        sks.append(c12.skel(parts))
    names = ["default", "angle", "dollar", "linepct", "asp"]
    acases = []
    for k in sks:
        t, l = ctx.rng.choice(settings)
        for nme in names:
            acases.append((L.Cfg(nme, t, l), k))
    klines = ctx.driver("lex", ["K %s %s" % (c.enc(), k) for c, k in acases])
    for i in range(0, len(acases), len(names)):
        outs = []
        for (c, k), kl in zip(acases[i:i + len(names)], klines[i:i + len(names)]):
            src, spec_v, _ = (L.dec_str(x) for x in kl.split(" "))
            outs.append((c, src, safe(jinja2, lambda: L.env_for(jinja2, c).from_string(src).render()), spec_v))
        c0, k = acases[i]
        case = {"kind": "delims", "skeleton": k, "trim_blocks": c0.trim, "lstrip_blocks": c0.lstrip,
                "sources": {c.name: s for c, s, _, _ in outs}}
        ctx.case(sample=case if len(k) > 40 else None, key=("delims", c0.trim, c0.lstrip, k))
        ctx.count("delims")
        ref = outs[0][2]
        bad = [(c.name, o) for c, _, o, _ in outs if o != ref]
        if bad or not ref.startswith("D "):
            ctx.reject(case, "outputs differ across delimiter sets: default %r, %r" % (ref, bad), "C13:delims:%s:%s%s" % (k, c0.trim, c0.lstrip))
        else:
            ctx.validated()

    # ---------------- (b) constructors, overlays, shared caches
    cfgs = []
    for nme in L.DELIMS:
        for t, l in settings:
            for nl in ("\n", "\r\n", "\r"):
                for keep in (False, True):
                    cfgs.append(L.Cfg(nme, t, l, nl, keep))
    ctx.rng.shuffle(cfgs)
    cfgs = cfgs[:ctx.size(70, 240)]
    base = jinja2.Environment()
    # the parent is USED (it has lexed and rendered) before any overlay is derived from it
    base.from_string("{% if true %}x{% endif %}{# c #}\n").render()
    list(base.lex("{{ 1 }}"))
    first_envs = {}
    jobs = []
    for ci, c in enumerate(cfgs):
        for _ in range(ctx.size(6, 12)):
            n = ctx.rng.randint(1, 3)
            parts = []
            for i in range(n):
                parts.append("".join(ctx.rng.choice([" ", "\n", "\r\n", "a", "b\n"]) for _ in range(ctx.rng.randint(0, 3))))
                parts.append(ctx.rng.choice(tags1))
            parts.append(ctx.rng.choice(["", "\n", " x\n", "\r"]))
            jobs.append((ci, c12.skel(parts)))
    ctx.rng.shuffle(jobs)
    klines = ctx.driver("lex", ["K %s %s" % (cfgs[ci].enc(), k) for ci, k in jobs])
    results = []
    for (ci, k), kl in zip(jobs, klines):
        c = cfgs[ci]
        src = L.dec_str(kl.split(" ")[0])
        kw = c.kwargs()
        if ci not in first_envs:
            first_envs[ci] = jinja2.Environment(**kw)
        ref = safe(jinja2, lambda: jinja2.Environment(**kw).from_string(src).render())
        kws = list(kw.items())
        half = len(kws) // 2
        def used_chain():
            # every link of the chain renders something before the next overlay is taken from it
            o1 = base.overlay(**dict(kws[:half]))
            try:
                o1.from_string("a{# c #}\n").render()
            except jinja2.TemplateSyntaxError:
                pass
            return o1.overlay(**dict(kws[half:])).from_string(src).render()

        def used_other():
            # overlay of an already used environment that was configured differently
            cj = ctx.rng.choice(sorted(first_envs))
            parent = first_envs[cj]
            try:
                parent.from_string("a\n").render()
            except jinja2.TemplateSyntaxError:
                pass
            return parent.overlay(**kw).from_string(src).render()

        outs = {
            "Template(...)": safe(jinja2, lambda: jinja2.Template(src, **kw).render()),
            "overlay of a used environment": safe(jinja2, lambda: base.overlay(**kw).from_string(src).render()),
            "overlay chain": safe(jinja2, lambda: base.overlay(**dict(kws[:half])).overlay(**dict(kws[half:])).from_string(src).render()),
            "overlay chain with used links": safe(jinja2, used_chain),
            "overlay of another used configuration": safe(jinja2, used_other),
            "earlier environment": safe(jinja2, lambda: first_envs[ci].from_string(src).render()),
        }
        case = {"kind": "constructors", "cfg": c.describe(), "src": src}
        ctx.case(sample=case if len(src) > 30 else None, key=("ctor", c.key(), src))
        ctx.count("constructors")
        bad = {n_: o for n_, o in outs.items() if o != ref}
        results.append((ci, src, ref))
        if bad or not ref.startswith("D "):
            ctx.reject(case, "fresh Environment renders %r but %r" % (ref, bad), "C13:ctor:%r:%s" % (src, c.key()))
        else:
            ctx.validated()
    # history: the first environments, used again after everything else
    for ci, src, ref in results[:ctx.size(300, 2000)]:
        again = safe(jinja2, lambda: first_envs[ci].from_string(src).render())
        ctx.case(key=None)
        ctx.count("history")
        if again != ref:
            ctx.reject({"kind": "history", "cfg": cfgs[ci].describe(), "src": src},
                       "an earlier environment now renders %r, before %r" % (again, ref), "C13:history:%r:%s" % (src, cfgs[ci].key()))
        else:
            ctx.validated()
    # a fresh process, reverse order
    subset = results[:ctx.size(400, 3000)]
    payload = json.dumps([[cfgs[ci].kwargs(), src] for ci, src, _ in reversed(subset)])
    code = ("import sys, json, jinja2\n"
            "out = []\n"
            "for kw, src in json.load(sys.stdin):\n"
            "    try:\n"
            "        out.append('D ' + jinja2.Environment(**kw).from_string(src).render())\n"
            "    except jinja2.TemplateSyntaxError as e:\n"
            "        out.append('ERR ' + str(e))\n"
            "    except Exception as e:\n"
            "        out.append('X:' + type(e).__name__ + ':' + str(e)[:80])\n"
            "json.dump(out, sys.stdout)\n")
    rc, out, err = lib.impl_python(code, inp=payload)
    if rc != 0:
        ctx.broken.append("fresh-process run failed: " + err[-300:])
    else:
        fresh = list(reversed(json.loads(out)))
        for (ci, src, ref), fr in zip(subset, fresh):
            ctx.case(key=None)
            ctx.count("fresh_process")
            if fr != ref:
                ctx.reject({"kind": "fresh", "cfg": cfgs[ci].describe(), "src": src},
                           "interleaved process rendered %r, a fresh process %r" % (ref, fr), "C13:fresh:%r:%s" % (src, cfgs[ci].key()))
            else:
                ctx.validated()

    # ---------------- (c) line statements, (d) line comments
    # two delimiter families: the default one with # / ##, and one whose END strings do not start with an operator
    # character (<? ?> <?= ?> <!-- --> with % / %%)
    lcs = [L.Cfg("line", True, True), L.Cfg("phpline", True, True), L.Cfg("latex", True, True)]
    pairs = []
    for with_comments in (False, True):
        for _ in range(ctx.size(4000, 25000)):
            lines = gen_lines(ctx.rng, with_comments)
            # "not followed by blank lines": generator emits no empty text lines
            fin = ctx.rng.random() < 0.5
            lc = lcs[0] if ctx.rng.random() < 0.5 else ctx.rng.choice(lcs[1:])
            if lc.name != "line":
                lines = [(k_, i_, p_.replace("%", "pct").replace("<", "lt")) if k_ == "text" else (k_, i_, p_) for k_, i_, p_ in lines]
            pairs.append((with_comments, write_lines(lines, False, fin, lc), write_lines(lines, True, fin, lc), lc))
    mruns = L.model_runs(ctx, [(p[3], p[1]) for p in pairs] + [(p[3], p[2]) for p in pairs])
    n = len(pairs)
    for i, (with_comments, a, b, lc) in enumerate(pairs):
        env = L.env_for(jinja2, lc)
        case = {"kind": "line-comment" if with_comments else "line-statement", "block_form": a, "line_form": b, "delims": lc.name}
        ctx.case(sample=case if len(a) > 40 else None, key=(case["kind"], a) if (lc.d[0] in a or lc.d[2] in a) else None)
        ctx.count(case["kind"])
        oa = safe(jinja2, lambda: env.from_string(a).render())
        ob = safe(jinja2, lambda: env.from_string(b).render())
        if oa != ob or not oa.startswith("D "):
            if with_comments and lc.d[4] in a:
                ctx.reject(case, "block form renders %r, line form %r" % (oa, ob), KNOWN_SIG)
            else:
                ctx.reject(case, "block form renders %r, line form %r" % (oa, ob), "C13:line-statement:%r" % a)
            continue
        ok = True
        for src, m in ((a, mruns[i]), (b, mruns[n + i])):
            r = L.real_run(jinja2, env, src)
            if m.canon() != r:
                ctx.model_mismatch("K-lex tokeniter (line statements)", dict(case, src=src), repr(m.canon())[:300], repr(r)[:300], None)
                ok = False
        if ok:
            ctx.validated()
    run_line_skeletons(ctx, jinja2)
    run_loader_overlays(ctx, jinja2, cfgs, tags1)
    run_expr_delims(ctx, jinja2, settings)
    # whole-line line statement right after a tag that ends in '-': re-observes the recorded finding
    lenv = L.env_for(jinja2, L.Cfg("line", True, True))
    for blk, lin in (("{% if true -%}\n  {% if true %}\nb\n{% endif %}\n{% endif %}", "{% if true -%}\n  # if true\nb\n# endif\n{% endif %}"),
                     ("{# a -#}\n{% set x = 1 %}\nb", "{# a -#}\n# set x = 1\nb")):
        ob = safe(jinja2, lambda: lenv.from_string(blk).render())
        ol = safe(jinja2, lambda: lenv.from_string(lin).render())
        case = {"kind": "line-statement", "block_form": blk, "line_form": lin, "delims": "line"}
        ctx.case(sample=case, key=("lsminus", blk))
        ctx.count("line_statement_after_minus_probe")
        if ob != ol:
            ctx.reject(case, "block form renders %r, line form %r" % (ob, ol), "C13:line-statement-after-minus-tag-not-recognised")
        else:
            ctx.validated()
    for nme in ("angle", "dollar"):
        c2 = L.Cfg(nme)
        src = "{% set x = 1 %}<% set y = 2 %>$% set z = 3 %$|{{ 1 }}<%= 2 %>${ 3 }"
        got, want = L.probe_shared_bytecode_cache(jinja2, {}, {k_: v for k_, v in c2.kwargs().items() if k_.endswith("_string")}, src)
        case = {"kind": "shared-bytecode-cache", "cfg": c2.describe(), "src": src}
        ctx.case(sample=case, key=("bcc", nme))
        ctx.count("shared_bytecode_cache_probe")
        if got != want:
            ctx.reject(case, "second environment on the shared bytecode cache renders %r, without the cache %r" % (got, want),
                       "C13:shared-bytecode-cache-ignores-delimiters")
        else:
            ctx.validated()


def run_loader_overlays(ctx, jinja2, cfgs, tags1):
    """templates fetched BY NAME (loader + template cache) through a base environment first, then the same
    names through an overlay with different syntax / whitespace options, including an including template:
    the overlay must render what a fresh loader-backed Environment with the overlay's options renders, and
    the base must still render what it rendered before"""
    from . import c12
    for j in range(ctx.size(120, 1200)):
        c = ctx.rng.choice(cfgs)
        n = ctx.rng.randint(1, 3)
        parts = []
        for i in range(n):
            parts.append("".join(ctx.rng.choice([" ", "\n", "a", "b\n"]) for _ in range(ctx.rng.randint(0, 3))))
            parts.append(ctx.rng.choice(tags1))
        parts.append(ctx.rng.choice(["", "\n", " x\n"]))
        k = c12.skel(parts)
        base_cfg = L.Cfg("default")
        ka, kb = ctx.driver("lex", ["K %s %s" % (base_cfg.enc(), k), "K %s %s" % (c.enc(), k)])
        src_a, src_b = L.dec_str(ka.split(" ")[0]), L.dec_str(kb.split(" ")[0])
        bs, be = c.d[0], c.d[1]
        templates = {"a": src_a, "b": src_b, "inc": "[" + bs + " include 'b' " + be + "|" + bs + " include 'a' " + be + "]",
                     "inc_base": "[{% include 'a' %}]"}
        names = sorted(templates)
        kw = c.kwargs()
        cache_size = ctx.rng.choice([400, -1, 50])
        base = jinja2.Environment(loader=jinja2.DictLoader(templates), cache_size=cache_size)
        before = {nm: safe(jinja2, lambda: base.get_template(nm).render()) for nm in names}     # base first, by name
        ov = base.overlay(**kw)
        got = {nm: safe(jinja2, lambda: ov.get_template(nm).render()) for nm in names}
        fresh_env = jinja2.Environment(loader=jinja2.DictLoader(templates), cache_size=cache_size, **kw)
        want = {nm: safe(jinja2, lambda: fresh_env.get_template(nm).render()) for nm in names}
        after = {nm: safe(jinja2, lambda: base.get_template(nm).render()) for nm in names}
        case = {"kind": "loader-overlay", "cfg": c.describe(), "templates": templates, "cache_size": cache_size}
        ctx.case(sample=case if j < 2 else None, key=("loader", c.key(), k))
        ctx.count("loader_overlay")
        bad = {nm: (got[nm], want[nm]) for nm in names if got[nm] != want[nm]}
        bad2 = {nm: (before[nm], after[nm]) for nm in names if before[nm] != after[nm]}
        if bad:
            ctx.reject(case, "overlay.get_template renders differently from a fresh Environment with the same options (overlay, fresh): %r" % bad,
                       "C13:loader-overlay:%s:%s" % (k, c.key()))
        elif bad2:
            ctx.reject(case, "the base environment renders differently after the overlay was used (before, after): %r" % bad2,
                       "C13:loader-base:%s:%s" % (k, c.key()))
        else:
            ctx.validated()


EXPRS = ["1", "'s'", "x", "{'a': 1}['a']", "[1, 2][0]", "(1, 2)|length", "'}}'", "'%}'", "'}'", "x ~ '#'", "1 if true else 2",
         "{'k': {'j': 2}}['k']['j']", "'<%'", "'${'", "\"-->\"", "x|upper", "[x, {'y': [1, (2, 3)]}]|length", "'{{ not a tag }}'",
         "x[0]", "{}|length", "'%$'", "m.a", "m['a']", "n", "n + 1", "t|join('}')"]


def gen_expr_template(rng):
    """abstract segments: ('t', text) | ('v', lmod, expr, rmod) | ('if', expr, [segments]) | ('for', [segments]) |
    ('c', text) | ('r', text) | ('set', expr)"""
    def segs(depth):
        out = []
        for _ in range(rng.randint(1, 4)):
            k = rng.random()
            if k < 0.3:
                out.append(("t", "".join(rng.choice(["a", " ", "\n", "b\n", "z", ": "]) for _ in range(rng.randint(0, 4)))))
            elif k < 0.6:
                out.append(("v", rng.choice(["", "", "-", "+"]), rng.choice(EXPRS), rng.choice(["", "", "-"])))
            elif k < 0.7 and depth < 2:
                out.append(("if", rng.choice(["true", "x", "1 < 2", "{'a': 1}", "n"]), segs(depth + 1)))
            elif k < 0.8 and depth < 2:
                out.append(("for", segs(depth + 1)))
            elif k < 0.87:
                out.append(("c", rng.choice(["note", "a b", "multi\nline", ""])))
            elif k < 0.94:
                out.append(("r", rng.choice(["raw text", " ", "a\n b", ""])))
            else:
                out.append(("set", rng.choice(EXPRS)))
        return out
    return segs(0)


def write_expr_template(cfg, segs):
    bs, be, vs, ve, cs, ce, _, _ = cfg.d
    out = []
    for s in segs:
        if s[0] == "t":
            out.append(s[1])
        elif s[0] == "v":
            out.append(vs + s[1] + " " + s[2] + " " + s[3] + ve)
        elif s[0] == "if":
            out.append(bs + " if " + s[1] + " " + be + write_expr_template(cfg, s[2]) + bs + " endif " + be)
        elif s[0] == "for":
            out.append(bs + " for i in [1, 2] " + be + write_expr_template(cfg, s[1]) + bs + " endfor " + be)
        elif s[0] == "c":
            out.append(cs + " " + s[1] + " " + ce)
        elif s[0] == "r":
            out.append(bs + " raw " + be + s[1] + bs + " endraw " + be)
        else:
            out.append(bs + " set q = " + s[1] + " " + be)
    return "".join(out)


class _NS:
    a = "attr"

    def __getitem__(self, k):
        return "item-" + str(k)


def run_expr_delims(ctx, jinja2, settings):
    """delimiter substitution for templates with real expressions: nested brackets / braces / parentheses (the
    balancing stack decides where a tag ends, e.g. '}' as variable end), strings containing every set's
    delimiters, filters, attribute / item access; context values of several kinds; all routes sampled"""
    from markupsafe import Markup
    names = ["default", "angle", "dollar", "asp", "linepct", "phpline", "latex", "paren"]
    datas = [dict(x="xs", m={"a": 1}, n=1, t=("p", "q")), dict(x=Markup("<b>"), m=_NS(), n=True, t=["p", "q"]),
             dict(x=L._S("sub"), m={"a": [1]}, n=1.0, t=iter(["p", "q"]))]
    for j in range(ctx.size(1000, 12000)):
        segs = gen_expr_template(ctx.rng)
        t_, l_ = ctx.rng.choice(settings)
        nl = ctx.rng.choice(["\n", "\n", "\r\n"])
        di = ctx.rng.randrange(len(datas))
        outs = {}
        srcs = {}
        for nme in names:
            c = L.Cfg(nme, t_, l_, nl=nl)
            srcs[nme] = write_expr_template(c, segs)
            d = dict(datas[di])
            if di == 2:
                d["t"] = iter(["p", "q"])
            route = "environment" if nme == "default" or ctx.rng.random() < 0.7 else ctx.rng.choice(["template_ctor", "overlay_of_used", "sandboxed", "loader", "unoptimized"])
            outs[nme] = L.safe_route(jinja2, route, c, srcs[nme], **d)
        case = {"kind": "expr-delims", "trim_blocks": t_, "lstrip_blocks": l_, "newline_sequence": nl, "data": di, "sources": srcs}
        ctx.case(sample=case if j < 2 else None, key=("exprdelims", t_, l_, srcs["default"]))
        ctx.count("expr_delims")
        ref = outs["default"]
        bad = {k_: v for k_, v in outs.items() if v != ref}
        if bad:
            ctx.reject(case, "outputs differ across delimiter sets: default %r, %r" % (ref, bad), "C13:expr-delims:%r:%s%s" % (srcs["default"], t_, l_))
        else:
            ctx.validated()


def lead_ok(s):
    if s == "":
        return True
    r = s.lstrip(" \t\x0b")
    return r != "" and not r[0].isspace()


def run_line_skeletons(ctx, jinja2):
    """the line-structured skeletons of C13_line_statement_equiv / C13_line_form_render: both forms must
    render spec_lines (the texts, statement lines removed) on the real engine, and the model must agree"""
    texts = ["", "a\n", "a b\n  c\n", "  x\n", "<p>\n", "a\n\nb\n", "\n"]
    inds = ["", " ", "\t ", "    ", "\x0b"]
    finals = ["", "b", "  b\n", "b\n\nc", "x y\n", "}}%\n"]
    jobs = []
    for _ in range(ctx.size(1500, 15000)):
        n = ctx.rng.randint(0, 4)
        chs = []
        for i in range(n):
            T = ctx.rng.choice(texts)
            if not lead_ok(T):
                T = ""
            chs.append((T, ctx.rng.choice(inds)))
        F = ctx.rng.choice(finals)
        keep = ctx.rng.random() < 0.5
        if not keep and F == "":
            keep = True
        jobs.append((chs, F, keep))
    cases = []
    for chs, F, keep in jobs:
        c = L.Cfg("line", True, True, keep=keep)
        blk = "".join(T + i + "{% set x = 1 %}\n" for T, i in chs) + F
        lin = "".join(T + i + "# set x = 1 \n" for T, i in chs) + F
        want = "".join(T for T, _ in chs) + (F if keep else (F[:-1] if F.endswith("\n") else F))
        cases.append((c, blk, lin, want))
    mruns = L.model_runs(ctx, [(c, b) for c, b, _, _ in cases] + [(c, l) for c, _, l, _ in cases])
    n = len(cases)
    for i, (c, blk, lin, want) in enumerate(cases):
        env = L.env_for(jinja2, c)
        case = {"kind": "line-skeleton", "keep_trailing_newline": c.keep, "block_form": blk, "line_form": lin}
        ctx.case(sample=case if len(blk) > 40 else None, key=("lsk", c.keep, blk))
        ctx.count("line_skeleton")
        ob = safe(jinja2, lambda: env.from_string(blk).render())
        ol = safe(jinja2, lambda: env.from_string(lin).render())
        if ob != "D " + want or ol != "D " + want:
            ctx.reject(case, "spec_lines gives %r; block form renders %r, line form %r" % (want, ob, ol), "C13:line-skeleton:%r:%s" % (blk, c.keep))
            continue
        ok = True
        for src, m in ((blk, mruns[i]), (lin, mruns[n + i])):
            r = L.real_run(jinja2, env, src)
            if m.canon() != r:
                ctx.model_mismatch("K-lex tokeniter (line skeletons)", dict(case, src=src), repr(m.canon())[:300], repr(r)[:300], None)
                ok = False
        if ok:
            ctx.validated()


def replay(ctx, data):
    jinja2 = lib.use_repo_jinja()
    case = data.get("case")
    if data.get("kind") != "failing-input" or case is None:
        print("replay: this file names a broken theorem/correspondence, not an input:", data.get("broken"))
        return run(ctx)
    kind = case.get("kind")
    if kind == "shared-bytecode-cache":
        c2 = L.Cfg.from_desc(case["cfg"])
        got, want = L.probe_shared_bytecode_cache(jinja2, {}, {k_: v for k_, v in c2.kwargs().items() if k_.endswith("_string")}, case["src"])
        print("shared bytecode cache:", got, "without:", want)
        if got != want:
            ctx.reject(case, "shared bytecode cache: %r vs %r" % (got, want), data.get("signature"))
        return
    if kind == "expr-delims":
        outs = {}
        for nme, src in case["sources"].items():
            c = L.Cfg(nme, case["trim_blocks"], case["lstrip_blocks"], nl=case["newline_sequence"])
            outs[nme] = L.safe_route(jinja2, "environment", c, src, x="xs", m={"a": 1}, n=1, t=("p", "q"))
            print(nme, repr(src), "->", outs[nme])
        if len(set(outs.values())) != 1:
            ctx.reject(case, "outputs differ across delimiter sets: %r" % outs, data.get("signature"))
    elif kind == "loader-overlay":
        c = L.Cfg.from_desc(case["cfg"])
        tp, kw = case["templates"], c.kwargs()
        base = jinja2.Environment(loader=jinja2.DictLoader(tp), cache_size=case["cache_size"])
        for nm in sorted(tp):
            safe(jinja2, lambda: base.get_template(nm).render())
        ov = base.overlay(**kw)
        fresh_env = jinja2.Environment(loader=jinja2.DictLoader(tp), cache_size=case["cache_size"], **kw)
        bad = {}
        for nm in sorted(tp):
            g = safe(jinja2, lambda: ov.get_template(nm).render())
            w = safe(jinja2, lambda: fresh_env.get_template(nm).render())
            print(nm, repr(tp[nm]), "overlay:", g, "fresh:", w)
            if g != w:
                bad[nm] = (g, w)
        if bad:
            ctx.reject(case, "overlay.get_template differs from a fresh Environment: %r" % bad, data.get("signature"))
    elif kind == "line-skeleton":
        c = L.Cfg("line", True, True, keep=case["keep_trailing_newline"])
        env = L.env_for(jinja2, c)
        ob = safe(jinja2, lambda: env.from_string(case["block_form"]).render())
        ol = safe(jinja2, lambda: env.from_string(case["line_form"]).render())
        print("block form:", repr(case["block_form"]), "->", ob, "\nline form :", repr(case["line_form"]), "->", ol)
        if ob != ol:
            ctx.reject(case, "block form renders %r, line form %r" % (ob, ol), data.get("signature"))
    elif kind in ("line-statement", "line-comment"):
        env = L.env_for(jinja2, L.Cfg(case.get("delims", "line"), True, True))
        oa = safe(jinja2, lambda: env.from_string(case["block_form"]).render())
        ob = safe(jinja2, lambda: env.from_string(case["line_form"]).render())
        print("block form:", repr(case["block_form"]), "->", oa)
        print("line form :", repr(case["line_form"]), "->", ob)
        if oa != ob:
            ctx.reject(case, "block form renders %r, line form %r" % (oa, ob), data.get("signature"))
    elif kind == "delims":
        outs = {}
        for nme, src in case["sources"].items():
            c = L.Cfg(nme, case["trim_blocks"], case["lstrip_blocks"])
            outs[nme] = safe(jinja2, lambda: L.env_for(jinja2, c).from_string(src).render())
            print(nme, repr(src), "->", outs[nme])
        if len(set(outs.values())) != 1:
            ctx.reject(case, "outputs differ across delimiter sets: %r" % outs, data.get("signature"))
    else:
        c = L.Cfg.from_desc(case["cfg"])
        kw, src = c.kwargs(), case["src"]
        ref = safe(jinja2, lambda: jinja2.Environment(**kw).from_string(src).render())
        t = safe(jinja2, lambda: jinja2.Template(src, **kw).render())
        parent = jinja2.Environment()
        parent.from_string("{% if true %}x{% endif %}").render()     # the parent is used before the overlay is taken
        o = safe(jinja2, lambda: parent.overlay(**kw).from_string(src).render())
        print("source:", repr(src), case["cfg"], "\nEnvironment:", ref, "\nTemplate(...):", t, "\noverlay of a used environment:", o)
        print("(interleaving-dependent failures need the full run: ./check C13)")
        if len({ref, t, o}) != 1:
            ctx.reject(case, "Environment %r, Template %r, overlay %r" % (ref, t, o), data.get("signature"))
