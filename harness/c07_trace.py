"""Recorder for the skeleton of compiler.CodeGenerator.visit_For (C07, tie K-gen without reading the
generated module): a CodeGenerator subclass installed as environment.code_generator_class records, per
For node, the sequence of frame operations and control-line emissions visit_For performs, as abstract
tokens.  Frames are identified by the order in which visit_For creates them (loop / test / else),
temporaries by the order in which it asks for them; no generated text is parsed."""


def make_recorder(jinja2, store):
    from jinja2 import nodes
    from jinja2.compiler import CodeGenerator

    class Rec(CodeGenerator):
        def __init__(self, *a, **k):
            super().__init__(*a, **k)
            self._stack = []

        # ---- per-For bookkeeping
        def visit_For(self, node, frame):
            st = {"node": node, "ev": [], "roles": {id(frame): "outer"}, "temps": [], "outer": frame,
                  "outer_ilb": frame.in_loop_body, "outer_buf": frame.buffer is not None}
            store.append(st)
            made = []
            orig_inner = frame.inner

            def inner(*a, **k):
                f = orig_inner(*a, **k)
                if self._stack and self._stack[-1] is st and len(made) < 3:
                    made.append(f)
                    st["roles"][id(f)] = ("loop", "test", "else")[len(made) - 1]
                return f

            frame.inner = inner
            self._stack.append(st)
            st["ev"].append("begin:pilb=%d" % int(frame.in_loop_body))
            try:
                super().visit_For(node, frame)
            finally:
                self._stack.pop()
                del frame.inner
            st["ev"].append("end")
            st["frames"] = len(made)

        def _cur(self):
            return self._stack[-1] if self._stack else None

        def _role(self, st, frame):
            return st["roles"].get(id(frame), "?")

        def _muted(self, st, fn, *a):
            """what a helper emits on its own (loads, resets, buffer creation) is not part of the skeleton"""
            if st is None:
                return fn(*a)
            prev = st.get("mute")
            st["mute"] = True
            try:
                return fn(*a)
            finally:
                st["mute"] = prev

        def _ev(self, tok):
            st = self._cur()
            if st is not None and not st.get("mute"):
                st["ev"].append(tok)

        # ---- frame operations
        def enter_frame(self, frame):
            st = self._cur()
            if st is not None and id(frame) in st["roles"] and not st.get("mute"):
                self._ev("enter:%s:lf=%d:ilb=%d" % (self._role(st, frame), int(frame.loop_frame), int(frame.in_loop_body)))
            self._muted(st, super().enter_frame, frame)

        def leave_frame(self, frame, with_python_scope=False):
            st = self._cur()
            if st is not None and id(frame) in st["roles"] and not st.get("mute"):
                self._ev("leave:%s:scope=%d" % (self._role(st, frame), int(bool(with_python_scope))))
            self._muted(st, super().leave_frame, frame, with_python_scope)

        def blockvisit(self, nodes_, frame):
            st = self._cur()
            which = None
            if st is not None and not st.get("mute"):
                if nodes_ is st["node"].body:
                    which = "body"
                elif nodes_ is st["node"].else_:
                    which = "else"
            if which is None:
                return super().blockvisit(nodes_, frame)
            loop_frame = [f for f, r in ((k, v) for k, v in st["roles"].items()) if r == "loop"]
            self._ev("block:%s:%s:ilb=%d:buf=%s" % (which, self._role(st, frame), int(frame.in_loop_body),
                                                  "same" if which == "else" and frame.buffer is not None
                                                  and frame.buffer == st.get("loop_buffer") else
                                                  ("own" if frame.buffer is not None else "none")))
            st["mute"] = True          # what the body emits is not part of this loop's skeleton
            try:
                super().blockvisit(nodes_, frame)
            finally:
                st["mute"] = False

        def visit(self, node, *args, **kwargs):
            st = self._cur()
            if st is not None and not st.get("mute") and args:
                n = st["node"]
                which = "target" if node is n.target else "iter" if node is n.iter else "test" if node is n.test else None
                if which is not None:
                    self._ev("visit:%s:%s" % (which, self._role(st, args[0])))
                    st["mute"] = True
                    try:
                        return super().visit(node, *args, **kwargs)
                    finally:
                        st["mute"] = False
            return super().visit(node, *args, **kwargs)

        def buffer(self, frame):
            st = self._cur()
            self._muted(st, super().buffer, frame)
            if st is not None and not st.get("mute"):
                self._ev("buffer:%s" % self._role(st, frame))
                if self._role(st, frame) == "loop":
                    st["loop_buffer"] = frame.buffer

        def return_buffer_contents(self, frame, force_unescaped=False):
            st = self._cur()
            if st is not None and not st.get("mute"):
                self._ev("return_buffer:%s" % self._role(st, frame))
                st["mute"] = True
                try:
                    return super().return_buffer_contents(frame, force_unescaped)
                finally:
                    st["mute"] = False
            return super().return_buffer_contents(frame, force_unescaped)

        def start_write(self, frame, node=None):
            self._ev("start_write:%s" % (self._role(self._cur(), frame) if self._cur() else "?"))
            st = self._cur()
            if st is not None:
                prev = st.get("mute")
                st["mute"] = True
                try:
                    return super().start_write(frame, node)
                finally:
                    st["mute"] = prev
            return super().start_write(frame, node)

        def end_write(self, frame):
            self._ev("end_write")
            st = self._cur()
            if st is not None:
                prev = st.get("mute")
                st["mute"] = True
                try:
                    return super().end_write(frame)
                finally:
                    st["mute"] = prev
            return super().end_write(frame)

        # ---- temporaries and control lines
        def temporary_identifier(self):
            t = super().temporary_identifier()
            st = self._cur()
            if st is not None and not st.get("mute"):
                st["temps"].append(t)
                self._ev("temp")
            return t

        def indent(self):
            self._ev("indent")
            super().indent()

        def outdent(self, step=1):
            self._ev("outdent:%d" % step)
            super().outdent(step)

        def writeline(self, x, node=None, extra=0):
            st = self._cur()
            if st is not None and not st.get("mute"):
                self._ev("line:" + classify_line(x, st["temps"], node is st["node"], node is st["node"].test))
                st["mute"] = True
                try:
                    return super().writeline(x, node, extra)
                finally:
                    st["mute"] = False
            return super().writeline(x, node, extra)

        def write(self, x):
            st = self._cur()
            if st is not None and not st.get("mute"):
                tok = classify_write(x, st["temps"])
                if tok:
                    self._ev("w:" + tok)
            super().write(x)

    return Rec


def classify_line(x, temps, at_node, at_test):
    """a control line by the identifiers visit_For obtained, not by its full text"""
    for i, t in enumerate(temps):
        if x == f"{t} = 1":
            return f"t{i}=1"
        if x == f"{t} = 0":
            return f"t{i}=0"
        if x == f"if {t}:":
            return f"if_t{i}"
        if x.startswith(f"{t} = ") and x.endswith("("):
            j = [k for k, u in enumerate(temps) if x == f"{t} = {u}("]
            return f"t{i}=t{j[0]}(" if j else "?assign"
        if x in (f"def {t}(fiter):", f"async def {t}(fiter):"):
            return f"def_t{i}(fiter)"
        if x == f"finally: await {t}.aclose()":
            return f"finally_aclose_t{i}"
    if x in ("def loop(reciter, loop_render_func, depth=0):", "async def loop(reciter, loop_render_func, depth=0):"):
        return "def_loop"
    if x in ("for ", "async for "):
        return "for" + (":node" if at_node else "")
    if x == "if ":
        return "if" + (":test" if at_test else "")
    if x == "yield ":
        return "yield"
    if x == "try:":
        return "try"
    if x == "_loop_vars = {}":
        return "loop_vars"
    if x.endswith(" = missing"):
        return "ref=missing"
    return "?" + x[:30]


def classify_write(x, temps):
    for i, t in enumerate(temps):
        if x == t:
            return f"t{i}"
        if x == f"{t}(":
            return f"t{i}("
    if "LoopContext(" in x:
        return "AsyncLoopContext" if "AsyncLoopContext(" in x else "LoopContext"
    table = {" in ": "in", "fiter": "fiter", "auto_aiter(fiter)": "aiter_fiter", ":": "colon", "auto_aiter(": "aiter(",
             ")": "close", "reciter": "reciter", ", undefined, loop_render_func, depth):": "tail_rec",
             ", undefined):": "tail_ext", "loop(": "call_loop", "await loop(": "await_call_loop", ", loop)": "loop_arg"}
    return table.get(x, "?" + x[:20])


# ------------------------------------------------------------------ generated loops for the trace tie
def loop_sources(rng, n_random):
    """(source, expected configuration of the (marked) For node, enable loopcontrols?)
    the For under test iterates `xs` with target `x`; configurations are read back from the parsed
    node, so the generator only has to cover the space"""
    bodies = {False: ["{{ x }}", "{{ x }}{% if x %}y{% endif %}", "{% set q = x %}{{ q }}"],
              True: ["{{ loop.index }}", "{{ x }}{% if loop.first %}f{% endif %}", "{% for c in x[:loop.index] %}{{ c }}{% endfor %}"]}
    out = []
    for rec in (False, True):
        for has_else in (False, True):
            for has_test in (False, True):
                for mentions in (False, True):
                    for scoped in (False, True):
                        for ctxk in ("top", "in_loop", "in_loop_else", "in_macro", "in_macro_in_loop", "in_filter_block", "in_rec_else"):
                            body = rng.choice(bodies[mentions])
                            if rec and rng.random() < 0.5:
                                body += "{{ loop(x.c) }}"
                            if scoped:
                                body += "{% block b" + str(len(out)) + " scoped %}{{ x }}{% endblock %}"
                            loop = ("{% for x in xs" + (" if x" if has_test else "") + (" recursive" if rec else "") + " %}" + body
                                    + ("{% else %}E" if has_else else "") + "{% endfor %}")
                            if scoped and ctxk != "top" and "macro" in ctxk:
                                continue          # blocks cannot be defined inside macros... keep them at loop level only
                            src = {"top": "%s", "in_loop": "{%% for y in ys %%}%s{%% endfor %%}",
                                   "in_loop_else": "{%% for y in ys %%}a{%% else %%}%s{%% endfor %%}",
                                   "in_macro": "{%% macro m() %%}%s{%% endmacro %%}",
                                   "in_macro_in_loop": "{%% for y in ys %%}{%% macro m() %%}%s{%% endmacro %%}{%% endfor %%}",
                                   "in_filter_block": "{%% filter upper %%}%s{%% endfilter %%}",
                                   "in_rec_else": "{%% for y in ys recursive %%}a{%% else %%}%s{%% endfor %%}"}[ctxk] % loop
                            out.append(src)
    return out


def config_of(jinja2, st, is_async):
    """the model's inputs, read from the For node and the enclosing frame (not from generated text)"""
    from jinja2 import nodes
    from jinja2.compiler import find_undeclared
    n = st["node"]
    return (bool(n.recursive), bool(n.else_), n.test is not None,
            "loop" in find_undeclared(n.iter_child_nodes(only=("body",)), ("loop",)),
            any(b.scoped for b in n.find_all(nodes.Block)), is_async,
            bool(st["outer_ilb"]), bool(st["outer_buf"]))
