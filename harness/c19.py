"""C19 — the immutable sandbox never modifies list, dict, set or deque data.

proof : Properties/C19.v (checker soundness for every table; snapshot instance; private names)
        + regenerated every run: build/C19/Gen_sbx_src.v (T5: gen/sbx_translate.py turns the
        current source of modifies_known_mutable / is_internal_attribute / both is_safe_attribute
        methods into terms of Lib/PySbx.v and the file proves  source term = model function  for
        every argument, the loop over _mutable_spec by induction over the table),
        build/C19/SbxGenC19.v  (T1: ordered _mutable_spec, UNSAFE_*,
        isinstance facts, public names of the running interpreter  =>  theorem
        immutable_blocks_mutators by vm_compute) and SbxGenC19Filters.v (T3-lite write footprint
        of filters.py  =>  filters_do_not_mutate_args)
tie   : S-validate  Spec/SbxMutators.mutates == observed mutation of fresh containers (every
                    public name x generated arguments)
        K-policy    extracted modifies_known_mutable / immutable_is_safe_attribute == the real
                    functions on instances of the four types (public, private, random names)
        K-render    model hand-out (value / unsafe undefined) == SecurityError-or-not of the real
                    render of every public name along 14 call paths (+3 format-lookup paths), sync and async
oracle: context data deep-equals its snapshot after every render (methods along every path,
        every built-in filter with container values and container-valued arguments)
"""
import collections
import collections.abc
import re

from markupsafe import Markup
import types
import copy
import inspect
import itertools

from . import lib
from . import sbx_src_tie

RULE = ("methods: every public name of list/dict/set/deque of the running interpreter (plus dunder mutators) x "
        "argument tuples that the method accepts on a fresh container x 17 access paths (dot, subscript, set/with "
        "alias, attr filter, map(attribute=), map('attr'), nested container, macro argument, loop variable, dict "
        "value, call block, str.format / format_map field lookups) x {sync, async} immutable sandbox, each interleaved with a plain "
        "SandboxedEnvironment of the same process rendering the same template first (plain-first) or between two "
        "immutable renders (immutable-first); distinct = (type, name, args, path, mode); non-trivial = the method mutates per Spec/SbxMutators. filters: every "
        "registered filter x container values x every parameter bound to a container (keyword and positional) "
        "(values include generators / iterators whose items are context containers, and containers nested in objects) "
        "x {printed, consumed with |list} x {sync, async} x autoescape {off, on}; non-trivial = the filter call returned without error.")

PY_OF = {"TList": list, "TDict": dict, "TSet": set, "TDeque": collections.deque}
LETTER = {"TList": "L", "TDict": "D", "TSet": "S", "TDeque": "Q"}
NAME = {"TList": "list", "TDict": "dict", "TSet": "set", "TDeque": "deque"}

# argument catalogue (index = identity in replays); sets / deques are passed through the context
ARGS = [(), (1,), (0,), ([7, 8],), ({"k": 9},), ("a",), ("a", 5), ("zz", 5), (0, 7), (1, 2), ({1, 9},), (-1,),
        ([("p", 1)],), (2, 1, 3)]

DUNDER_MUTATORS = ["__setitem__", "__delitem__", "__iadd__", "__imul__", "__ior__", "__iand__", "__isub__",
                   "__ixor__", "__init__", "__setattr__"]


def fresh(T, variant=0):
    if T == "TList":
        return [3, 1, 2] if variant == 0 else [[1], [2]]
    if T == "TDict":
        return {"a": 1, "b": 2} if variant == 0 else {1: [1], 0: [2]}
    if T == "TSet":
        return {1, 2, 3} if variant == 0 else {0, 7}
    if T == "TDeque":
        return collections.deque([3, 1, 2]) if variant == 0 else collections.deque([1, 2, 3], maxlen=5)
    raise AssertionError(T)


def canon(x):
    """deep, type-aware canonical form (a deque never equals a list; sets ordered by repr)"""
    if isinstance(x, collections.deque):
        return ("deque", x.maxlen, tuple(canon(i) for i in x))
    if isinstance(x, list):
        return ("list", tuple(canon(i) for i in x))
    if isinstance(x, tuple):
        return ("tuple", tuple(canon(i) for i in x))
    if isinstance(x, (set, frozenset)):
        return (type(x).__name__, tuple(sorted((canon(i) for i in x), key=repr)))
    if isinstance(x, dict):
        return ("dict", tuple((canon(k), canon(v)) for k, v in x.items()))
    if isinstance(x, Box):
        return ("Box", canon(vars(x)))
    if isinstance(x, (types.BuiltinMethodType, types.MethodType)):
        return ("method", getattr(x, "__name__", "?"))
    if isinstance(x, (types.GeneratorType, collections.abc.Iterator)) and not isinstance(x, (str, bytes)):
        return ("iterator",)        # consumed by rendering; its items are compared through their owners
    return (type(x).__name__, repr(x))


class Box:
    """a plain data object with container attributes"""
    def __init__(self, **kw):
        self.__dict__.update(kw)

    def __repr__(self):
        return "Box(%r)" % (vars(self),)


_SEEN = set()


def reject_once(ctx, case, what, sig):
    """lib keeps the first 50 rejections and then reports one per signature: pass each signature
    once so that different failing input classes are all reported (local work-around)"""
    ctx.extra["rejections"] = ctx.extra.get("rejections", 0) + 1
    if sig in _SEEN:
        return
    _SEEN.add(sig)
    ctx.reject(case, what, sig)


def hexname(s):
    return s.encode("utf-8").hex() or "-"


# ------------------------------------------------------------------ regenerated obligations
def regenerate(ctx):
    from gen import sbx_filters_scan, sbx_tables
    facts = None
    try:
        facts = sbx_tables.runtime_facts(sbx_tables.read_source(lib.SRC))
    except sbx_tables.TranslatorError as e:
        ctx.obligations += 2
        ctx.obligation_names.append("SbxGenC19 (regenerated, 2)")
        ctx.broken.append(f"T1 translator gen/sbx_tables.py does not recognise sandbox.py: {e}")
    if facts is not None:
        if not facts["live_table_matches_source"]:
            ctx.broken.append("T1: the _mutable_spec / UNSAFE_* objects of the imported module differ from the source text")
        v = f"""(* regenerated from {lib.SRC}/jinja2/sandbox.py and the running interpreter by gen/sbx_tables.py *)
From Coq Require Import List Bool String.
Import ListNotations.
From JV Require Import Model.SbxAttr Model.SbxMutable Spec.SbxMutators Proofs.SbxMutableProofs.
Open Scope string_scope.

{sbx_tables.tables_to_coq(facts)}

{sbx_tables.spec_to_coq(facts)}

(* C19, finite domain: for each of the four exact builtin types and every public name of it in
   the running interpreter, a mutating method is not handed out by the immutable sandbox *)
Theorem immutable_blocks_mutators : forall T m, In m (gen_public T) -> mutates T m = true ->
  immutable_is_safe_attribute gen_tables gen_spec T m = false.
Proof. apply blocks_ok_sound. vm_compute. reflexivity. Qed.
Print Assumptions immutable_blocks_mutators.

(* ... and a bound mutating method that reaches the template as data is refused by the call gate; the domain here is
   every public name AND every callable dunder name (operator methods: method-wrapper objects) of the type *)
Theorem immutable_refuses_stored_mutators : forall T m, In m (gen_names T) -> mutates T m = true ->
  immutable_is_safe_callable gen_spec T m = false.
Proof. apply calls_ok_sound. vm_compute. reflexivity. Qed.
Print Assumptions immutable_refuses_stored_mutators.

(* ... in every stored form: bound, unbound (the type's method descriptor), wrapped in functools.partial *)
Theorem immutable_refuses_every_stored_form : forall r T m, ref_target r = Some (T, m) -> In m (gen_names T) ->
  mutates T m = true -> immutable_safe_ref gen_spec r = false.
Proof.
  intros r T m Ht Hin Hmut. rewrite (safe_ref_by_target gen_spec r T m Ht).
  revert T m Hin Hmut Ht. intros T m Hin Hmut _. revert T m Hin Hmut. apply calls_ok_sound. vm_compute. reflexivity.
Qed.

(* the domain is not empty: every type has a public mutating method, and a non-mutating one
   that stays available *)
Theorem domain_nonvacuous : forallb (fun T => existsb (mutates T) (gen_public T) && existsb (mutates T) (gen_dunder T)
    && existsb (fun m => negb (mutates T m) && immutable_is_safe_attribute gen_tables gen_spec T m) (gen_public T))
  all_btypes = true.
Proof. vm_compute. reflexivity. Qed.
"""
        ok, out = sbx_src_tie.checked_obligation(ctx, "SbxGenC19", v, 4)
        if ok:
            ctx.trusted.append("immutable_blocks_mutators (regenerated): " + " ".join(out.split()))
    try:
        ff = sbx_filters_scan.scan(lib.SRC)
    except (sbx_filters_scan.TranslatorError, SyntaxError) as e:
        ctx.obligations += 1
        ctx.obligation_names.append("SbxGenC19Filters (regenerated, 1)")
        ctx.broken.append(f"T3 translator gen/sbx_filters_scan.py does not recognise filters.py: {e}")
        return facts, None
    v = f"""(* regenerated from {lib.SRC}/jinja2/filters.py by gen/sbx_filters_scan.py *)
From Coq Require Import List Bool String.
Import ListNotations.
From JV Require Import Proofs.SbxMutableProofs.
Open Scope string_scope.

{sbx_filters_scan.to_coq(ff)}

(* no function of filters.py stores into / augments / calls a mutator on anything aliasing one
   of its parameters *)
Theorem filters_do_not_mutate_args : forall f sites, In (f, sites) gen_filter_writes -> sites = [].
Proof. apply filters_clean_sound. vm_compute. reflexivity. Qed.
Print Assumptions filters_do_not_mutate_args.
"""
    sbx_src_tie.checked_obligation(ctx, "SbxGenC19Filters", v, 1)
    ctx.extra["filters_scanned"] = len(ff)
    flagged = [(q, s) for q, s in ff if s]
    if flagged:
        ctx.extra["filter_write_sites"] = flagged
    return facts, flagged


def model_setup_lines(facts):
    u = facts["unsafe"]
    tl = "tables " + " ".join(",".join(hexname(n) for n in u[f]) or "-" for f in
                              ("t_function", "t_method", "t_generator", "t_coroutine", "t_asyncgen"))
    rows = ";".join(("".join(LETTER[c] for c in r["inst"]) or "-") + ":" + (",".join(hexname(n) for n in r["attrs"]) or "-")
                    for r in facts["rows"]) or "-"
    return [tl, "spec " + rows]


def parse_bits(line):
    return {k: v == "1" for k, v in (p.split("=") for p in line.split())}


# ------------------------------------------------------------------ S-validate
def observe_methods(public):
    """call every public name on fresh containers with every argument tuple; returns
    observed[(T, m)] = (mutated_any, [indices of accepted argument tuples (mutating first)])"""
    observed = {}
    for T, names in public.items():
        # ... and the operator / protocol methods (dunder names), reachable as stored method-wrapper references
        for m in list(names) + [d for d in DUNDER_MUTATORS if hasattr(PY_OF[T], d)]:
            mutated = []
            accepted = []
            for ai, args in enumerate(ARGS):
                for variant in (0, 1):
                    c = fresh(T, variant)
                    before = canon(c)
                    try:
                        f = getattr(c, m)
                        if not callable(f):
                            continue
                        f(*copy.deepcopy(args))
                    except Exception:
                        continue
                    if canon(c) != before:
                        mutated.append((ai, variant))
                    else:
                        accepted.append((ai, variant))
            observed[(T, m)] = (bool(mutated), (mutated + accepted))
    return observed


# ------------------------------------------------------------------ K-render
PATHS = {
    "dot": "{{ c.%(m)s(%(a)s) }}",
    "subscript": "{{ c['%(m)s'](%(a)s) }}",
    "set-alias": "{%% set f = c.%(m)s %%}{{ f(%(a)s) }}",
    "with-alias": "{%% with f = c.%(m)s %%}{{ f(%(a)s) }}{%% endwith %%}",
    "attr-filter": "{{ (c|attr('%(m)s'))(%(a)s) }}",
    "map-attribute": "{%% for f in [c]|map(attribute='%(m)s') %%}{{ f(%(a)s) }}{%% endfor %%}",
    "map-attr-filter": "{{ ([c]|map('attr', '%(m)s')|first)(%(a)s) }}",
    "nested-dot": "{{ o.inner.%(m)s(%(a)s) }}",
    "nested-subscript": "{{ o['inner']['%(m)s'](%(a)s) }}",
    "box-attr": "{{ b.inner.%(m)s(%(a)s) }}",
    "macro-arg": "{%% macro call(f) %%}{{ f(%(a)s) }}{%% endmacro %%}{{ call(c.%(m)s) }}",
    "loop-var": "{%% for f in [c.%(m)s] %%}{{ f(%(a)s) }}{%% endfor %%}",
    "dict-value": "{%% set d = {'f': c.%(m)s} %%}{{ d.f(%(a)s) }}",
    "call-block": "{%% macro w() %%}{{ caller() }}{%% endmacro %%}{%% call w() %%}{{ c.%(m)s(%(a)s) }}{%% endcall %%}",
    "do-statement": "{%% do c.%(m)s(%(a)s) %%}",
    # the method NAME comes from the data as an instance of a str subclass that lies about startswith / == / hash
    "attr-filter-lying-name": "{{ (c|attr(nm0))(%(a)s) }}",
    "attr-filter-lying-eq-name": "{{ (c|attr(nm1))(%(a)s) }}",
    "subscript-lying-eq-name": "{{ c[nm1](%(a)s) }}",
    "map-attr-lying-name": "{%% for f in [c]|map('attr', nm1) %%}{{ f(%(a)s) }}{%% endfor %%}",
    # the hand-out itself, without calling: a defined value makes the template touch an undefined name
    "handout-defined": "{%% if c.%(m)s is defined %%}{{ missing_zz.handed_out() }}{%% endif %%}{%% set unused = [%(a)s] %%}",
    "handout-defined-item": "{%% if c['%(m)s'] is defined %%}{{ missing_zz.handed_out() }}{%% endif %%}{%% set unused = [%(a)s] %%}",
    # the container sits three levels down: object -> dict -> object -> container (and list -> dict -> container)
    "deep-dot": "{{ deep.data.inner.c.%(m)s(%(a)s) }}",
    "deep-subscript": "{{ deep['data']['inner']['c']['%(m)s'](%(a)s) }}",
    "deep-mixed": "{{ deep.data['inner'].c['%(m)s'](%(a)s) }}",
    "deep-list-dict": "{{ rows[1].cell.%(m)s(%(a)s) }}",
    "deep-loop": "{%% for r in rows %%}{%% for k, v in r.items() %%}{{ v.%(m)s(%(a)s) }}{%% endfor %%}{%% endfor %%}",
    "deep-map-dotted": "{%% for f in [deep]|map(attribute='data.inner.c.%(m)s') %%}{{ f(%(a)s) }}{%% endfor %%}",
    "deep-alias": "{%% set x = deep.data.inner %%}{%% set f = x.c.%(m)s %%}{{ f(%(a)s) }}",
    # a stored reference to the bound method supplied by the HOST as render data (hm = c.<m>), directly and in containers
    "host-ref": "{{ hm(%(a)s) }}",
    "host-ref-dict": "{{ hmd.f(%(a)s) }}",
    "host-ref-list": "{{ hml[0](%(a)s) }}",
    "host-ref-alias": "{%% set g = hm %%}{{ g(%(a)s) }}",
    "host-ref-loop": "{%% for g in hml %%}{{ g(%(a)s) }}{%% endfor %%}",
    "host-ref-macro": "{%% macro call(g) %%}{{ g(%(a)s) }}{%% endmacro %%}{{ call(hmd['f']) }}",
    # ... as the UNBOUND method (descriptor of the exact type), wrapped in functools.partial, or reached through the type
    "host-ref-unbound": "{{ hu(c%(ca)s) }}",
    "host-ref-unbound-dict": "{{ hud.f(c%(ca)s) }}",
    "host-ref-partial": "{{ hp(%(a)s) }}",
    "host-ref-partial-unbound": "{{ hpu(%(a)s) }}",
    "host-ref-partial-nested": "{{ hpp(%(a)s) }}",
    "host-type-attribute": "{{ Cls.%(m)s(c%(ca)s) }}",
    "host-type-attr-filter": "{{ (Cls|attr('%(m)s'))(c%(ca)s) }}",
}
# the async immutable sandbox runs every path in the thorough tier and this core set in the quick tier
ASYNC_QUICK_PATHS = ("host-ref-unbound", "host-ref-partial", "host-type-attribute", "attr-filter-lying-eq-name", "handout-defined", "dot", "subscript", "attr-filter", "map-attribute", "set-alias", "deep-dot", "deep-map-dotted", "host-ref",
                     "host-ref-dict", "format-attr", "format-deep")
HOST_REF_PATHS = ("host-ref", "host-ref-dict", "host-ref-list", "host-ref-alias", "host-ref-loop", "host-ref-macro",
                  "host-ref-unbound", "host-ref-unbound-dict", "host-ref-partial", "host-ref-partial-unbound", "host-ref-partial-nested",
                  "host-type-attribute", "host-type-attr-filter")
FORMAT_PATHS = {
    "format-deep": "{{ '{0.data[inner].c.%(m)s}'.format(deep) }}",
    "format-attr": "{{ '{0.%(m)s}'.format(c) }}{{ '{0.inner.%(m)s}'.format(o) }}",
    "format-map": "{{ '{x.%(m)s}'.format_map({'x': c}) }}",
    "format-item": "{{ '{0[%(m)s]}'.format(c) }}",
}


ENTRIES = ("render", "generate", "stream", "render_async", "make_module")
PLACES = ("context", "env-globals", "template-globals")


def render_case(envs, mode, src, data, entry="render", place="context"):
    """outcome in ok / SecurityError / other exception class name.
    entry: which public entry point evaluates the template (render, generate, stream, render_async driven by
    asyncio.run, make_module); place: how the data reaches the template (render arguments, environment.globals,
    the globals of from_string)"""
    import asyncio
    from jinja2.exceptions import SecurityError
    env = envs[mode]
    is_async = bool(getattr(env, "is_async", False))
    try:
        if place == "template-globals":
            # the data lives in the template's OWN globals mapping (the first map of the ChainMap make_globals builds;
            # since c1b86ab a copy of the dict given to from_string, before that the dict itself), refilled per case
            key = "tg:" + src
            t = envs["cache"][mode].get(key)
            if t is None:
                t = envs["cache"][mode][key] = env.from_string(src, globals={})
            own = t.globals.maps[0]
            own.clear()
            own.update(data)
            args = {}
        else:
            t = envs["cache"][mode].get(src)
            if t is None:
                t = env.from_string(src)
                envs["cache"][mode][src] = t
            args = data
            if place == "env-globals":
                env.globals.update(data)
                args = {}
        try:
            if entry == "generate" and not is_async:
                "".join(t.generate(**args))
            elif entry == "stream" and not is_async:
                st = t.stream(**args)
                st.enable_buffering(3)
                "".join(st)
            elif entry == "render_async" and is_async:
                asyncio.run(t.render_async(**args))
            elif entry == "make_module":
                if is_async:
                    asyncio.run(t.make_module_async(args))
                else:
                    str(t.make_module(args))
            else:
                t.render(**args)
        finally:
            if place == "env-globals":
                for k in data:
                    env.globals.pop(k, None)
        return "ok"
    except SecurityError:
        return "SecurityError"
    except Exception as e:  # noqa: BLE001 - any engine / data exception is just an outcome here
        return type(e).__name__
    except BaseException as e:  # noqa: BLE001
        return "Base:" + type(e).__name__


def method_data(T, variant, args, m=None):
    c = fresh(T, variant)
    inner = fresh(T, variant)
    binner = fresh(T, variant)
    data = {"c": c, "o": {"inner": inner}, "b": Box(inner=binner),
            "deep": Box(data={"inner": Box(c=fresh(T, variant))}),
            "rows": [{"cell": fresh(T, variant)}, {"cell": fresh(T, variant)}]}
    if m is not None:
        from . import sbx_objects as _ob
        data["nm0"], data["nm1"] = _ob.LyingStartswith(m), _ob.LyingEq(m)
    hm = getattr(c, m, None) if m is not None else None
    if callable(hm):
        import functools
        data.update({"hm": hm, "hmd": {"f": hm}, "hml": [hm]})
        hu = getattr(type(c), m, None)                       # the unbound method (a method descriptor of the exact type)
        if callable(hu):
            data.update({"hu": hu, "hud": {"f": hu}, "hp": functools.partial(hm), "hpu": functools.partial(hu, c),
                         "hpp": functools.partial(functools.partial(hu), c), "Cls": type(c)})
    for i, a in enumerate(copy.deepcopy(args)):
        data[f"a{i}"] = a
    return data


def make_envs():
    """immutable sandboxes (sync / async, autoescape off / on) and, in the SAME process, plain sandboxes that
    are used in between: what the immutable sandbox decides must not depend on what another environment looked
    up before (no verdict shared across environment classes)"""
    from jinja2.sandbox import ImmutableSandboxedEnvironment, SandboxedEnvironment
    ext = ["jinja2.ext.do", "jinja2.ext.loopcontrols"]
    envs = {"sync": ImmutableSandboxedEnvironment(extensions=ext), "async": ImmutableSandboxedEnvironment(enable_async=True, extensions=ext),
            "sync-ae": ImmutableSandboxedEnvironment(autoescape=True, extensions=ext),
            "async-ae": ImmutableSandboxedEnvironment(autoescape=True, enable_async=True, extensions=ext),
            "plain-sync": SandboxedEnvironment(extensions=ext), "plain-async": SandboxedEnvironment(enable_async=True, extensions=ext)}
    # configuration axes (sampled): an overlay of the immutable environment, the unoptimized compile, other delimiters
    envs["sync-overlay"] = envs["sync"].overlay(trim_blocks=True, lstrip_blocks=True)
    envs["async-overlay"] = envs["async"].overlay(trim_blocks=True)
    envs["sync-noopt"] = ImmutableSandboxedEnvironment(optimized=False, extensions=ext, line_statement_prefix="%%")
    envs["async-noopt"] = ImmutableSandboxedEnvironment(optimized=False, enable_async=True, extensions=ext)
    for k in ("overlay", "noopt"):
        envs["plain-sync-" + k] = envs["plain-sync"]
        envs["plain-async-" + k] = envs["plain-async"]
    envs["cache"] = {k: {} for k in envs}
    return envs


def judge_method_case(ctx, envs, case, model_safe, exists=True):
    T, m, ai, variant, path, mode = case["T"], case["m"], case["args"], case["variant"], case["path"], case["mode"]
    args = ARGS[ai]
    tmpl = {**PATHS, **FORMAT_PATHS}[path]
    arglist = ", ".join(f"a{i}" for i in range(len(args)))
    src = tmpl % {"m": m, "a": arglist, "ca": (", " + arglist) if arglist else ""}
    case["template"] = src
    # history: the same template is also rendered by a plain (mutable) sandbox of this process, before
    # ("plain-first") or between two immutable renders ("immutable-first"); every immutable render is judged
    order = case.get("order", "immutable-only")
    steps = {"plain-first": ["plain", "imm"], "immutable-first": ["imm", "plain", "imm"], "immutable-only": ["imm"]}[order]
    outcome = None
    for stepno, step in enumerate(steps):
        data = method_data(T, variant, args, m)
        cfg = mode + case.get("config", "")
        if step == "plain":
            render_case(envs, "plain-" + cfg, src, data)       # mutation is allowed here
            continue
        before = canon(data)
        outcome = render_case(envs, cfg, src, data, case.get("entry", "render"), case.get("place", "context"))
        case["outcome"] = outcome
        if canon(data) != before:
            case["step"] = stepno
            reject_once(ctx, case, f"{NAME[T]}.{m} reached through '{path}' in the {mode} immutable sandbox modified the "
                             f"context data ({outcome}; history {order}, step {stepno})", f"C19:method:{NAME[T]}.{m}")
            return False
        if path.startswith("handout-defined"):
            # "attempts yield an undefined value or raise SecurityError": a mutating method must not come out defined
            handed_out = outcome == "UndefinedError"
            if handed_out and case.get("mutates"):
                case["step"] = stepno
                reject_once(ctx, case, f"{NAME[T]}.{m} is handed out by the {mode} immutable sandbox as a defined value "
                                       f"(history {order}, step {stepno})", f"C19:handout:{NAME[T]}.{m}")
                return False
            if model_safe is not None and exists and handed_out != bool(model_safe) and T != "TDict":
                case["step"] = stepno
                ctx.model_mismatch("K-render immutable_handout (is defined)", case, "value" if model_safe else "undefined", outcome, None)
                return False
            continue
        if not (path in FORMAT_PATHS or model_safe is None) and (not model_safe) != (outcome == "SecurityError") and exists:
            case["step"] = stepno
            ctx.model_mismatch("K-render immutable_handout", case, "safe" if model_safe else "blocked", outcome, None)
            return False
    return True


# ------------------------------------------------------------------ K-filters
def filter_values():
    return {
        "l": [3, 1, 2], "ll": [[2], [3, 4]], "ld": [{"k": [1], "n": 2}, {"k": [5], "n": 1}],
        "d": {"a": 1, "b": [2]}, "s": {1, 2, 3}, "q": collections.deque([3, 1, 2]), "ql": collections.deque([[1], [2]]),
        "lb": [Box(k=[1], n=2), Box(k=[4], n=1)], "ls": ["b", "a"], "st": "ab cd", "n": 2,
        "nest": Box(data={"rows": [[3, 1], [2]], "by": {"k": [5, 4]}}),
        "lm": [Markup("<b>"), "x", 1, 1.0, True, None], "lt": [(2, [9]), (1, [8])], "dm": {Markup("k"): [1], 1: [2], True: [3]},
    }


def with_generators(data):
    """generators / iterators whose items ARE containers of the context (the filter receives a lazy iterable; what
    it does to the items is visible through the containers that stay in the data)"""
    data["gl"] = (x for x in data["ll"])
    data["gd"] = (x for x in data["ld"])
    data["gq"] = iter(data["ql"])
    data["gn"] = (x for x in data["nest"].data["rows"])
    data["gv"] = iter(data["d"].values())
    data["io"] = IterOnly(data["ll"])
    data["go"] = GetItemOnly(data["ll"])
    data["cm"] = collections.ChainMap(data["d"])          # a MutableMapping view whose first map IS the context dict
    return data


class IterOnly:
    """iterable only through __iter__; its items are containers of the context"""
    def __init__(self, items):
        self._items = items

    def __iter__(self):
        return iter(self._items)


class GetItemOnly:
    """iterable only through the old __getitem__ protocol"""
    def __init__(self, items):
        self._items = items

    def __getitem__(self, i):
        return self._items[i]


BASIC_EXPR = re.compile(r"^[\w.]+\|\w+(\(\))?$")
EXTRA_NAMES = set()

# statement-level templates (not expressible as one expression): namespaces built from context containers and then
# assigned to, rebinding of names that alias containers, loops that assign, blocks
STATEMENT_TEMPLATES = [
    # attribute-style assignment targets (NSRef) on things that are NOT namespaces, in both set forms, tuple targets,
    # loop bodies, macros: only a namespace() object may be written this way
    "{% set d.x = 1 %}", "{% set d.x %}foo{% endset %}", "{% set d.a %}{{ l|join }}{% endset %}",
    "{% set o = nest.data.by %}{% set o.k %}1{% endset %}", "{% set o = nest.data.by %}{% set o.k = 2 %}",
    "{% set d.x | upper %}foo{% endset %}", "{% set q.x %}1{% endset %}", "{% set nest.data %}gone{% endset %}",
    "{% set lb0 = lb[0] %}{% set lb0.k %}x{% endset %}", "{% set lb0 = lb[0] %}{% set lb0.k = [] %}",
    "{% set d.x, d.y = 1, 2 %}", "{% set a, d.x = 1, 2 %}",
    "{% for k in [1] %}{% set d.x %}{{ k }}{% endset %}{% endfor %}",
    "{% macro m(t) %}{% set t.x %}1{% endset %}{% endmacro %}{{ m(d) }}",
    "{% set ns = namespace() %}{% set ns.ok %}fine{% endset %}{% set ns.v = l %}{{ ns.ok }}",
    "{% set ns = namespace(d) %}{% set ns.z = 1 %}{{ ns.z }}",
    "{% set ns = namespace(d, extra=1) %}{{ ns.extra }}",
    "{% set ns = namespace(nest.data.by) %}{% set ns.k = 0 %}{% set ns.new = l %}",
    "{% set ns = namespace(**d) %}{% set ns.a = 5 %}{{ ns.a }}",
    "{% set ns = namespace(dm) %}{% set ns.x = 1 %}",
    "{% set ns = namespace(v=l) %}{% set ns.v = ns.v + [9] %}{{ ns.v|length }}",
    "{% set x = l %}{% set x = x + [1] %}{{ x|length }}",
    "{% for x in ll %}{% set x = 0 %}{% endfor %}{% for k, v in d.items() %}{% set v = 0 %}{% endfor %}",
    "{% with l = l, d = d %}{% set l = [] %}{% set d = {} %}{% endwith %}",
    "{% set d2 = dict(d) %}{% do d2.update(z=1) %}{{ d2|length }}",
    "{% set l2 = l|list %}{% do l2.append(1) %}{{ l2|length }}",
    "{% set l2 = l|list %}{{ l2|join(',') }}{{ (l|list)|join }}{{ l|list|join('-') }}",
    "{% set c = cycler(*l) %}{{ c.next() }}{% do c.reset() %}{% set j = joiner(', ') %}{{ j() }}{{ j() }}",
    "{% macro m(a=l, b=d) %}{% set a = [] %}{{ a }}{{ b|length }}{% endmacro %}{{ m() }}{{ m(ll[0]) }}",
    "{% for x in l|sort %}{{ loop.index }}{% endfor %}{% for x in l|reverse %}{{ x }}{% endfor %}{{ l }}",
    "{% filter upper %}{{ l|join(',') }}{{ d|dictsort }}{% endfilter %}",
    "{% set blk %}{{ ll|map('join', ',')|join(';') }}{% endset %}{{ blk }}",
    "{% for x in ll recursive %}{{ x|join(',') if x is iterable and x is not string else x }}{{ loop(x) if x is iterable and x is not string and x|length > 1 else '' }}{% endfor %}",
]


def filter_templates(ctx, filters):
    """yield (filter name, expression) pairs"""
    vals = ["l", "ll", "ld", "d", "s", "q", "ql", "lb", "ls", "gl", "gd", "gq", "gn", "nest.data.rows", "nest.data.by.k",
            "io", "go", "lm", "lt", "dm", "cm"]
    conts = ["l", "d", "s", "q", "ll"]
    subj = ctx.size(["ll", "ld", "st", "q", "gl", "nest.data.rows"],
                    ["l", "ll", "ld", "lb", "d", "s", "q", "st", "n", "gl", "gd", "gq", "gn", "nest.data.rows"])
    for name in sorted(filters):
        f = filters[name]
        for v in vals:
            yield name, f"{v}|{name}"
        try:
            params = list(inspect.signature(f).parameters.values())
        except (TypeError, ValueError):
            params = []
        params = [p for p in params if p.name not in ("context", "eval_ctx", "environment", "env")]
        params = params[1:]
        pos = 0
        for p in params:
            if p.kind in (p.VAR_POSITIONAL, p.VAR_KEYWORD):
                continue
            for v in subj:
                for c in conts:
                    yield name, f"{v}|{name}({p.name}={c})"
                    if pos == 0:
                        yield name, f"{v}|{name}({c})"
                    elif pos == 1:
                        yield name, f"{v}|{name}(1, {c})"
            pos += 1
    # attribute-taking and variadic filters
    # every built-in test with container subjects and container arguments
    from jinja2.tests import TESTS
    for tname in sorted(TESTS):
        for v in ("l", "d", "s", "q", "ll", "gl"):
            yield "test:" + tname, f"{v} is {tname}"
            for c in ("l", "d", "ll"):
                yield "test:" + tname, f"{v} is {tname}({c})"
    extra = [
        # global functions with container arguments, the ChainMap alias of the context dict, odd item kinds
        "dict(d)|length", "dict(d, z=l)|length", "namespace(v=l, w=d).v|length", "cycler(*ll).next()", "joiner(l)()", "range(n)|list",
        "cm.pop('a')", "cm.popitem()", "cm.clear()", "cm.setdefault('z', l)", "cm.update(d)", "cm.maps[0].clear()", "cm.maps[0].pop('a')",
        "cm.new_child().update(d)", "cm.parents.maps|length", "cm|dictsort", "cm|items|list", "cm|length",
        "io|map('sort')|list", "io|sum(start=l)", "go|map('reverse')|list", "go|list", "io|first", "lm|join(',')", "lm|join", "lm|sort",
        "lm|unique|list", "lm|map('string')|list", "lt|sort|list", "lt|map('last')|map('sort')|list", "dm|dictsort", "dm|items|list",
        "lt|dictsort" , "lm|max", "lm|reject('none')|list", "lt|batch(1)|list",
        "gl|map('sort')|list", "gl|map('reverse')|list", "gl|sum(start=l)", "gn|sum(start=l)", "gl|map('join')|list", "gl|first",
        "gl|map('first')|list", "gd|map(attribute='k')|map('sort')|list", "gd|sum(attribute='k', start=l)", "gd|sort(attribute='n')",
        "gd|groupby('n')|list", "gq|map('list')|list", "gq|sum(start=l)", "gv|list", "gl|batch(1)|list", "gl|slice(2)|list",
        "gl|unique|list", "gl|join(',')", "gn|map('join', '-')|list", "nest.data.rows|map('sort')|list", "nest.data.rows|sum(start=nest.data.by.k)",
        "nest.data.by|dictsort", "nest.data.by.k|sort", "nest.data.rows|map('reverse')|map('list')|list", "gl|map('attr', 'append')|list",
        "ld|map(attribute='k')", "ld|map(attribute='k', default=l)", "ld|map('first')", "ll|map('sum', start=l)",
        "ld|sum(attribute='k', start=l)", "ll|sum(start=l)", "ql|sum(start=l)", "ld|sum('k', l)", "lb|sum(attribute='k', start=l)",
        "ld|sort(attribute='n')", "lb|sort(attribute='n')", "ld|groupby('n')", "ld|groupby('n', default=l)",
        "ld|selectattr('n')", "ld|rejectattr('n')", "ld|selectattr('k', 'eq', l)", "ll|select('eq', l)", "ll|reject('in', ll)",
        "ld|unique(attribute='n')", "ld|min(attribute='n')", "ld|max(attribute='n')", "ld|join(',', attribute='k')",
        "ll|map('list')", "ll|map('reverse')", "ll|map('sort')", "ld|map('dictsort')", "ll|map('batch', 1)", "ll|map('first')",
        "d|dictsort", "d|items", "d|xmlattr", "d|tojson", "d|urlencode", "l|batch(2, l)", "l|slice(2, l)", "ll|first", "ll|last",
        "l|default(l)", "none|default(l)", "missing_name|default(d)", "l|replace(1, l)", "l|attr('append')", "d|attr('update')",
        "ld|map(attribute='k')|map('sum', start=l)", "ll|map('attr', 'append')",
    ]
    for e in extra:
        EXTRA_NAMES.add(e.split("|")[1].split("(")[0] if "|" in e else "expr:" + e.split("(")[0].split(".")[0])
        yield (e.split("|")[1].split("(")[0] if "|" in e else "expr:" + e.split("(")[0].split(".")[0]), e


def judge_filter_case(ctx, envs, case):
    expr, form, mode = case["expr"], case["form"], case["mode"]
    src = "{{ %s }}" % expr if form == "print" else "{{ (%s)|list|string|length }}" % expr
    case["template"] = src
    data = with_generators(filter_values())
    before = canon(data)
    outcome = render_case(envs, mode, src, data)
    case["outcome"] = outcome
    if canon(data) != before:
        reject_once(ctx, case, f"filter expression {expr!r} ({form}, {mode} immutable sandbox) modified the context data",
                   f"C19:filter:{case['filter']}:{mode}")
        return False
    return True


# ------------------------------------------------------------------ the check
def run(ctx):
    lib.use_repo_jinja()
    ctx.extra["rule"] = RULE
    ctx.assumptions += [
        "public method names and isinstance facts are those of the running interpreter (dumped into the regenerated Coq file)",
        "Spec/SbxMutators.mutates is the documented mutation behaviour of the four builtin types (validated by calling every public method on fresh containers)",
        "an attribute handed out as the SecurityError-undefined cannot be used to reach the bound method (Undefined has no public attributes)",
        "filters_do_not_mutate_args is as strong as the alias analysis of gen/sbx_filters_scan.py (values passed through calls are treated as fresh); the deep-compare run is the behavioural check",
    ]
    import time as _time
    _t0 = _time.time()
    timing = ctx.extra.setdefault("timing_s", {})

    def lap(name):
        nonlocal _t0
        timing[name] = round(_time.time() - _t0, 1)
        _t0 = _time.time()
    # T5: the current source of modifies_known_mutable, is_internal_attribute and both
    # is_safe_attribute methods, interpreted in Coq, equals the model functions for every argument.
    # coqc compiles the regenerated files in worker threads while the proof re-check and the streams run;
    # every obligation is compiled on every run and joined (and judged) at the end of run()
    finish_equations = sbx_src_tie.start_source_equations(ctx, ("mkm", "imm", "immcall"))
    # regenerated compiler facts: routing table and "assignment targets are namespace-guarded" (both set forms)
    finish_routes = sbx_src_tie.start_routing_table(ctx)
    lap("translate_source")
    ctx.proof("C19")
    lap("proof")
    facts, flagged = regenerate(ctx)
    lap("regenerated_tables")
    from jinja2 import sandbox as sb
    envs = make_envs()

    # interpreter facts are needed even when the translator failed: fall back to the live table
    if facts is None:
        public = {c: [n for n in dir(PY_OF[c]) if not n.startswith("_")] for c in PY_OF}
        setup = None
    else:
        public = facts["public"]
        setup = model_setup_lines(facts)

    # ---- S-validate + K-policy
    observed = observe_methods(public)
    rnd = ["".join(ctx.rng.choice("abcdefgh_") for _ in range(ctx.rng.randint(1, 6))) for _ in range(ctx.size(40, 400))]
    queries = []
    for T in public:
        for m in list(public[T]) + DUNDER_MUTATORS + ["_private", "__class__", "nosuch", ""] + rnd:
            queries.append((T, m))
    model = {}
    if setup is not None:
        out = ctx.driver("sbx", setup + [f"mut {LETTER[T]} {hexname(m)}" for T, m in queries])[2:]
        imm = envs["sync"]
        for (T, m), ln in zip(queries, out):
            bits = parse_bits(ln)
            model[(T, m)] = bits
            obj = fresh(T)
            try:
                real_mkm = bool(sb.modifies_known_mutable(obj, m))
                real_safe = bool(imm.is_safe_attribute(obj, m, getattr(obj, m, None)))
            except Exception as e:  # noqa: BLE001
                real_mkm = real_safe = "exc:" + type(e).__name__
            ctx.case(key=("policy", T, m) if bits["spec"] else None)
            ctx.count("policy_query")
            if (bits["mkm"], bits["safe"]) != (real_mkm, real_safe):
                of = None
                if (T, m) in observed and observed[(T, m)][0] and real_safe is True:
                    of = f"{NAME[T]}.{m} mutates and is_safe_attribute allows it"
                ctx.model_mismatch("K-policy modifies_known_mutable/is_safe_attribute", {"kind": "policy", "T": T, "m": m},
                                   f"mkm={bits['mkm']} safe={bits['safe']}", f"mkm={real_mkm} safe={real_safe}", of,
                                   f"C19:method:{NAME[T]}.{m}")
            else:
                ctx.validated()
            if (T, m) in observed:
                ctx.case(key=("spec", T, m) if observed[(T, m)][0] else None)
                ctx.count("spec_validate")
                if observed[(T, m)][0] != bits["spec"]:
                    ctx.model_mismatch("S-validate Spec/SbxMutators.mutates vs running interpreter",
                                       {"kind": "spec", "T": T, "m": m}, f"mutates={bits['spec']}",
                                       f"observed={observed[(T, m)][0]}", None)
                else:
                    ctx.validated()

    lap("policy_and_spec")
    # ---- K-render: every public name (+ dunder mutators) along every path, sync and async
    per_method = ctx.size(2, 6)
    for T in public:
        for m in list(public[T]) + DUNDER_MUTATORS:
            trials = observed.get((T, m), (False, []))[1][:per_method] or [(0, 0)]
            if m in DUNDER_MUTATORS and not observed.get((T, m), (False, []))[1]:
                trials = [(8, 0), (3, 0)]
            bits = model.get((T, m))
            for idx, ((ai, variant), path, mode) in enumerate(itertools.product(trials, list(PATHS) + list(FORMAT_PATHS), ("sync", "async"))):
                case = {"kind": "method", "T": T, "m": m, "args": ai, "variant": variant, "path": path, "mode": mode,
                        "order": "plain-first" if idx % 2 == 0 else "immutable-first", "mutates": bool(bits and bits["spec"]),
                        # sampled axes: entry point, where the data lives, environment configuration
                        "entry": ENTRIES[(idx // 2) % len(ENTRIES)], "place": PLACES[(idx // 3) % len(PLACES)],
                        "config": ("", "", "", "-overlay", "-noopt")[(idx // 5) % 5]}
                nontriv = bool(bits and bits["spec"]) or (T, m) in observed and observed[(T, m)][0]
                if ctx.tier != "thorough" and mode == "async" and path not in ASYNC_QUICK_PATHS:
                    continue
                if ctx.tier != "thorough" and (ai, variant) != trials[0] and path not in ASYNC_QUICK_PATHS:
                    continue      # quick tier: the second argument tuple only along the core paths
                if path in HOST_REF_PATHS and not callable(getattr(PY_OF[T], m, None)):
                    continue      # host-supplied references: the public methods and the operator methods (method-wrappers) of the four types
                # a host-supplied bound method never passes through attribute access: the immutable call gate
                # decides, by modifies_known_mutable(method.__self__, method.__name__)
                predicted = (not bits["mkm"] if path in HOST_REF_PATHS else bits["safe"]) if bits else None
                if path.startswith("host-type-") and m.startswith("_") and bits:
                    predicted = False     # Cls.__name__ written in the template: the attribute access itself is refused (underscore name)
                if "lying" in path:
                    predicted = None      # a lying name may also simply not be found (plain undefined): judged by the oracle only
                ok = judge_method_case(ctx, envs, case, predicted,
                                       exists=hasattr(PY_OF[T], m) and callable(getattr(PY_OF[T], m, None)))
                ctx.case(sample=case if nontriv and path == "map-attribute" else None,
                         key=("m", T, m, ai, variant, path, mode) if nontriv else None)
                ctx.count("render_" + ("format" if path in FORMAT_PATHS else "call") + "_" + mode)
                ctx.count("history_" + case["order"])
                ctx.count("entry_" + case["entry"])
                ctx.count("place_" + case["place"])
                ctx.count("config" + (case["config"] or "-default"))
                if ok:
                    ctx.validated()

    lap("method_stream")
    # ---- K-filters
    from jinja2.filters import FILTERS
    seen = set()
    exprs = []
    for name, expr in filter_templates(ctx, dict(FILTERS)):
        if expr not in seen:
            seen.add(expr)
            exprs.append((name, expr))
    for eidx, (name, expr) in enumerate(exprs):
        for form, mode in itertools.product(("print", "list"), ("sync", "async", "sync-ae", "async-ae")):
            if ctx.tier != "thorough":
                # quick tier: printed form, sync and async for every expression; the |list form and the autoescape
                # environments for every third expression (all combinations in the thorough tier)
                if mode.endswith("-ae") and form == "list":
                    continue
                basic = bool(BASIC_EXPR.match(expr)) or name in EXTRA_NAMES
                if form == "list" and eidx % 4 != 0:
                    continue
                if mode.endswith("-ae") and not basic and eidx % 4 != 0:
                    continue      # autoescape: always for `value|filter` and the hand-written expressions
            case = {"kind": "filter", "filter": name, "expr": expr, "form": form, "mode": mode}
            ok = judge_filter_case(ctx, envs, case)
            good = case["outcome"] == "ok"
            ctx.case(sample=case if good and "=" in expr and len(ctx.samples) < 6 else None,
                     key=("f", expr, form, mode) if good else None)
            ctx.count("filter_" + mode + ("_ok" if good else "_error"))
            if ok:
                ctx.validated()
    # ---- statement-level templates, every immutable environment incl. autoescape
    for src, mode in itertools.product(STATEMENT_TEMPLATES, ("sync", "async", "sync-ae", "async-ae")):
        case = {"kind": "statements", "template": src, "mode": mode}
        data = with_generators(filter_values())
        before = canon(data)
        outcome = render_case(envs, mode, src, data)
        case["outcome"] = outcome
        ctx.case(sample=case if "namespace(d)" in src and mode == "sync" else None, key=("stmt", src, mode))
        ctx.count("statement_templates")
        if canon(data) != before:
            reject_once(ctx, case, f"the template {src!r} ({mode} immutable sandbox) modified the context data", f"C19:statements:{src[:40]}")
        else:
            ctx.validated()
        if mode == "sync":
            # generated code: every subscript STORE on a template value is preceded by the "is a Namespace" guard
            from . import sbx_codegen
            try:
                problems = sbx_codegen.unguarded_stores(envs[mode].compile(src, raw=True))
            except Exception:  # noqa: BLE001 - not a template: nothing to scan
                problems = []
            ctx.case()
            ctx.count("statement_store_scan")
            if problems:
                reject_once(ctx, dict(case, problems=problems[:3]), f"the code generated for {src!r} stores into a template value without "
                                                                    f"the namespace guard: {problems[0]}", "C19:codegen:unguarded-store")
            else:
                ctx.validated()
    lap("filter_stream")
    ctx.extra["filters_exercised"] = len({n for n, _ in exprs})
    ctx.extra["filter_expressions"] = len(exprs)
    finish_equations()
    finish_routes()
    lap("wait_for_source_equations_and_routes")


def replay(ctx, data):
    lib.use_repo_jinja()
    case = data.get("case")
    if data.get("kind") != "failing-input" or case is None:
        print("replay: names a broken theorem/correspondence:", data.get("broken"))
        return run(ctx)
    envs = make_envs()
    if case.get("kind") == "method":
        judge_method_case(ctx, envs, {k: v for k, v in case.items() if k not in ("outcome", "template", "step")}, None)
    elif case.get("kind") == "statements":
        data = with_generators(filter_values())
        before = canon(data)
        render_case(envs, case["mode"], case["template"], data)
        if canon(data) != before:
            ctx.reject(case, "the template modified the context data", None)
    elif case.get("kind") == "filter":
        judge_filter_case(ctx, envs, dict(case))
    elif case.get("kind") == "policy":
        from jinja2 import sandbox as sb
        obj = fresh(case["T"])
        m = case["m"]
        safe = envs["sync"].is_safe_attribute(obj, m, getattr(obj, m, None))
        obs = observe_methods({case["T"]: [m]})[(case["T"], m)][0]
        print(f"is_safe_attribute({NAME[case['T']]}(), {m!r}) = {safe}; observed to mutate = {obs}; "
              f"modifies_known_mutable = {sb.modifies_known_mutable(obj, m)}")
        if safe and obs:
            ctx.reject(case, f"{NAME[case['T']]}.{m} mutates and is_safe_attribute allows it", None)
    else:
        print("replay: unknown case kind", case.get("kind"))
        return run(ctx)
    print("replayed:", {k: case.get(k) for k in ("template", "expr", "mode")}, "->", "rejected" if ctx.violations else "accepted")
