"""C08 — compile-time constant folding never changes what a template renders.

proof : Properties/C08.v (as_const_sound, optimize_preserves, optimized_equals_unoptimized,
        output_const_sound, volatile_nothing_folded, lift_constant, folded_equals_lifted)
ties  : K-fold  extracted as_const == node.as_const(EvalContext) (value / Impossible) per node kind
        K-gen   printed gen_opt / constant output == Environment.compile('{{ e }}', raw=True), also
                inside {% autoescape y %} (volatile frames)
        K-eval  extracted render_child == Template.render
oracle: on the REAL engine render(optimized=True) == render(optimized=False) == render(every literal
        lifted into a context variable) == render(one closed subexpression lifted, holding its run-time
        value), in static autoescape on/off and in {% autoescape y %} with y decided at run time.
"""
import random

from . import lib
from . import expr_common as X

RULE = ("constant-rich type-directed expression trees (literals, arithmetic, ~, comparisons, filters and tests on "
        "constants, |safe constants, conditional expressions, subscripts and slices of literals; depth <= 4 quick / 5 "
        "thorough), each rendered as {{ e }} under static autoescape off / on, inside {% autoescape y %} with y true / "
        "false at run time (both environment defaults), and in async and sandboxed environments; variants: "
        "optimized=False, all literals lifted into variables, one closed subexpression lifted. distinct = (source, "
        "mode); non-trivial = the model folds something (constant output or a folded subexpression) and the expression "
        "has >= 3 node kinds. Oracle-only template stream (outside the Coq model): float constants reaching inf/nan, "
        "constants that fail to fold inside dead branches (unhashable dict keys, division by zero ...), sameas on equal "
        "constants, environments with a finalize function x autoescape; distinct = template.")

# (environment mode, env autoescape, volatile, run-time autoescape, static {% autoescape %} block value or None)
CONFIGS = [("default", False, False, None, None), ("default", True, False, None, None),
           ("default", False, True, True, None), ("default", False, True, False, None),
           ("default", True, True, False, None), ("default", True, True, True, None),
           ("async", True, False, None, None), ("sandbox", True, False, None, None), ("noopt", True, False, None, None),
           # the escaping mode at the expression differs from the environment default
           ("default", False, False, None, True), ("default", True, False, None, False),
           ("noopt", False, False, None, True), ("async", True, False, None, False)]


def eff_ae(cfgt):
    return cfgt[1] if cfgt[4] is None else cfgt[4]


def wrap(src, vol, blk=None):
    t = "{{ " + src + " }}"
    if blk is not None:
        return "{% autoescape " + ("true" if blk else "false") + " %}" + t + "{% endautoescape %}"
    return "{% autoescape yy %}" + t + "{% endautoescape %}" if vol else t


def lift_leaves(e, acc):
    """replace every literal by a fresh variable (values collected in acc)"""
    if not isinstance(e, tuple):
        return e
    t = e[0]
    if t == "C":
        name = "k%d" % len(acc)
        acc[name] = e[1]
        return ("N", name)
    if t == "N":
        return e
    out = [t]
    for x in e[1:]:
        if isinstance(x, tuple) and x and isinstance(x[0], str) and x[0] in X.ALL_TAGS:
            out.append(lift_leaves(x, acc))
        elif isinstance(x, list):
            out.append([tuple(lift_leaves(z, acc) if isinstance(z, tuple) and z and isinstance(z[0], str) and z[0] in X.ALL_TAGS else z
                              for z in y) if isinstance(y, tuple) and not (y and isinstance(y[0], str) and y[0] in X.ALL_TAGS)
                        else lift_leaves(y, acc) for y in x])
        else:
            out.append(x)
    return tuple(out)


def subexprs(e, path=()):
    """(path, node) for every expression node"""
    out = [(path, e)]
    for i, x in enumerate(e[1:], 1):
        if isinstance(x, tuple) and x and isinstance(x[0], str) and x[0] in X.ALL_TAGS:
            out += subexprs(x, path + (i,))
        elif isinstance(x, list):
            for j, y in enumerate(x):
                if isinstance(y, tuple) and y and isinstance(y[0], str) and y[0] in X.ALL_TAGS:
                    out += subexprs(y, path + (i, j))
                elif isinstance(y, tuple):
                    for k, z in enumerate(y):
                        if isinstance(z, tuple) and z and isinstance(z[0], str) and z[0] in X.ALL_TAGS:
                            out += subexprs(z, path + (i, j, k))
    return out


def replace_at(e, path, new):
    if not path:
        return new
    i = path[0]
    x = e[i]
    if isinstance(x, list):
        j = path[1]
        y = x[j]
        if isinstance(y, tuple) and y and isinstance(y[0], str) and y[0] in X.ALL_TAGS:
            ny = replace_at(y, path[2:], new)
        else:
            k = path[2]
            ny = y[:k] + (replace_at(y[k], path[3:], new),) + y[k + 1:]
        nx = x[:j] + [ny] + x[j + 1:]
    else:
        nx = replace_at(x, path[1:], new)
    return e[:i] + (nx,) + e[i + 1:]


def is_closed(e):
    r = repr(e)
    return "('N'," not in r and "('call'," not in r


def render_variants(e, cfgt, data, rng):
    """the renders the property says must agree; returns list of (label, result)"""
    mode, ae, vol, y, blk = cfgt
    src = X.to_src(e)
    d = dict(data, yy=y)
    out = []
    env = X.real_env(mode, ae)
    out.append(("optimized" if mode != "noopt" else "unoptimized", X.real_render(env, wrap(src, vol, blk), d)))
    if mode == "default":
        out.append(("unoptimized", X.real_render(X.real_env("noopt", ae), wrap(src, vol, blk), d)))
    acc = {}
    le = lift_leaves(e, acc)
    if acc:
        out.append(("literals-lifted", X.real_render(env, wrap(X.to_src(le), vol, blk), dict(d, **acc))))
    if not vol:
        cands = [(p, n) for p, n in subexprs(e) if n[0] not in ("C", "N") and is_closed(n)]
        if cands:
            p, n = rng.choice(cands)
            try:
                val = X.real_env("noopt", eff_ae(cfgt)).compile_expression(X.to_src(n), undefined_to_none=False)()
                ok = True
            except Exception:
                ok = False
            from jinja2 import Undefined
            if ok and not isinstance(val, Undefined):
                l2 = replace_at(e, p, ("N", "kk"))
                out.append(("subexpression-lifted:" + X.to_src(n), X.real_render(env, wrap(X.to_src(l2), vol, blk), dict(d, kk=val))))
    return out


def classify(e, cfgt, label):
    """a specific signature for a disagreement (used to match known findings)"""
    mode, ae, vol, y, blk = cfgt
    ks = X.kinds(e)
    if blk is not None:
        return "C08:static-autoescape-block:" + X.to_src(e)
    if vol:
        return "C08:volatile-constant-output"
    if "sl" in ks and label.startswith("subexpression-lifted") or "sl" in ks and "literals" in label:
        return "C08:constant-slice"
    if "~" in ks and ae:
        return "C08:concat-safe-operand-autoescape"
    return "C08:" + X.to_src(e)


def real_as_const(env, src, ae, vol):
    from jinja2 import nodes
    try:
        node = env.parse("{{ " + src + " }}").body[0].nodes[0]
    except Exception as ex:
        return "E:" + X.err_class(ex)
    ctx = nodes.EvalContext(env)
    ctx.autoescape = ae
    ctx.volatile = vol
    try:
        v = node.as_const(ctx)
    except nodes.Impossible:
        return "I"
    except Exception as ex:
        return "X:" + type(ex).__name__
    return ("K", X.canon_real(v))


def one_case(ctx, e, ds, cfgt, outs, where):
    mode, ae, vol, y, blk = cfgt
    ev, gen, fold = outs
    src = X.to_src(e)
    tsrc = wrap(src, vol, blk)
    case = {"kind": "fold", "expr": src, "mode": mode, "ae": ae, "vol": vol, "y": y, "blk": blk, "data_seed": ds, "tree": repr(e)}
    f = X.split_fields(ev)
    log = []
    data = X.make_data(random.Random(ds), log)
    env = X.real_env(mode, ae)
    opaque_any = (not fold.endswith("O 0")) or "(F " in fold   # float constants print through repr(float): outside the model
    folded = gen.startswith("C ") or (fold.startswith("K"))
    ks = X.kinds(e)
    ctx.case(sample={"template": tsrc, "autoescape": ae, "model_output": gen[:120]} if folded and len(src) > 25 else None,
             key=(src, mode, ae, vol, y, blk) if folded and len(ks) >= 3 else None)
    ctx.count(f"{mode}_ae{int(ae)}_vol{int(vol)}" + ("" if blk is None else f"_block{int(blk)}") + ("_opaque" if opaque_any else ""))
    ok = True
    # ---- oracle on the real engine: all variants agree
    vs = render_variants(e, cfgt, data, ctx.rng)
    base = vs[0]
    for label, r in vs[1:]:
        if r != base[1]:
            ok = False
            ctx.reject(dict(case, variant=label, base=repr(base), other=repr(r)),
                       f"render({base[0]}) = {base[1]!r} but render({label}) = {r!r}", classify(e, cfgt, label))
    if opaque_any:
        return
    # ---- K-fold
    if mode != "noopt":
        m = ("K", X.canon_model(X.parse_sx(fold.split(" | ")[0][2:])[0])) if fold.startswith("K") else fold.split(" | ")[0]
        r = real_as_const(env, src, eff_ae(cfgt), vol)
        if r != m:
            ok = False
            ctx.model_mismatch("K-fold as_const", dict(case, kind="as_const"), repr(m)[:300], repr(r)[:300], None)
    # ---- K-gen
    unprintable = fold.startswith("K") and gen.startswith("X ") and not vol
    if unprintable:
        # the model knows the constant but cannot print it (repr of strings with quotes, floats ...): its
        # output_child falls back to run-time code by construction; K-gen is outside the model here
        ctx.count("constant_text_opaque")
    else:
        real_code = X.real_output_code(env, tsrc)
        if gen.startswith("C "):
            m = ("C", X.canon_text("ok " + gen[2:])[1])
        else:
            try:
                m = ("X", X.norm_py(gen[2:]))
            except SyntaxError as ex:
                m = ("E", "model text does not parse: " + str(ex))
        if real_code != m:
            ok = False
            ctx.model_mismatch("K-gen output code", dict(case, kind="gen"), repr(m)[:500], repr(real_code)[:500], None)
    # ---- K-eval: rendered text
    r = X.canon_text(f["R"])
    if r != ("err", "opaque"):
        if base[1] != r:
            ok = False
            ctx.model_mismatch("K-eval render", dict(case, kind="render"), repr(r), repr(base[1]), None)
    if ok:
        ctx.validated()


def build_lines(e, ds, cfgt):
    mode, ae, vol, y, blk = cfgt
    cfg = X.model_cfg(mode, ae=eff_ae(cfgt), vol=vol, rtae=bool(y))
    sx = X.enc_expr(e)
    data = X.make_data(random.Random(ds), [])
    return [f"eval {cfg} {sx} {X.enc_env(data)}", f"gen {cfg} {sx}", f"fold {cfg} {sx}"]


SENS = ("~", [("C", "<a>"), ("F", ("C", "<b>"), "safe", [])])      # an autoescape-sensitive constant
FIXED = [
    ("B", "pow", ("U", "neg", ("C", 1)), ("N", "i0")), ("B", "pow", ("B", "sub", ("C", 0), ("C", 2)), ("N", "i1")),
    ("sl", ("U", "neg", ("C", 1)), ("C", 1), None, None), ("[]", ("U", "neg", ("C", 3)), ("N", "i0")),
    ("F", ("C", ""), "default", [SENS, ("C", True)]), ("F", ("L", [("C", "x"), ("C", "y")]), "join", [SENS]),
    ("is", ("C", "<a><b>"), "eq", [SENS]), ("F", ("N", "u0"), "default", [("F", ("L", [("C", "<"), ("F", ("C", ">"), "safe", [])]), "join", [])]),
    ("is", SENS, "in", [("L", [SENS, ("C", 1)])]), ("call", ("N", "f1"), [SENS], [("p", SENS)]),
    ("~", [("F", ("C", "<b>"), "safe", []), ("C", "<i>")]),
    ("~", [("C", "<"), ("C", "b")]), ("C", "<"), ("B", "add", ("C", "<"), ("C", "b")),
    ("?", ("C", True), ("C", "<"), ("C", 1)), ("sl", ("C", 5), ("C", 1), ("C", 2), None),
    ("is", ("sl", ("C", 5), ("C", 1), ("C", 2), None), "defined", []), ("sl", ("D", [(("C", "a"), ("C", 1))]), ("C", 1), None, None),
    ("sl", ("C", "abcd"), ("C", 1), None, ("C", 0)), ("F", ("L", [("C", "<a>"), ("F", ("C", "<b>"), "safe", [])]), "join", [("C", "<,>")]),
    ("F", ("C", "<x>"), "upper", []), ("F", ("F", ("C", "<x>"), "escape", []), "lower", []), ("B", "mul", ("F", ("C", "<"), "safe", []), ("C", 2)),
    ("B", "add", ("F", ("C", "<"), "safe", []), ("C", ">")), ("[]", ("L", [("C", 1), ("C", 2)]), ("C", 5)), (".", ("D", [(("C", "a"), ("C", 1))]), "a"),
    ("cmp", ("C", 1), [("gt", ("C", 2)), ("lt", ("N", "u0"))]), ("&", ("C", False), ("N", "u0")), ("|", ("C", 1), ("call", ("N", "f0"), [], [])),
    ("B", "div", ("C", 1), ("C", 0)), ("B", "mod", ("C", 7), ("C", 0)), ("B", "pow", ("C", 2), ("C", 3)), ("?", ("C", False), ("C", 1), None),
    ("is", ("?", ("C", False), ("C", 1), None), "defined", []), ("F", ("T", [("C", "a"), ("C", "<")]), "list", []), ("F", ("C", "ab"), "length", []),
]


# ---------------------------------------------------------------- oracle-only template stream
# classes outside the Coq model (floats, identity tests, finalize, dead branches): checked on the
# real engine only, same metamorphic oracle
FLOATS = ["1e308", "10", "1e400", "2.5", "0.0", "1e308 * 10", "-1e308 * 10"]
DEAD = ['{[1]: 2}|length', '{[1]: 2}', '1 / 0', '[1][5].x', '"a" + 1', '{{}: 1}', '(1, [2]) in {3: 4}', '{"a": 1}[[1]]', '1 % 0']
SAME = ["1000", '"abc"', "1.5", "(1, 2)", "true", "none", "1", '""', "10 ** 3"]


def template_stream(ctx):
    """(signature, [(label, env_kwargs, template, data)..]) groups whose renders must all agree"""
    import itertools
    out = []
    for a, b in itertools.product(FLOATS, FLOATS):
        for op in ("*", "-", "+"):
            e = f"{a} {op} {b}"
            for form, lform in (("{{ %s }}", "{{ ka %s kb }}"), ("{%% set x = %s %%}{{ x }}", "{%% set x = ka %s kb %%}{{ x }}"),
                                ("{{ (%s) - (%s) }}", None), ("{{ [%s, 1] }}", None), ("{{ ([%s] + [1])|length }}", None)):
                t = form % ((e,) * form.count("%s"))
                grp = [("optimized", {}, t, {}), ("unoptimized", {"optimized": False}, t, {})]
                if lform and " " not in a and " " not in b:
                    grp.append(("literals-lifted", {}, lform % op, {"ka": __import__("ast").literal_eval(a), "kb": __import__("ast").literal_eval(b)}))
                out.append(("C08:float-nonfinite-constant", grp))
    for d in DEAD:
        for t in ("{%% if false %%}{{ %s }}{%% endif %%}ok" % d, "{{ 1 if true else (%s) }}" % d, "{{ 0 and (%s) }}" % d,
                  "{%% if x %%}{{ %s }}{%% endif %%}ok" % d):
            out.append(("C08:constant-in-dead-branch", [("optimized", {}, t, {"x": 0}), ("unoptimized", {"optimized": False}, t, {"x": 0})]))
    for a in SAME:
        for t in ("{%% if %s is sameas %s %%}same{%% else %%}diff{%% endif %%}" % (a, a), "{{ %s is sameas(%s) }}" % (a, a),
                  "{{ (%s is sameas %s) and 1 }}" % (a, a)):
            out.append(("C08:sameas-constants", [("optimized", {}, t, {}), ("unoptimized", {"optimized": False}, t, {})]))
    # constant collections through every builtin collection filter, in positions the optimizer folds, then used
    # by attribute / index / iteration: the folded value must behave like the run-time value (its exact type included)
    lits = {"rows": ('[{"k": 1, "v": "a"}, {"k": 1, "v": "b"}, {"k": 2, "v": "c"}]', [{"k": 1, "v": "a"}, {"k": 1, "v": "b"}, {"k": 2, "v": "c"}]),
            "pairs": ('[(2, "b"), (1, "a"), (2, "a")]', [(2, "b"), (1, "a"), (2, "a")]),
            "map": ('{"b": 2, "a": 1}', {"b": 2, "a": 1}), "words": ('["b", "a", "B", "a"]', ["b", "a", "B", "a"])}
    chains = {"rows": ['|groupby("k")', '|groupby("k")|list', '|groupby("v")|first', '|sort(attribute="v", reverse=true)', '|unique(attribute="k")|list',
                       '|map(attribute="v")|list', '|selectattr("k", "eq", 1)|list', '|rejectattr("k", "odd")|list', '|first', '|last', '|reverse|list',
                       '|batch(2)|list', '|slice(2)|list', '|length', '|sum(attribute="k")', '|min(attribute="k")', '|max(attribute="k")',
                       '|join(",", attribute="v")', '|tojson', '|list', '|map(attribute="k")|unique|list'],
              "pairs": ['|groupby(0)', '|groupby(1)|list', '|sort', '|first', '|batch(2)|first', '|map("first")|list', '|unique|list', '|max', '|list'],
              "map": ['|dictsort', '|dictsort(by="value")', '|items|list', '|list', '|length', '|tojson', '|dictsort|first', '|items|first'],
              "words": ['|sort', '|unique|list', '|groupby("0")|list', '|map("upper")|list', '|join("-")', '|batch(3, "x")|list', '|select("eq", "a")|list']}
    uses = ["{{ @ }}", "{% for g in @ %}[{{ g }}|{{ g.grouper }}|{{ g.list }}|{{ g[0] }}|{{ g.k }}|{{ g.v }}|{{ g.key }}]{% endfor %}",
            "{% set s = @ %}{{ s }}|{{ s[0] }}|{{ s[0].grouper }}|{{ s[0].list }}|{{ s[0].k }}|{{ (s|first).list }}|{{ s.grouper }}",
            "{{ (@|first).grouper }}|{{ (@|first).k }}|{{ (@|last)[1] }}", "{{ @|map(attribute='grouper')|join(',') }}|{{ @|map(attribute='list')|list }}",
            "{% if (@)[1].grouper == 2 %}yes{% else %}no{% endif %}", "{% for a, b in @ %}{{ a }}:{{ b }};{% endfor %}"]
    for kind, (lit, val) in lits.items():
        for ch in chains[kind]:
            for use in uses:
                t = use.replace("@", "(" + lit + ch + ")")
                tl = use.replace("@", "(kk" + ch + ")")
                out.append(("C08:folded-collection-filter:" + ch.split("|")[1].split("(")[0],
                            [("optimized", {}, t, {}), ("unoptimized", {"optimized": False}, t, {}), ("constant-lifted", {}, tl, {"kk": val})]))
    # a folded constant is WRITTEN into the generated source: its text must mean the same value in every operator context
    # whose other operand is not constant (sign, zero sign, magnitude, non-finite, non-numeric constants)
    import jinja2
    ref = jinja2.Environment(optimized=False)
    awkward = ["-0.0", "0.0 * -1", "-(1.5 - 1.5)", "0 * -1.5", "-1.5", "-2", "1 - 3", "-(2)", "0 - 0.0", "-0.0 * 1", "-(0.0)", "+(-0.0)", "0.0", "1.5", "10 ** 3", "-(10 ** 3)",
               "1e308 * 10", "-(1e308 * 10)", "(1e308 * 10) - (1e308 * 10)", "1 - 1", "true", "-true", "none", '"a"', '"-1"', "(1, 2)", "[1]", "-1|abs", "(-1)|abs", "-(1|abs)",
               "1 / -2", "-7 // 2", "-7 % 3", "(-2) ** 2", "-2 ** 2", "2 ** -1", "(0.0 * -1) * 1", "[-0.0][0]", "(-0.0, 1)[0]", "{'k': -0.0}['k']", "-0.0 if true else 1"]
    contexts = ["(@) ** x", "x ** (@)", "-(@)", "+(@)", "(@) * x", "x * (@)", "x - (@)", "(@) - x", "x + (@)", "(@) / x", "(@) // x", "(@) % x", "x % (@)", "(@) < x", "x ~ (@)", "(@) ~ x",
                "(@)|abs", "(@)|string", "not (@)", "(@) is number", "(@) == x", "[(@), x]", "(@) if x else x", "x if (@) else (@)", "(@) ** x ** x", "(x ** (@)) ** x", "-(@) ** x", "(@).real",
                "((@), x)|first", "{'k': (@), 'x': x}.k", "(@) and x", "x and (@)", "(@)|default(x)"]
    for c in awkward:
        try:
            kk = ref.compile_expression(c, undefined_to_none=False)()
        except Exception:
            continue
        for cx in contexts:
            for xv in (2, 3, 0.5, -1, 0):
                t = "{{ " + cx.replace("@", c) + " }}"
                grp = [("optimized", {}, t, {"x": xv}), ("unoptimized", {"optimized": False}, t, {"x": xv}),
                       ("constant-lifted", {}, "{{ " + cx.replace("@", "kk") + " }}", {"x": xv, "kk": kk})]
                out.append(("C08:constant-text-in-operator-context:" + cx, grp))
    # constants that have NO text: ints beyond the int/str conversion limit, complex numbers with non-finite parts (only
    # contexts that keep the value small enough to compute: no powers)
    notext = ["10 ** 5000", "2 ** 20000", "-(10 ** 4400)", "10 ** 4299", "10 ** 4300", "(-1) ** 0.5", "(-1) ** 0.5 * 1e308 * 10", "1e308 * 10 * ((-1) ** 0.5)", "((-1) ** 0.5) * (1e308 * 10 - 1e308 * 10)",
              "[10 ** 5000][0]", "(10 ** 5000, 1)[0]", "{'k': 10 ** 5000}['k']", "10 ** 5000 if true else 1", "(10 ** 2500) * (10 ** 2500)", "(-1) ** 0.5 + 1e308 * 10"]
    safe_ctx = ["(@) < x", "x < (@)", "(@) % 7 + x", "(@) == x", "(@) is number", "[(@), x]|length", "(@) > x and x", "((@) - (@)) + x", "((@) * 0) + x", "x if (@) else 0", "(@)|string|length + x", "(@) != (@) or x"]
    for c in notext:
        try:
            kk = ref.compile_expression(c, undefined_to_none=False)()
        except Exception:
            continue
        for cx in safe_ctx:
            for xv in (1, 2.5):
                t = "{{ " + cx.replace("@", c) + " }}"
                out.append(("C08:constant-without-text:" + cx, [("optimized", {}, t, {"x": xv}), ("unoptimized", {"optimized": False}, t, {"x": xv}),
                                                                ("constant-lifted", {}, "{{ " + cx.replace("@", "kk") + " }}", {"x": xv, "kk": kk})]))
        for form in ("{%% set v = %s %%}{{ v %% 7 }}", "{%% if %s > x %%}big{%% endif %%}", "{%% for i in [%s] %%}{{ i > x }}{%% endfor %%}"):
            t = form % c
            out.append(("C08:constant-without-text:statement", [("optimized", {}, t, {"x": 1}), ("unoptimized", {"optimized": False}, t, {"x": 1})]))
    # arguments of a foldable filter / test / call given through * and **, and given twice
    star_shapes = ['@|default("a", boolean=true, **{"boolean": false})', '@|default("a", **{"boolean": true})', '@|default(*["a", true])', '@|default("a", true, boolean=false)',
                   '@|default(*["a"], **{"default_value": "b"})', '@|string|center(*[5], **{"width": 6})', '@|string|center(**{"width": 6})', '@|string|replace("a", **{"new": "b"})',
                   '@|string|replace("a", "b", **{"count": 0})', '@|string|replace(*["a", "b", 1], count=2)', '@ is divisibleby(*[2])', '@ is divisibleby(**{"num": 2})', '@ is divisibleby(2, **{"num": 3})',
                   '@ is sameas(*[@])', '@|string|truncate(3, **{"length": 5})', '@|string|truncate(**{"length": 3, "leeway": 0})', '[@]|join(**{"d": "-"})', '[@]|join("+", **{"d": "-"})',
                   '@|round(**{"precision": 1})', '@|round(1, **{"precision": 2})', '@|int(**{"default": 7})', '@|int(5, **{"default": 7})', '{"k": @}|dictsort(**{"reverse": true, "by": "value"})',
                   '{"k": @}|dictsort(true, **{"case_sensitive": false})', '[@]|batch(2, **{"fill_with": 0})|list', '[@]|batch(2, 1, **{"fill_with": 0})|list', '[@]|sum(**{"start": 1})', '[@]|sum(none, 2, **{"start": 1})',
                   # the kind of the * / ** operand: ** needs a mapping (not a list of pairs, a string, a number), * any iterable (string, dict, tuple, not a number)
                   '@|string|center(**[("width", 5)])', '@|string|center(**(("width", 5),))', '@|string|center(**"ab")', '@|string|center(**5)', '@|string|center(**none)', '@|string|center(**[])',
                   '@|string|center(*"5")', '@|string|center(*(5,))', '@|string|center(*{5: 1})', '@|string|center(*5)', '@|string|center(*none)', '@|default(*"a")', '@|default(**{1: 2})',
                   '@ is divisibleby(*(2,))', '@ is divisibleby(**[("num", 2)])', '@ is divisibleby(*"2")', '[@]|join(*",")', '[@]|join(**[("d", ",")])']
    for shp in star_shapes:
        for c, kk in (("none", None), ('"a"', "a"), ("3", 3), ("2.5", 2.5), ("4", 4)):
            t = "{{ " + shp.replace("@", c) + " }}"
            out.append(("C08:star-arguments-of-foldable-call", [("optimized", {}, t, {}), ("unoptimized", {"optimized": False}, t, {}), ("constant-lifted", {}, "{{ " + shp.replace("@", "kk") + " }}", {"kk": kk})]))
    # a constant whose VALUE depends on the escaping mode, folded as part of a container literal (dict value, list / tuple
    # element, nested) inside a static autoescape block that differs from the environment's default, and outside one
    modedep = ['[(A|safe), B]|join(",")', '(A|safe) ~ B', 'A ~ (B|safe)', '(A ~ " http://x.y ")|urlize', '{"a": B}|xmlattr', 'A|escape', '(A|e) ~ B', '[A|safe, B]|join', '(A|safe|string) ~ B',
               '[A, B]|join("<")', '[A, B]|join("<"|safe)', '(A|safe) ~ (B|safe)', '"%s" % (A|safe) ~ B']
    conts = ['{"k": @}.k', '{"k": @}["k"]', '[@][0]', '(@, 1)[0]', '{"k": [@]}.k[0]', '[@]|first', '{"k": @}|dictsort|first|last', '{"j": 1, "k": @}.k', '[[@]][0][0]', '{"k": {"k": @}}.k.k',
             '({"k": @}.k) ~ ""', '{"k": @}.k|string', '[@, @]|join("|")', '@']
    for env_ae in (False, True):
        for blk in ("true", "false", None):
            for v in modedep:
                for cont in conts:
                    body = "{{ " + cont.replace("@", "(" + v + ")") + " }}"
                    t = body if blk is None else "{% autoescape " + blk + " %}" + body + "{% endautoescape %}"
                    lit, lifted = t.replace("A", '"<a>"').replace("B", '"<b>"'), t.replace("A", "ka").replace("B", "kb")
                    kw = {"autoescape": env_ae}
                    out.append(("C08:mode-dependent-constant-in-container:" + cont, [("optimized", kw, lit, {}), ("unoptimized", dict(kw, optimized=False), lit, {}),
                                                                                    ("literals-lifted", kw, lifted, {"ka": "<a>", "kb": "<b>"})]))
    # the FLAG of an autoescape block lifted into a variable (static vs run-time decided escaping), around statement bodies
    # that capture output: filter blocks, filtered and plain set blocks, macros and call blocks, with Markup-sensitive filters
    bodies = ["{{ @ }}", "{{ @|e }}", "{{ '<a>%s'|format(@) }}", "{{ @ ~ '<c>' }}", "{% filter e %}<b>{{ @ }}{% endfilter %}", "{% filter format('<q>') %}%s<b>{{ @ }}{% endfilter %}",
              "{% filter upper %}<b>{{ @ }}{% endfilter %}", "{% filter e|e %}<b>{{ @ }}{% endfilter %}", "{% filter replace('b', '<r>') %}<b>{{ @ }}{% endfilter %}",
              "{% set v | e %}<i>{{ @ }}{% endset %}{{ v }}", "{% set v | upper %}<i>{{ @ }}{% endset %}{{ v }}|{{ v|e }}", "{% set v %}<i>{{ @ }}{% endset %}{{ v }}|{{ v ~ '<' }}",
              "{% set v | format('<q>') %}%s<i>{{ @ }}{% endset %}{{ v }}", "{% macro m() %}<m>{{ @ }}{% endmacro %}{{ m() }}|{{ m()|e }}",
              "{% macro m() %}{{ caller() }}{% endmacro %}{% call m() %}<c>{{ @ }}{% endcall %}", "{% filter e %}{% filter upper %}<b>{{ @ }}{% endfilter %}{% endfilter %}",
              "{% for i in [1] %}{% filter e %}<b>{{ @ }}{% endfilter %}{% endfor %}", "{% if fl is defined or true %}{% set v | e %}<i>{{ @ }}{% endset %}{{ v }}{% endif %}"]
    exprs = ['"<b>"', '"<b>"|safe', "x", "x|safe", '["<l>", x]|join("&")']
    for env_ae in (False, True):
        for outer in (None, "true", "false"):
            for flag in ("true", "false"):
                for body in bodies:
                    for ex in exprs:
                        if ctx.tier == "quick" and (hash((env_ae, outer, flag, body, ex)) if False else (bodies.index(body) + exprs.index(ex) + (outer is None) + env_ae * 2 + (flag == "true"))) % 4:
                            continue                   # quick tier: a quarter of the product, every body x every expression still met
                        b = body.replace("@", ex)
                        pre, post = ("", "") if outer is None else ("{% autoescape " + outer + " %}", "{% endautoescape %}")
                        tc = pre + "{% autoescape " + flag + " %}" + b + "{% endautoescape %}" + post
                        tv = pre + "{% autoescape fl %}" + b + "{% endautoescape %}" + post
                        kw = {"autoescape": env_ae}
                        d = {"x": "<x>", "fl": flag == "true"}
                        out.append(("C08:autoescape-flag-lifted:" + body[:24], [("constant-flag", kw, tc, d), ("flag-in-variable", kw, tv, d),
                                                                               ("constant-flag-unoptimized", dict(kw, optimized=False), tc, d), ("flag-in-variable-unoptimized", dict(kw, optimized=False), tv, d)]))
    # ---- probes of known findings (re-observed on every run)
    for t in ("{% set y = false and (1|nofilter) %}{{ y }}", "{{ true or (1 is notest) }}", "{{ 0 and (x|nofilter) }}", "{{ (1 or 2|nofilter(3))|string }}"):
        out.append(("C08:unknown-filter-in-folded-short-circuit", [("optimized", {}, t, {"x": 1}), ("unoptimized", {"optimized": False}, t, {"x": 1})]))
    mac = ('{% set ns = namespace() %}{% autoescape F1 %}{% macro m() %}{{ X|xmlattr }}{% endmacro %}{% set ns.m = m %}{% endautoescape %}'
           '{% autoescape F2 %}{{ ns.m() }}{% endautoescape %}')
    for f1, f2 in (("true", "false"), ("false", "true")):
        for ae in (False, True):
            t = mac.replace("F1", f1).replace("F2", f2)
            out.append(("C08:macro-called-outside-its-autoescape-block", [("optimized", {"autoescape": ae}, t.replace("X", '{"a": "<"}'), {}),
                                                                        ("constant-lifted", {"autoescape": ae}, t.replace("X", "kk"), {"kk": {"a": "<"}})]))
    # more shapes of the macro / eval-context known finding: a block of a parent template selected as autoescaping by its NAME, rendered
    # through a child whose name selects no autoescaping; a macro defined at top level and called inside a block with the other flag
    sel = jinja2.select_autoescape(["html"], default_for_string=False)
    inh = {"base.html": "[{% block b %}{{ X|xmlattr }}{% endblock %}]"}
    out.append(("C08:macro-called-outside-its-autoescape-block", [
        ("optimized", {"autoescape": sel, "loader": jinja2.DictLoader({k: v.replace("X", '{"a": "<"}') for k, v in inh.items()})}, "{% extends 'base.html' %}", {}),
        ("constant-lifted", {"autoescape": sel, "loader": jinja2.DictLoader({k: v.replace("X", "kk") for k, v in inh.items()})}, "{% extends 'base.html' %}", {"kk": {"a": "<"}})]))
    for ae, fl in ((True, "false"), (False, "true")):
        t = "{% macro m() %}{{ X|xmlattr }}{% endmacro %}{% autoescape " + fl + " %}{{ m() }}{% endautoescape %}"
        out.append(("C08:macro-called-outside-its-autoescape-block", [("optimized", {"autoescape": ae}, t.replace("X", '{"a": "<"}'), {}),
                                                                    ("constant-lifted", {"autoescape": ae}, t.replace("X", "kk"), {"kk": {"a": "<"}})]))
    fins = {"none-to-empty": (lambda x: "" if x is None else x), "wrap": (lambda x: "<%s>" % (x,)), "identity": (lambda x: x)}
    for fname, fin in fins.items():
        for ae in (False, True):
            for c, v in (("none", None), ("1", 1), ('"<a>"', "<a>"), ('"<b>"|safe', None), ("1 + 1", 2), ('"a" ~ "<"', "a<")):
                kw = {"finalize": fin, "autoescape": ae}
                grp = [("optimized", kw, "{{ %s }}" % c, {}), ("unoptimized", dict(kw, optimized=False), "{{ %s }}" % c, {})]
                if v is not None or c == "none":
                    grp.append(("constant-lifted", kw, "{{ kk }}", {"kk": v}))
                out.append(("C08:finalize-order:%s:ae=%d" % (fname, ae), grp))
    return out


def srepr(d):
    try:
        return repr(d)[:400]
    except ValueError:          # an int beyond the int/str conversion limit
        return "{" + ", ".join(k + ": <" + type(v).__name__ + " without text>" for k, v in d.items()) + "}"


def run_template_stream(ctx):
    import jinja2
    reported = {}
    for sig, grp in template_stream(ctx):
        res = []
        for label, kw, t, data in grp:
            try:
                env = jinja2.Environment(**kw)
                r = ("ok", env.from_string(t).render(**data))
            except Exception as ex:
                r = ("err", type(ex).__name__)
            res.append((label, r))
        base = res[0]
        case = {"kind": "template", "signature": sig, "group": [(l, {k: (v if isinstance(v, (bool, int)) else "<function>") for k, v in kw.items()}, t, srepr(d)) for l, kw, t, d in grp]}
        ok = True
        for label, r in res[1:]:
            same = r == base[1] or (r[0] == "err" and base[1][0] == "err")
            if not same:
                ok = False
                reported[sig] = reported.get(sig, 0) + 1
                if reported[sig] > 2:      # lib keeps at most 50 rejections: leave room for every class
                    continue
                ctx.reject(dict(case, base=repr(base), other=repr((label, r))),
                           f"{grp[0][2]!r}: render({base[0]}) = {base[1]!r} but render({label}) = {r!r}", sig)
        ctx.case(sample={"template": grp[0][2], "class": sig} if ok and len(ctx.samples) < 6 and "finalize" in sig else None,
                 key=("tpl", sig, grp[0][2]))
        ctx.count("tpl_" + sig.split(":")[1])
        if ok:
            ctx.validated()


# ---------------------------------------------------------------- constants in every position and environment kind
POS_TEMPLATES = {
    "if": "{% if @ %}T{% else %}F{% endif %}", "elif": "{% if false %}{% elif @ %}T{% endif %}", "set": "{% set v = @ %}{{ v }}",
    "set-block": "{% set v %}{{ @ }}{% endset %}{{ v }}", "for-iter": "{% for i in [@, 1] %}{{ i }};{% endfor %}", "for-filter": "{% for i in [1, 2] if @ %}{{ i }}{% endfor %}",
    "macro-default": "{% macro m(p=@) %}{{ p }}{% endmacro %}{{ m() }}", "macro-body": "{% macro m() %}{{ @ }}{% endmacro %}{{ m() }}|{{ m() }}",
    "with": "{% with w = @ %}{{ w }}{% endwith %}", "filter-block-arg": "{% filter default(@, true) %}{% endfilter %}", "call-arg": "{{ ff(@)|string }}",
    "call-block": "{% macro m() %}{{ caller() }}{% endmacro %}{% call m() %}{{ @ }}{% endcall %}", "for-body": "{% for i in [1, 2] %}{{ @ }}{% endfor %}",
    "static-ae-on": "{% autoescape true %}{{ @ }}{% endautoescape %}", "static-ae-off": "{% autoescape false %}{{ @ }}{% endautoescape %}",
    "runtime-ae": "{% autoescape yy %}{{ @ }}{% endautoescape %}", "dict-value": "{{ {'k': @}['k'] }}", "test-arg": "{{ 1 is eq(@) }}", "print-stmt": "{% print @ %}",
    "dead-branch": "{% if false %}{{ @ }}{% endif %}ok", "untaken-branch": "{% if nn %}{{ @ }}{% endif %}ok", "short-circuit": "{{ nn and (@) }}",
    "child-block": None, "include": None, "import": None,
}
ENV_KINDS = ["default", "autoescape", "async", "overlay", "template-ctor", "selector-html", "selector-txt", "strict-undefined", "chainable-undefined", "debug-undefined", "sandbox", "native"]


def pos_render(kind, optimized, pos, esrc, data):
    """render the expression source esrc in position pos under an environment kind"""
    import jinja2
    kw = {"optimized": optimized}
    name = "t.html" if kind == "selector-html" else "t.txt"
    if kind == "autoescape":
        kw["autoescape"] = True
    if kind == "async":
        kw["enable_async"] = True
    if kind.startswith("selector"):
        kw["autoescape"] = jinja2.select_autoescape(["html"])
    if kind.endswith("-undefined"):
        kw["undefined"] = {"strict": jinja2.StrictUndefined, "chainable": jinja2.ChainableUndefined, "debug": jinja2.DebugUndefined}[kind.split("-")[0]]
    cls = jinja2.Environment
    if kind == "sandbox":
        from jinja2.sandbox import SandboxedEnvironment as cls
    if kind == "native":
        from jinja2.nativetypes import NativeEnvironment as cls
    body = POS_TEMPLATES[pos]
    files = {}
    if pos == "child-block":
        files = {"base": "[{% block b %}{% endblock %}]", name: "{% extends 'base' %}{% block b %}{{ " + esrc + " }}{% endblock %}"}
    elif pos == "include":
        files = {"inc": "{{ " + esrc + " }}", name: "<{% include 'inc' %}>"}
    elif pos == "import":
        files = {"lib": "{% macro m() %}{{ " + esrc + " }}{% endmacro %}", name: "{% import 'lib' as l with context %}{{ l.m() }}"}
    else:
        files = {name: body.replace("@", esrc)}
    d = dict(data, yy=True, nn=False, ff=lambda v: v)
    try:
        if kind == "template-ctor" and len(files) == 1:
            t = jinja2.Template(files[name], **kw)
        else:
            env = cls(loader=jinja2.DictLoader(files), **kw)
            if kind == "overlay":
                env = env.overlay(lstrip_blocks=True)
            t = env.get_template(name)
        import re
        addr = lambda x: re.sub(r"0[xX][0-9a-fA-F]+", "0x?", x)  # noqa: E731  (bound methods of constants print their address)
        if kind == "async":
            return ("ok", addr(X.run_async(t.render_async(**d))))
        out = t.render(**d)
        return ("ok", addr(out) if isinstance(out, str) else (type(out).__name__, addr(repr(out))))
    except Exception as ex:
        return ("err", X.err_class(ex))


def run_position_stream(ctx):
    g = X.EGen(ctx.rng, const_rich=True)
    poss = list(POS_TEMPLATES)
    n = ctx.size(450, 9000)
    # second half: constants whose VALUE misbehaves when it is used (the environment's undefined object, None, empty containers)
    # under every operator, mostly in code that is never executed -- folding must not run what the render would not run
    dead = ["dead-branch", "untaken-branch", "short-circuit", "dead-branch", "untaken-branch", "short-circuit", "if", "set", "for-body"]
    nb = ctx.size(600, 9000)

    def wrapped():
        r = ctx.rng
        u = g.atom("none") if r.random() < 0.6 else g.access(2)
        if r.random() < 0.25:
            # a constant container accessed by a name that is BOTH a key and an attribute / method of the container type
            nm = r.choice(["keys", "items", "values", "get", "copy", "count", "index", "real", "upper", "a"])
            lit = r.choice([("D", [(("C", nm), g.gen(1))]), ("D", [(("C", nm), ("C", 1)), (("C", "a"), ("C", 2))]), ("L", [("C", 1)]), ("T", [("C", 1), ("C", 1)]), ("C", "ab"), ("C", 3)])
            u = r.choice([(".", lit, nm), ("[]", lit, ("C", nm)), ("call", (".", lit, nm), [], []), ("F", ("call", (".", lit, nm), [], []), "list", []), ("call", (".", lit, nm), [("C", 1)], [])])
        for _ in range(r.randint(1, 2)):
            x, y = g.gen(1), g.gen(1)
            u = r.choice([("&", u, x), ("&", x, u), ("|", u, x), ("|", x, u), ("?", u, x, y), ("?", u, x, None), ("?", x, u, y), ("~", [u, x]), ("~", [x, u]),
                          ("!", u), ("cmp", u, [(r.choice(["eq", "lt", "in"]), x)]), ("cmp", x, [("in", u)]), ("F", u, r.choice(["upper", "length", "string", "list", "first", "abs"]), []),
                          ("F", u, "default", [x]), ("is", u, r.choice(["defined", "none", "odd", "string"]), []), ("B", r.choice(["add", "mul", "mod"]), u, x),
                          ("B", "sub", x, u), ("U", "neg", u), ("[]", u, x), ("[]", x, u), (".", u, "a"), ("L", [u, x]), ("D", [(("C", "k"), u)]), ("sl", x, u, None, None)])
        return u

    for i in range(n + nb):
        if i < n:
            e = g.gen(ctx.rng.randint(1, 3)) if i >= len(FIXED) else FIXED[i]
            pos = poss[i % len(poss)]
            kind = ENV_KINDS[(i // len(poss) + i) % len(ENV_KINDS)]
        else:
            e = wrapped()
            pos = dead[i % len(dead)]
            kind = ENV_KINDS[(i // len(dead) + i) % len(ENV_KINDS)]
        data = X.make_data(random.Random(i), [])
        src = "(" + X.to_src(e) + ")"
        acc = {}
        lsrc = "(" + X.to_src(lift_leaves(e, acc)) + ")"
        base = pos_render(kind, True, pos, src, data)
        others = [("unoptimized", pos_render(kind, False, pos, src, data))]
        if acc:
            others.append(("literals-lifted", pos_render(kind, True, pos, lsrc, dict(data, **acc))))
        ok = True
        for label, r in others:
            if r != base and not (r[0] == "err" and base[0] == "err"):
                ok = False
                ctx.reject({"kind": "position", "position": pos, "env": kind, "expr": src, "tree": repr(e), "base": repr(base), "other": repr((label, r))},
                           f"position {pos}, environment {kind}: render(optimized) = {base!r} but render({label}) = {r!r} for {src}",
                           "C08:position:" + pos + ":" + kind + ":" + src)
        ctx.case(key=("pos", pos, kind, src))
        ctx.count("position_" + pos)
        ctx.count("envkind_" + kind)
        if ok:
            ctx.validated()


def run(ctx):
    X.use_jinja()
    ctx.extra["rule"] = RULE
    ctx.assumptions += [
        "default finalize (str) and no user extensions; filters enter through the modelled part of the table (safe escape e upper lower length count default d abs string list join; map as a context filter)",
        "floats are an opaque carrier (expressions whose folding needs float arithmetic are compared on the real engine only: counted *_opaque)",
        "dict literals with unhashable constant keys are outside the model (the real optimizer raises TypeError at compile time)",
    ]
    ctx.proof("C08")
    run_template_stream(ctx)
    run_position_stream(ctx)
    depth = ctx.size(4, 5)
    n = ctx.size(700, 15000)
    g = X.EGen(ctx.rng, const_rich=True)
    cases = [(e, 500 + i) for i, e in enumerate(FIXED)]
    for _ in range(n):
        cases.append((g.gen(ctx.rng.randint(1, depth)), ctx.rng.randrange(1 << 30)))
    lines, metas = [], []
    for i, (e, ds) in enumerate(cases):
        cfgs = CONFIGS if i < len(FIXED) else ([CONFIGS[j] for j in ctx.rng.sample(range(len(CONFIGS)), 4)])
        for cfgt in cfgs:
            metas.append((e, ds, cfgt, len(lines)))
            lines += build_lines(e, ds, cfgt)
    outs = ctx.driver("expr", lines)
    for e, ds, cfgt, off in metas:
        if any(o.startswith("BAD") for o in outs[off:off + 3]):
            raise RuntimeError("driver rejected: " + repr(outs[off:off + 3]) + X.to_src(e))
        X.guarded(ctx, one_case, ctx, e, ds, cfgt, outs[off:off + 3], "gen")


def replay(ctx, data):
    X.use_jinja()
    case = data.get("case")
    if data.get("kind") != "failing-input" or case is None:
        print("replay: names a broken theorem/correspondence:", data.get("broken"))
        return run(ctx)
    e = eval(case["tree"], {"Markup": X._markup()})
    cfgt = (case["mode"], case["ae"], case["vol"], case["y"], case.get("blk"))
    lines = build_lines(e, case["data_seed"], cfgt)
    outs = ctx.driver("expr", lines)
    for ln in outs:
        print("model:", ln[:300])
    log = []
    for label, r in render_variants(e, cfgt, X.make_data(random.Random(case["data_seed"]), log), ctx.rng):
        print("real :", label, "=>", r)
    X.guarded(ctx, one_case, ctx, e, case["data_seed"], cfgt, outs, "replay")
